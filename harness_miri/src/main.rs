//! C14, observed part under Miri. Threads build scanners through the shared cache (hits, misses,
//! failing builds), create iterators from one shared Scanner and from private scanners and scan;
//! every thread's observations are compared with the same calls made sequentially beforehand.
//! Miri reports data races, use of freed or uninitialised memory and other undefined behaviour on
//! the schedules it executes (varied with -Zmiri-seed), in particular around the unsafe
//! `Arc::as_ptr` dereference in ScannerCache::get. Exit code 0 = all equal and no report.
use scnr::{Pattern, ScannerBuilder, ScannerMode, ScannerModeSwitcher};
use std::sync::{Arc, Barrier};

type Obs = Vec<(usize, usize, usize)>;

fn modes(k: usize) -> Vec<ScannerMode> {
    match k % 7 {
        0 => vec![ScannerMode::new(
            "M",
            vec![Pattern::new("ab+".to_string(), 0), Pattern::new("c+".to_string(), 1)],
            vec![],
        )],
        1 => vec![
            ScannerMode::new(
                "A",
                vec![Pattern::new("a".to_string(), 0), Pattern::new("x".to_string(), 2)],
                vec![(2, 1)],
            ),
            ScannerMode::new(
                "B",
                vec![Pattern::new("[ab]+".to_string(), 1), Pattern::new("x".to_string(), 2)],
                vec![(2, 0)],
            ),
        ],
        2 => vec![ScannerMode::new(
            "L",
            vec![
                Pattern::new("a".to_string(), 0).with_lookahead(scnr::Lookahead::new(true, "b".to_string())),
                Pattern::new("[abc]".to_string(), 1),
            ],
            vec![],
        )],
        // a failing build: unsupported feature
        3 => vec![ScannerMode::new("F", vec![Pattern::new("^a".to_string(), 0)], vec![])],
        // a failing build whose pattern is long and full of multi-byte characters (error paths format it
        // while the cache lock is held)
        _ => vec![ScannerMode::new(
            "G",
            // only 3-byte characters after a prefix of 0, 1 or 2 bytes: every byte offset is inside a
            // character for one of the three alignments
            vec![Pattern::new(format!("{}{}\\b", "x".repeat(k % 7 - 4), "\u{20ac}".repeat(40)), 0)],
            vec![],
        )],
    }
}

fn scan(s: &scnr::Scanner, input: &str) -> Obs {
    s.find_iter(input).map(|m| (m.token_type(), m.start(), m.end())).collect()
}

fn build_and_scan(k: usize, input: &str) -> Result<Obs, String> {
    match ScannerBuilder::new().add_scanner_modes(&modes(k)).build() {
        Ok(s) => Ok(scan(&s, input)),
        Err(e) => Err(format!("{}", e).chars().take(20).collect()),
    }
}

fn thread_actions(t: usize, shared: &scnr::Scanner) -> Vec<Result<Obs, String>> {
    // a different text per thread: the threads ask the shared character-class predicate different questions
    let base = "abxabbcxa";
    let rot = t % base.len();
    let input_owned = format!("{}{}", &base[rot..], &base[..rot]);
    let input: &str = &input_owned;
    let mut out = Vec::new();
    for step in 0..3 {
        let k = (t + 2 * step + 1) % 7;
        out.push(build_and_scan(k, input));
        out.push(Ok(scan(shared, input)));
        // a partially consumed iterator of the shared scanner with a mode switch
        let mut it = shared.find_iter(input);
        let first = it.next().map(|m| (m.token_type(), m.start(), m.end()));
        it.set_mode(1);
        let mut rest: Obs = it.map(|m| (m.token_type(), m.start(), m.end())).collect();
        if let Some(f) = first {
            rest.insert(0, f);
        }
        out.push(Ok(rest));
    }
    out
}

fn main() {
    let nthreads: usize = std::env::args().nth(1).and_then(|a| a.parse().ok()).unwrap_or(4);
    let shared = Arc::new(ScannerBuilder::new().add_scanner_modes(&modes(1)).build().unwrap());
    // sequential reference (also warms the cache for k = 1: the first concurrent builds of 1 are hits,
    // the others misses racing with each other)
    let reference: Vec<_> = (0..nthreads).map(|t| thread_actions(t, &shared)).collect();
    let barrier = Arc::new(Barrier::new(nthreads));
    let mut hs = Vec::new();
    for t in 0..nthreads {
        let sh = shared.clone();
        let b = barrier.clone();
        hs.push(std::thread::spawn(move || {
            b.wait();
            thread_actions(t, &sh)
        }));
    }
    let mut bad = 0;
    for (t, h) in hs.into_iter().enumerate() {
        match h.join() {
            Ok(obs) => {
                if obs != reference[t] {
                    println!("DIFF thread {}: {:?} vs sequential {:?}", t, obs, reference[t]);
                    bad += 1;
                }
            }
            Err(_) => {
                println!("PANIC thread {}", t);
                bad += 1;
            }
        }
    }
    println!("threads {} actions {} bad {}", nthreads, reference.iter().map(|r| r.len()).sum::<usize>(), bad);
    std::process::exit(if bad == 0 { 0 } else { 1 });
}
