#!/bin/sh
# Builds the framework from files on disk only (offline): Coq development and harness.
set -e
cd "$(dirname "$0")"
export CARGO_NET_OFFLINE=true
(cd coq && coq_makefile -f _CoqProject -o Makefile >/dev/null && timeout 3000 make -j16 >/dev/null)
(cd harness && RUSTFLAGS="--cfg scnr_verif" cargo build --offline >/dev/null 2>&1)
echo setup ok
