"""C12 — source premises of the isolation model, regenerated into coq/Gen/IsolationFacts.v on every run.

The functional model (Iter.v, Scratch.v) says: an iterator owns ALL the state its results depend on
(a ScannerImpl = compiled modes + current mode, each compiled automaton with its two scratch
vectors, and the cursor fields), created by cloning the Scanner's ScannerImpl and resetting its
mode; find_from clears its scratch vectors at entry. These are facts about the source text; each is
read off /repo/scnr/src here and becomes a boolean definition, `isolation_facts_ok` is proved by
reflexivity and is a premise of Properties/C12.v (C12_source_premises)."""
import os, re
from common import *
from prop_c13 import read_code, find_struct, match_brace, derives_of, write_if_changed

SRC = os.path.join(REPO, 'scnr', 'src')
GEN = os.path.join(COQ, 'Gen', 'IsolationFacts.v')

MODEL_STATE = {
    ('internal/scanner_impl.rs', 'ScannerImpl'): ['character_classes', 'scanner_modes', 'match_char_class', 'current_mode'],
    ('internal/compiled_scanner_mode.rs', 'CompiledScannerMode'): ['name', 'dfa', 'transitions'],
    ('internal/compiled_dfa.rs', 'CompiledDfa'): ['patterns', 'terminal_ids', 'states', 'end_states', 'lookaheads', 'current_states', 'next_states'],
    ('internal/compiled_lookahead.rs', 'CompiledLookahead'): ['nfa', 'is_positive'],
    ('internal/find_matches_impl.rs', 'FindMatchesImpl'): ['scanner_impl', 'input', 'char_indices', 'last_position', 'last_char', 'line_offsets', 'offset'],
    ('scanner.rs', 'Scanner'): ['inner'],
}
SHARING = r'\b(?:Rc|RefCell|Cell|UnsafeCell|Mutex|RwLock|Atomic\w*|OnceCell|OnceLock|LazyLock|Lazy)\s*<|\bstatic\s+mut\b|\bthread_local\s*!'


def fn_body(code, name, after=None):
    """body text of the first `fn name` (optionally searching after the first occurrence of `after`)"""
    start = code.find(after) if after else 0
    if start < 0:
        return None
    m = re.search(r'\bfn\s+%s\s*(?:<[^>]*>)?\s*\(' % re.escape(name), code[start:])
    if not m:
        return None
    i = code.find('{', start + m.end())
    # skip a where clause / return type: the first '{' after the signature's closing paren
    if i < 0:
        return None
    j = match_brace(code, i)
    return code[i:j + 1] if j else None


def struct_text(code, name):
    m = re.search(r'\bstruct\s+%s\b[^{;]*\{' % re.escape(name), code)
    if not m:
        return None
    i = m.end() - 1
    j = match_brace(code, i)
    return code[i:j + 1] if j else None


def fields_of(txt):
    """field names of a struct body `{ ... }` (comments already stripped): split at top-level commas"""
    body = txt.strip()[1:-1]
    parts, depth, cur = [], 0, ''
    i = 0
    while i < len(body):
        ch = body[i]
        if ch in '<([{':
            depth += 1
        elif ch in ')]}':
            depth -= 1
        elif ch == '>' and body[i - 1] != '-':
            depth -= 1
        if ch == ',' and depth == 0:
            parts.append(cur)
            cur = ''
        else:
            cur += ch
        i += 1
    parts.append(cur)
    out = []
    for part in parts:
        part = re.sub(r'#\[[^\]]*\]', '', part)
        m = re.match(r'\s*(?:pub\s*(?:\([^)]*\))?\s*)?(\w+)\s*:', part)
        if m:
            out.append(m.group(1))
    return out


def read_facts():
    facts = []
    codes = {}
    for (rel, _), _ in MODEL_STATE.items():
        p = os.path.join(SRC, rel)
        codes[rel] = read_code(p) if os.path.exists(p) else ''
    for (rel, name), want in MODEL_STATE.items():
        found = find_struct(codes[rel], name)
        low = re.sub(r'(?<!^)(?=[A-Z])', '_', name).lower()
        if not found:
            facts.append(('%s_fields_are_the_modelled_state' % low, False, 'struct %s not found in %s' % (name, rel)))
            continue
        attrs, _ = found
        fields = fields_of(struct_text(codes[rel], name) or '{}')
        facts.append(('%s_fields_are_the_modelled_state' % low, sorted(fields) == sorted(want),
                      'fields of %s are %s; the model knows %s (a new field is state the model does not have)' % (name, fields, want)))
        txt = struct_text(codes[rel], name) or ''
        sh = re.findall(SHARING, txt)
        facts.append(('%s_has_no_interior_mutability' % low, not sh,
                      '%s must not contain Rc/RefCell/Cell/Mutex/RwLock/atomics/lazies: %s' % (name, sh)))
        if name in ('ScannerImpl', 'CompiledScannerMode', 'CompiledDfa', 'CompiledLookahead'):
            facts.append(('%s_derives_clone' % low, 'Clone' in derives_of(attrs), '%s must derive Clone (deep copy per iterator)' % name))
    si = struct_text(codes['internal/scanner_impl.rs'], 'ScannerImpl') or ''
    arcs = re.findall(r'(\w+)\s*:\s*Arc\s*<', si)
    facts.append(('scanner_impl_shares_only_the_immutable_registry_and_predicate', sorted(arcs) == ['character_classes', 'match_char_class']
                  and bool(re.search(r'match_char_class\s*:\s*Arc\s*<\s*dyn\s*\(?\s*Fn\b', si)),
                  'the only Arc fields of ScannerImpl must be character_classes and match_char_class (an Fn, not FnMut): %s' % arcs))
    sc = struct_text(codes['scanner.rs'], 'Scanner') or ''
    facts.append(('scanner_owns_its_scanner_impl', bool(re.search(r'\binner\s*:\s*ScannerImpl\b', sc)),
                  'Scanner.inner must be a ScannerImpl by value'))
    fi = fn_body(codes['scanner.rs'], 'find_iter') or ''
    facts.append(('find_iter_clones_the_scanner_impl', bool(re.search(r'self\s*\.\s*inner\s*\.\s*clone\s*\(\s*\)', fi)),
                  'Scanner::find_iter must hand a clone of self.inner to the iterator'))
    nw = fn_body(codes['internal/find_matches_impl.rs'], 'new') or ''
    facts.append(('iterator_constructor_resets_the_mode', bool(re.search(r'\.\s*scanner_impl\s*\.\s*reset\s*\(\s*\)', nw)),
                  'FindMatchesImpl::new must call scanner_impl.reset()'))
    rs = fn_body(codes['internal/scanner_impl.rs'], 'reset') or ''
    # logging statements are not state: ignore trace!/debug!/info!/warn! invocations
    rs_nolog = re.sub(r'\b(?:log\s*::\s*)?(?:trace|debug|info|warn)\s*!\s*\((?:[^()]|\([^()]*\))*\)\s*;', '', rs)
    facts.append(('reset_sets_mode_zero', bool(re.fullmatch(r'\{\s*self\s*\.\s*current_mode\s*=\s*0\s*;\s*\}', rs_nolog.strip())),
                  'ScannerImpl::reset must be exactly `self.current_mode = 0;` (the model resets nothing else, there is nothing else): %r' % rs[:120]))
    ff = fn_body(codes['internal/compiled_dfa.rs'], 'find_from') or ''
    head = ff.split('for ', 1)[0] if 'for ' in ff else ''
    entry = re.search(r'self\s*\.\s*current_states\s*\.\s*clear\s*\(\s*\)\s*;.*?self\s*\.\s*current_states\s*\.\s*push\s*\(\s*StateSetID\s*::\s*new\s*\(\s*0\s*\)\s*\)\s*;'
                      r'.*?self\s*\.\s*next_states\s*\.\s*clear\s*\(\s*\)\s*;', head, re.S)
    facts.append(('find_from_clears_its_scratch_vectors_at_entry', bool(entry),
                  'find_from must clear current_states, push the start state and clear next_states before its loop (Scratch.v: clear_at_entry = true)'))
    rnd = re.search(r'self\s*\.\s*current_states\s*\.\s*clear\s*\(\s*\)\s*;\s*(?:std\s*::\s*)?mem\s*::\s*swap\s*\(\s*&mut\s+self\s*\.\s*current_states\s*,\s*&mut\s+self\s*\.\s*next_states\s*\)',
                    ff.split('for ', 1)[1] if 'for ' in ff else '', re.S)
    facts.append(('find_from_round_ends_with_clear_and_swap', bool(rnd),
                  'every round of find_from must end with current_states.clear(); swap(current_states, next_states) (Scratch.v sim_st)'))
    return facts


def facts_file(facts):
    a = ['(* GENERATED on every run by lib/c12_facts.py from the current /repo/scnr/src text. Do not edit.\n'
         '   Each definition is a premise of the isolation model (Iter.v, Scratch.v) read off the source. *)\n'
         'From Coq Require Import Bool.\n']
    for n, v, why in facts:
        a.append('(* %s *)\nDefinition %s : bool := %s.\n' % (why.replace('(*', '( *').replace('*)', '* )'), n, cbool(v)))
    a.append('Definition isolation_facts : bool :=\n  %s.\n' % ' && '.join(n for n, _, _ in facts))
    a.append('Lemma isolation_facts_ok : isolation_facts = true.\nProof. reflexivity. Qed.\n')
    return ''.join(a)


def regen(out):
    facts = read_facts()
    write_if_changed(GEN, facts_file(facts))
    for n, v, why in facts:
        if not v:
            out.broken.append({'what': 'source premise of the isolation model no longer holds: %s' % n, 'detail': why})
    return facts
