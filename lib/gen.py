"""Generators: patterns from a grammar, modes, inputs, histories. Every random choice comes
from the one random.Random instance handed in."""
import random

LETTERS = ['a', 'b', 'c']
WIDE = ['é', '€', '😀']          # 2, 3 and 4 bytes in UTF-8
# characters at the boundaries of the UTF-8 length classes and of ASCII, controls
BOUNDARY = ['\x7f', '\x01', '\x7e', '\u0080', '\u07ff', '\u0800', '\uffff', '\U00010000', '\U0010ffff', '\t', '\r', '\x00', '\x00']
OTHER = ['\n', ' ', '-', 'x', '0', '_']
META = set('\\.+*?()|[]{}^$#&-~')


def esc(c):
    if c == '\n':
        return '\\n'
    if c == '\r':
        return '\\r'
    if c == '\t':
        return '\\t'
    if c in META:
        return '\\' + c
    return c


def esc_cls(c):
    if c == '\n':
        return '\\n'
    if c in '\\]^-[&~':
        return '\\' + c
    return c


def gen_class(rng):
    """A bracketed or Perl class as pattern text."""
    k = rng.random()
    if k < 0.15:
        return rng.choice(['\\d', '\\w', '\\s', '\\D', '\\W', '\\S'])
    if k < 0.25:
        return '.'
    items = []
    for _ in range(rng.randint(1, 3)):
        r = rng.random()
        if r < 0.5:
            items.append(esc_cls(rng.choice(LETTERS + WIDE + OTHER)))
        elif r < 0.8:
            lo, hi = sorted(rng.sample(['a', 'b', 'c', 'x', 'é', '€'], 2), key=ord)
            items.append('%s-%s' % (esc_cls(lo), esc_cls(hi)))
        elif r < 0.9:
            items.append(rng.choice(['\\d', '\\w', '\\s']))
        else:
            items.append(rng.choice(['[:alpha:]', '[:digit:]', '[:space:]']))
    neg = '^' if rng.random() < 0.2 else ''
    body = ''.join(items)
    if rng.random() < 0.12:
        body = body + rng.choice(['&&', '--', '~~']) + '[' + esc_cls(rng.choice(LETTERS)) + esc_cls(rng.choice(LETTERS + ['x'])) + ']'
    return '[' + neg + body + ']'


def gen_atom(rng):
    r = rng.random()
    if r < 0.62:
        return esc(rng.choice(LETTERS * 4 + WIDE + OTHER))
    return gen_class(rng)


def gen_re(rng, depth=3, nullable_ok=True):
    """Pattern text from the supported grammar."""
    if depth <= 0:
        return gen_atom(rng)
    r = rng.random()
    if r < 0.30:
        return gen_atom(rng)
    if r < 0.55:
        n = rng.randint(2, 3)
        return ''.join(wrap_alt(gen_re(rng, depth - 1)) for _ in range(n))
    if r < 0.70:
        n = rng.randint(2, 3)
        alts = [gen_re(rng, depth - 1) for _ in range(n)]
        if nullable_ok and rng.random() < 0.2:
            alts[rng.randrange(n)] = ''
        return '(' + '|'.join(alts) + ')'
    if r < 0.78:
        return '(' + gen_re(rng, depth - 1) + ')'
    inner = gen_re(rng, depth - 1)
    if len(inner) > 1 and not (inner.startswith('(') and inner.endswith(')') and balanced(inner)) \
            and not (inner.startswith('[') and inner.endswith(']') and inner.count('[') == 1) \
            and not (len(inner) == 2 and inner[0] == '\\'):
        inner = '(' + inner + ')'
    q = rng.random()
    if q < 0.25:
        op = '?'
    elif q < 0.5:
        op = '*'
    elif q < 0.75:
        op = '+'
    elif q < 0.85:
        op = '{%d}' % rng.randint(0, 3)
    elif q < 0.92:
        op = '{%d,}' % rng.randint(0, 2)
    else:
        m = rng.randint(0, 2)
        op = '{%d,%d}' % (m, m + rng.randint(0, 2))
    return inner + op


def balanced(s):
    """Is s one parenthesised group (the first '(' closes at the end)?"""
    d = 0
    i = 0
    while i < len(s):
        c = s[i]
        if c == '\\':
            i += 2
            continue
        if c == '[':
            j = s.find(']', i + 2)
            i = j + 1 if j >= 0 else len(s)
            continue
        if c == '(':
            d += 1
        elif c == ')':
            d -= 1
            if d == 0 and i != len(s) - 1:
                return False
        i += 1
    return d == 0


def wrap_alt(s):
    """Parenthesise a top-level alternation when used inside a concatenation."""
    return s


def gen_la(rng):
    """A non-nullable lookahead pattern."""
    r = rng.random()
    if r < 0.5:
        return gen_atom(rng)
    if r < 0.75:
        return gen_atom(rng) + gen_atom(rng)
    if r < 0.9:
        return gen_atom(rng) + '+'
    return gen_atom(rng) + gen_atom(rng) + '*'


def gen_mode(rng, name, npat=None, la_prob=0.0, toks=None, depth=3):
    npat = npat or rng.randint(1, 5)
    if toks is None:
        pool = list(range(0, 12)) + [17, 100, 4000, 70000]
        toks = rng.sample(pool, npat)
    pats = []
    for i in range(npat):
        p = {'p': gen_re(rng, depth), 't': toks[i]}
        if rng.random() < la_prob:
            p['la'] = {'pos': rng.random() < 0.6, 'p': gen_la(rng)}
        pats.append(p)
    return {'name': name, 'patterns': pats, 'transitions': []}


def gen_config(rng, nmodes=1, la_prob=0.0, trans=False, depth=3, max_pat=5):
    modes = [gen_mode(rng, 'M%d' % i, npat=rng.randint(1, max_pat), la_prob=la_prob, depth=depth) for i in range(nmodes)]
    if trans and nmodes >= 1:
        for m in modes:
            toks = sorted(set(p['t'] for p in m['patterns']))
            # transitions on own token types, on foreign ones and on unused ones; strictly sorted
            cand = sorted(set(toks + rng.sample(range(0, 14), rng.randint(0, 3))))
            k = rng.randint(0, min(3, len(cand)))
            chosen = sorted(rng.sample(cand, k))
            m['transitions'] = [[t, rng.randrange(nmodes)] for t in chosen]
    return modes


def alphabet_of(modes):
    s = set()
    for m in modes:
        for p in m['patterns']:
            for src in [p['p']] + ([p['la']['p']] if p.get('la') else []):
                for c in src:
                    if c not in META and c not in '0123456789,:dwsDWSn':
                        s.add(c)
                if '\\n' in src:
                    s.add('\n')
                if '\\d' in src or '[:digit:]' in src:
                    s.add('0')
                if '\\s' in src or '[:space:]' in src:
                    s.add(' ')
                if '\\w' in src:
                    s.add('_')
    return sorted(s)


def gen_input(rng, modes, maxlen=16):
    alpha = alphabet_of(modes) or ['a']
    extra = LETTERS + WIDE + OTHER + BOUNDARY
    n = rng.randint(0, maxlen)
    out = []
    for _ in range(n):
        if rng.random() < 0.8:
            out.append(rng.choice(alpha))
        else:
            out.append(rng.choice(extra))
    return ''.join(out)


def boundaries(s):
    """Byte offsets of all character boundaries of s (including 0 and len)."""
    b = [0]
    for c in s:
        b.append(b[-1] + len(c.encode('utf-8')))
    return b


def gen_history(rng, modes, inp, n=None, kinds=None, with_positions=False):
    """A list of operations on one iterator."""
    bs = boundaries(inp)
    blen = bs[-1]
    nm = len(modes)
    n = n or rng.randint(1, 12)
    if with_positions:
        kinds = kinds or ['nextpos'] * 6 + ['set_offset', 'position', 'position', 'set_mode', 'current_mode']
    else:
        kinds = kinds or (['next'] * 6 + ['peek'] * 2 + ['set_offset', 'advance_to', 'set_mode', 'position',
                                                         'current_mode', 'offset'])
    ops = []
    for _ in range(n):
        k = rng.choice(kinds)
        if k in ('next', 'nextpos', 'current_mode', 'offset'):
            ops.append([k])
        elif k == 'peek':
            ops.append([k, rng.randint(0, 4)])
        elif k == 'set_offset':
            r = rng.random()
            if r < 0.8:
                ops.append([k, rng.choice(bs)])
            else:
                ops.append([k, blen + rng.choice([1, 7])])
        elif k == 'advance_to':
            r = rng.random()
            if r < 0.8:
                ops.append([k, rng.choice(bs)])
            else:
                ops.append([k, rng.randint(0, blen + 3)])
        elif k == 'set_mode':
            ops.append([k, rng.randrange(nm)])
        elif k == 'position':
            ops.append([k, rng.choice(bs) if rng.random() < 0.8 else rng.randint(0, blen + 2)])
    return ops


# ---------------------------------------------------------------------------------------------
# dense generators: short patterns over a tiny alphabet so that candidates overlap often

def gen_small_re(rng, alpha=('a', 'b', 'c'), depth=2):
    def atom():
        r = rng.random()
        if r < 0.6:
            return esc(rng.choice(alpha))
        if r < 0.8:
            k = rng.randint(2, len(alpha)) if len(alpha) >= 2 else 1
            return '[' + ''.join(esc_cls(c) for c in rng.sample(list(alpha), k)) + ']'
        if r < 0.9:
            return '.'
        return '[^' + esc_cls(rng.choice(alpha)) + ']'
    def go(d):
        r = rng.random()
        if d <= 0 or r < 0.35:
            return atom()
        if r < 0.65:
            return go(d - 1) + go(d - 1)
        if r < 0.78:
            alts = [go(d - 1), go(d - 1)]
            if rng.random() < 0.15:
                alts[rng.randrange(2)] = ''
            return '(' + '|'.join(alts) + ')'
        inner = go(d - 1)
        if len(inner) > 1 and not (inner[0] == '(' and balanced(inner)) and not (inner[0] == '[' and inner.count('[') == 1 and inner[-1] == ']') \
                and not (len(inner) == 2 and inner[0] == '\\'):
            inner = '(' + inner + ')'
        return inner + rng.choice(['?', '*', '+', '+', '{2}', '{1,2}', '{0,1}', '{2,}'])
    return go(depth)


NULLABLE_LA = False   # set by properties whose quantifier includes lookahead patterns that can match the empty string


def gen_small_la(rng, alpha=('a', 'b', 'c')):
    r = rng.random()
    a = lambda: esc(rng.choice(alpha))
    if NULLABLE_LA and rng.random() < 0.3:
        return rng.choice([a() + '*', a() + '?', '(' + a() + '|' + a() + ')*', '(' + a() + a() + ')*', a() + '*(' + a() + a() + ')?', '',
                           a() + '{0}', '(' + a() + '?)*'])
    if r < 0.3:
        return a()
    if r < 0.45:
        return a() + a()
    if r < 0.6:
        return a() + '+'
    if r < 0.7:
        return '[' + ''.join(esc_cls(c) for c in rng.sample(list(alpha), 2)) + ']'
    if r < 0.8:
        return a() + a() + '*'
    # the whole lookahead text matters, not its first character: an optional or repeated head before a required tail,
    # alternatives of different lengths
    x, y = a(), a()
    return rng.choice([x + '*' + y, x + '+' + y, x + '?' + y, '[' + esc_cls(rng.choice(alpha)) + esc_cls(rng.choice(alpha)) + ']*' + y,
                       '(' + x + y + ')*' + y, x + '(' + y + '|' + x + x + ')', '(' + x + '|' + y + x + ')' + y])


def gen_small_mode(rng, name, alpha, npat, la_prob, min_la=0):
    pool = list(range(0, 10)) + [17, 300, 70000]
    toks = rng.sample(pool, npat)
    pats = []
    for i in range(npat):
        p = {'p': gen_small_re(rng, alpha), 't': toks[i]}
        if rng.random() < la_prob:
            p['la'] = {'pos': rng.random() < 0.6, 'p': gen_small_la(rng, alpha)}
        pats.append(p)
    nla = sum(1 for p in pats if p.get('la'))
    while nla < min_la:
        p = rng.choice(pats)
        if not p.get('la'):
            p['la'] = {'pos': rng.random() < 0.6, 'p': gen_small_la(rng, alpha)}
            nla += 1
    return {'name': name, 'patterns': pats, 'transitions': []}


def gen_small_input(rng, alpha, maxlen=12, noise=0.1):
    n = rng.randint(0, maxlen)
    return ''.join(rng.choice(alpha) if rng.random() >= noise else rng.choice(WIDE + ['-', '\n'] + BOUNDARY) for _ in range(n))


def pick_alpha(rng):
    r = rng.random()
    if r < 0.6:
        return ('a', 'b', 'c')
    if r < 0.8:
        return ('a', 'b', 'é')
    if r < 0.9:
        return ('a', '€', '😀')
    return ('a', 'b', '\n')


def add_transitions(rng, modes):
    nmodes = len(modes)
    for m in modes:
        toks = sorted(set(p['t'] for p in m['patterns']))
        cand = sorted(set(toks + rng.sample(range(0, 14), rng.randint(0, 4))))
        k = rng.randint(0, len(cand)) if rng.random() < 0.5 else rng.randint(0, min(3, len(cand)))
        chosen = sorted(rng.sample(cand, k))
        m['transitions'] = [[t, rng.randrange(nmodes)] for t in chosen]
    return modes


def all_next(inp):
    return [['next']] * (len(inp) + 2)


def gen_engineered_lookahead_case(rng):
    """Candidates with prescribed (length, lookahead length) splits of one base word, so that
    extents tie or interleave: pattern = (generalised) prefix of the word, positive lookahead =
    (generalised) following piece; token types are shuffled against the listing order."""
    # byte lengths 1..4 so that extents measured in bytes and in characters differ
    alpha = rng.choice([['a', 'b', 'c'], ['a', 'b', 'c'], ['a', '\u00e9', '\u20ac'], ['\u00e4', 'b', '\U0001F600'], ['\u00e9', '\u20ac', '\U0001F600']])
    n = rng.randint(2, 6)
    w = [rng.choice(alpha) for _ in range(n)]
    # make runs likely so that x+ generalisations have several lengths
    for i in range(1, n):
        if rng.random() < 0.4:
            w[i] = w[i - 1]
    def generalise(piece):
        out = []
        i = 0
        while i < len(piece):
            c = piece[i]
            j = i
            while j + 1 < len(piece) and piece[j + 1] == c:
                j += 1
            r = rng.random()
            if j > i and r < 0.5:
                out.append(c + '+')
                i = j + 1
                continue
            if r < 0.15:
                out.append('.')
            elif r < 0.3:
                out.append('[' + ''.join(sorted(set([c, rng.choice(alpha)]))) + ']')
            elif r < 0.4:
                out.append(c + '?' + c) if False else out.append(c)
            else:
                out.append(c)
            i += 1
        return ''.join(out)
    npat = rng.randint(2, 5)
    total_pool = [n, n, n, max(1, n - 1), rng.randint(1, n)]
    pats = []
    for _ in range(npat):
        total = rng.choice(total_pool)
        k = rng.randint(1, total)
        l = total - k
        p = {'p': generalise(w[:k])}
        r = rng.random()
        if l > 0 and r < 0.75:
            p['la'] = {'pos': True, 'p': generalise(w[k:k + l])}
        elif r < 0.85 and k < n:
            p['la'] = {'pos': False, 'p': generalise(w[k:k + 1])}
        elif r < 0.9 and k < n:
            p['la'] = {'pos': True, 'p': generalise(w[k:k + rng.randint(1, n - k)]) + ('?' if False else '')}
        pats.append(p)
    toks = rng.sample(range(0, 12), npat)
    for p, t in zip(pats, toks):
        p['t'] = t
    inp = ''.join(w)
    r = rng.random()
    if r < 0.3:
        inp = inp + rng.choice(alpha + [';'])
    elif r < 0.5:
        inp = rng.choice([';', 'c;', '']) + inp
    elif r < 0.6:
        inp = inp + inp
    return [{'name': 'M0', 'patterns': pats, 'transitions': []}], inp


def gen_gap_lookahead_case(rng):
    """A positive lookahead whose accepted prefix lengths have GAPS on the text (b, bcd, bcdcd, ..; or x | x(yz)+): the
    LONGEST lookahead match counts. Competing candidates have extents between the first and the longest lookahead match
    and equal to the longest (ties by listing order); token types are shuffled against the listing order."""
    a, b, c, d = rng.choice([('a', 'b', 'c', 'd'), ('k', '\u00e9', 'c', '\u20ac'), ('a', 'b', '\U0001F600', 'd')])
    r = rng.randint(1, 3)
    shape = rng.random()
    if shape < 0.5:
        la = '%s(%s%s)*' % (b, c, d)
    elif shape < 0.8:
        la = '%s|%s(%s%s)+' % (b, b, c, d)
    else:
        la = '%s(%s%s|%s%s%s%s)?' % (b, c, d, c, d, c, d)
    pats = [{'p': a, 'la': {'pos': True, 'p': la}}]
    for j in sorted(set([rng.randint(0, r), r, rng.randint(0, r)])):
        q = {'p': a + b + (c + d) * j}
        if rng.random() < 0.2:
            q['la'] = {'pos': False, 'p': 'Z'}
        pats.append(q)
    pats.append({'p': '[%s%s%sX]' % (b, c, d)})
    rng.shuffle(pats)
    for p_, t in zip(pats, rng.sample(range(0, 12), len(pats))):
        p_['t'] = t
    inp = a + b + (c + d) * r + rng.choice(['X', '', a])
    if rng.random() < 0.3:
        inp = inp + inp
    return [{'name': 'M0', 'patterns': pats, 'transitions': []}], inp


RUN_CHARS = [' ', ' ', '\t', '\n', '\r', '\u3000', '\u00a0', '\u2003', 'a', '\u00e9', '-']


def gen_run_retry_case(rng):
    """A token that BEGINS INSIDE a run of one character: the attempt at the first copy of the run fails because of what
    follows, the attempt one character later succeeds ("where no pattern matches, advance by ONE character").  Blank
    characters of every byte width are the usual members of such runs (indentation, padding, empty lines)."""
    w = rng.choice(RUN_CHARS)
    others = [c for c in ['x', 'y', '0', 'b', '€'] if c != w]
    d, e = rng.sample(others, 2)
    cands = [esc(w) + esc(d), esc(w) + '{2}' + esc(e), esc(w) + esc(d) + '+', esc(w) + '[' + esc_cls(d) + esc_cls(e) + ']',
             esc(w) + '{3}', esc(w) + esc(w) + esc(d)]
    pats = [rng.choice(cands[:2])] + rng.sample(cands, rng.randint(0, 2)) + rng.sample([esc(d), esc(e) + '+', esc(d) + esc(e)], rng.randint(0, 2))
    pats = list(dict.fromkeys(pats))
    rng.shuffle(pats)
    toks = rng.sample(range(0, 12), len(pats))
    mode = {'name': 'M0', 'patterns': [{'p': p, 't': t} for p, t in zip(pats, toks)], 'transitions': []}
    inp = ''
    for _ in range(rng.randint(1, 4)):
        inp += w * rng.randint(1, 4) + rng.choice([d, d, e, e, d + e, 'q', ''])
    return [mode], inp


def gen_tie_ladder_case(rng):
    """Ties at SEVERAL lengths inside one token: literal prefixes of a word, the word itself and class repetitions that
    match the same prefixes, in any priority order ("ties go to the pattern listed first" must be decided against the
    candidate actually recorded at that length, not against the winner of an earlier, shorter tie)."""
    letters = rng.choice([['a', 'b', 'c', 'd'], ['a', 'b', 'c', 'd'], ['ä', 'ö', 'ü', 'a']])
    w = ''.join(rng.choice(letters) for _ in range(rng.randint(3, 6)))
    cls = '[' + ''.join(esc_cls(c) for c in letters) + ']'
    cuts = sorted(set(rng.randint(1, len(w)) for _ in range(rng.randint(2, 3))) | {len(w)})
    pats = [''.join(esc(c) for c in w[:c]) for c in cuts]
    pats += rng.sample([cls + '+', cls + '{%d}' % rng.choice(cuts), cls + '{1,%d}' % len(w), cls + '*' + esc(w[-1]),
                        ''.join(esc(c) for c in w[:cuts[0]]) + cls + '*'], rng.randint(1, 3))
    pats = list(dict.fromkeys(pats))
    rng.shuffle(pats)
    toks = rng.sample(range(0, 40), len(pats))
    mode = {'name': 'M0', 'patterns': [{'p': p, 't': t} for p, t in zip(pats, toks)], 'transitions': []}
    parts = [w, w[:rng.choice(cuts)], w + rng.choice(letters), w[:-1] + 'x', w]
    rng.shuffle(parts)
    return [mode], ' '.join(parts[:rng.randint(2, 5)])
