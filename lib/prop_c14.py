"""C14 — building and scanning are thread-safe (partial: protocol proved, runtime observed).

 * proof obligations: Properties/C14.v — C14_any_schedule (every interleaving of the atomic build
   steps gives each thread the uncached results of its own builds) over the cache model of C13;
   the atomicity premise is read from the source on every run (Gen/CacheLockFacts.v).
 * `Scanner: Send + Sync` is a compile-time assertion in harness/src/c13.rs: if it is lost the
   harness does not build and the driver reports the compiler output.
 * `explore`: thread schedules. Each schedule runs in its own process (the cache is
   process-global): once with N threads started together behind a barrier under a wall-clock
   watchdog, once sequentially in a fresh process; every thread's results must be identical.
   Data races on the unsafe Arc::as_ptr dereference, lock poisoning and deadlocks can only be
   OBSERVED this way, they are not proved."""
import subprocess, shutil
import json, os
from concurrent.futures import ThreadPoolExecutor
from common import *
import gen
import prop_c13 as c13

WATCHDOG_MS = 30000


def gen_ops(rng, inp):
    """next / peek mixes on one iterator."""
    n = rng.randint(2, len(inp) + 2)
    ops = []
    for _ in range(n):
        r = rng.random()
        if r < 0.7:
            ops.append(['next'])
        elif r < 0.95:
            ops.append(['peek', rng.randint(0, 3)])
        else:
            ops.append(['current_mode'])
    return ops


def gen_candidates(rng):
    """Configurations of one schedule with their roles (outcomes are established by a pre-pass)."""
    cands = []
    for b in range(rng.randint(1, 2)):
        base = c13.gen_base(rng)
        cands.append(('base', base))
        for k in rng.sample(c13.KINDS, rng.randint(1, 3)):
            v = c13.one_field_variant(rng, base, k)
            if v is not None:
                cands.append(('variant:' + k, v))
        for _ in range(rng.randint(1, 2)):
            fk, f = c13.failing_variant(rng, base)
            cands.append(('failing:' + fk, f))
    return cands


def gen_schedule(rng, idx, tier, cands, ok):
    """cands: [(role, cfg)], ok: [bool] (does the configuration build?)."""
    good = [i for i, g in enumerate(ok) if g]
    configs = [c for _, c in cands]
    roles = [r for r, _ in cands]
    inputs = c13.inputs_for(rng, [configs[i] for i in good] or configs, rng.randint(3, 5))
    if tier == 'quick':
        n = 8 if idx % 5 else rng.choice([2, 16])
    else:
        n = rng.choice([2, 3, 4, 6, 8, 8, 12, 16])
    shared = []
    for _ in range(rng.randint(1, 3) if good else 0):
        ci = rng.choice(good)
        sh = {'config': ci, 'cached': rng.random() < 0.6}
        if rng.random() < 0.3:
            sh['set_mode'] = rng.randrange(len(configs[ci]))
        shared.append(sh)
    # every thread starts with a build of the same configuration: all race for one miss
    first = rng.randrange(len(configs))
    moved = [rng.choice(good) if good and rng.random() < 0.4 else None for _ in range(n)]
    threads = []
    for t in range(n):
        acts = [['build', first]] if rng.random() < 0.8 else []
        priv = moved[t]             # configuration of the thread's private scanner, if it has one
        for _ in range(rng.randint(4, 16)):
            r = rng.random()
            ii = rng.randrange(len(inputs))
            if r < 0.35:
                acts.append(['build', rng.randrange(len(configs))])
            elif r < 0.5:
                acts.append(['build_scan', rng.randrange(len(configs)), ii, gen_ops(rng, inputs[ii])])
            elif r < 0.72 and shared:
                acts.append(['scan_shared', rng.randrange(len(shared)), ii, gen_ops(rng, inputs[ii])])
            elif r < 0.8:
                ci = rng.choice(good) if good and rng.random() < 0.8 else rng.randrange(len(configs))
                acts.append(['priv_build', ci])
                if ok[ci]:
                    priv = ci
            elif r < 0.93:
                acts.append(['priv_scan', ii, gen_ops(rng, inputs[ii])])
            else:
                acts.append(['priv_set_mode', rng.randrange(len(configs[priv])) if priv is not None else 0])
        threads.append(acts)
    return {'name': 's%04d' % idx, 'configs': configs, 'roles': roles, 'inputs': inputs, 'shared': shared,
            'threads': threads, 'moved': moved}


def job_of(s, sequential):
    return {'kind': 'thread_stress', 'configs': s['configs'], 'inputs': s['inputs'], 'shared': s['shared'],
            'threads': s['threads'], 'moved': s['moved'], 'sequential': sequential, 'watchdog_ms': WATCHDOG_MS}


def run_schedules(scheds, rdir, sequential, tag, workers):
    stuck = [0]

    def one(arg):
        i, s = arg
        if stuck[0] >= 2:           # do not wait a minute for every remaining schedule
            return {'skipped': 'earlier schedules hit the watchdog'}
        try:
            r = run_harness([job_of(s, sequential)], rdir, '%s_%05d' % (tag, i), threads=1, timeout=WATCHDOG_MS // 1000 + 60)[0]
        except Exception as e:
            stuck[0] += 1
            return {'harness_failure': str(e)}
        if isinstance(r, dict) and r.get('timeout'):
            stuck[0] += 1
        return r
    with ThreadPoolExecutor(max_workers=workers) as ex:
        return list(ex.map(one, list(enumerate(scheds))))


def strip(v):
    """Action result without the (run-dependent) ticket."""
    if isinstance(v, dict):
        return {k: x for k, x in v.items() if k != 'ticket'}
    return v


def judge(s, conc, seq):
    """Failures of one schedule (empty list = every thread saw the sequential results)."""
    fails = []
    if any(isinstance(r, dict) and 'skipped' in r for r in (conc, seq)):
        return []
    for name, r in (('concurrent', conc), ('sequential', seq)):
        if isinstance(r, dict) and r.get('timeout') and r.get('phase'):
            fails.append({'what': 'watchdog (%s run): %s within %d s (deadlock?)' % (name, r['phase'], WATCHDOG_MS // 1000)})
        elif not isinstance(r, dict) or 'threads' not in r:
            if isinstance(r, dict) and 'setup_error' in r:
                fails.append({'what': 'setup of the %s run failed: %s' % (name, r['setup_error'])})
            else:
                fails.append({'what': 'the harness process of the %s run failed' % name, 'detail': r})
    if fails:
        return fails
    if conc.get('timeout'):
        fails.append({'what': 'watchdog: %d of %d threads did not finish within %d s (deadlock?)'
                              % (len(s['threads']) - conc.get('finished', 0), len(s['threads']), WATCHDOG_MS // 1000)})
    for t, (a, b) in enumerate(zip(conc['threads'], seq['threads'])):
        for name, r in (('concurrent', a), ('sequential', b)):
            if isinstance(r, dict) and 'thread_panic' in r:
                fails.append({'thread': t, 'what': 'thread panicked in the %s run: %s' % (name, r['thread_panic'])})
            for k, x in enumerate(r if isinstance(r, list) else []):
                if isinstance(x, dict) and ('panic' in x or x.get('class') == 'panic' or 'observe_panic' in x
                                            or any(o == [PANIC] for o in x.get('outs', []))):
                    fails.append({'thread': t, 'action': k, 'what': 'a call panicked in the %s run' % name,
                                  'call': s['threads'][t][k][:3], 'result': {kk: x.get(kk) for kk in ('panic', 'class', 'msg', 'observe_panic')}})
        if a is None:
            continue            # not finished: reported by the watchdog
        if isinstance(a, list) and isinstance(b, list):
            for k, (x, y) in enumerate(zip(a, b)):
                if strip(x) != strip(y):
                    fails.append({'thread': t, 'action': k, 'what': 'a thread observed a result that differs from the sequential run',
                                  'call': s['threads'][t][k], 'concurrent': strip(x), 'sequential': strip(y)})
                    break
    return fails


BUILDS = ('build', 'build_scan', 'priv_build')


def model_file(scheds, concs, seqs, rdir):
    """Coq: C14 model on the OBSERVED order of the build steps (tickets) with compile := table of
    the sequential outcomes."""
    paths, metas, cur, meta = [], [], [], []

    def flush():
        if cur:
            p = os.path.join(rdir, 'sched_model_%03d.v' % len(paths))
            with open(p, 'w') as f:
                f.write(c13.COQ_HEADER + ''.join(cur))
            paths.append(p)
            metas.append(list(meta))
            cur.clear()
            meta.clear()
    for si, (s, conc, seq) in enumerate(zip(scheds, concs, seqs)):
        if not (isinstance(conc, dict) and isinstance(seq, dict) and 'threads' in conc and 'threads' in seq) or conc.get('timeout') or seq.get('timeout'):
            continue
        if any(not isinstance(t, list) for t in conc['threads'] + seq['threads']):
            continue
        ids = c13.OutcomeIds()
        table = {}
        functional = True

        def oid(x):
            d = {k: x.get(k) for k in ('class', 'msg', 'current_mode', 'dump')}
            return None if x.get('class') != 'ok' else ids.get(d)
        for acts, res in zip(s['threads'], seq['threads']):
            for a, x in zip(acts, res):
                if a[0] in BUILDS:
                    o = oid(x)
                    if a[1] in table and table[a[1]] != o:
                        functional = False
                    table.setdefault(a[1], o)
        order, observed, progs = [], [], []
        for t, (acts, res) in enumerate(zip(s['threads'], conc['threads'])):
            prog, obs = [], []
            for a, x in zip(acts, res):
                if a[0] in BUILDS:
                    prog.append(a[1])
                    o = oid(x)
                    obs.append(0 if o is None else o + 1)
                    order.append((x.get('ticket', 0), t))
            progs.append(prog)
            observed.append(obs)
        order.sort()
        used = sorted(set(c for p in progs for c in p))
        for c in used:
            cur.append('Definition s%d_k%d : config := %s.\n' % (si, c, c13.config_term(s['configs'][c])))
        tbl = clist(['(s%d_k%d, %s)' % (si, c, 'None' if table.get(c) is None else '(Some %d)' % table[c]) for c in used])
        thr = clist([clist(['s%d_k%d' % (si, c) for c in p]) for p in progs])
        cur.append('Eval vm_compute in (run_threads %s %s %s).\n' % (tbl, clist([str(t) for _, t in order]), thr))
        meta.append((si, observed, functional, len(order)))
        if len(meta) >= 20:
            flush()
    flush()
    return paths, metas


class C14:
    ID = 'C14'
    LEVEL = 'proof'
    COQ_TARGETS = ['Properties/C14.vo']
    THEOREMS = [('Properties.C14', ['C14_any_schedule', 'C14_cache_invariant_kept', 'C14_interleavings_exist', 'C14_nonvacuous',
                                    'C14_example_results', 'C14_not_every_list_is_an_interleaving', 'C14_source_premises'])]
    ASSUMPTIONS = ['PROVED: only the protocol theorem C14_any_schedule (for all thread programs and all interleavings of atomic build '
                   'steps each thread gets the uncached results of its own builds) over the cache model of C13',
                   'PREMISE READ FROM THE SOURCE, NOT PROVED: a build is one atomic step because build() takes the exclusive lock in '
                   'the same expression as .get(..) and ScannerCache::get takes &mut self (Gen/CacheLockFacts.v, obligation '
                   'C14_source_premises)',
                   'COMPILE-TIME: Scanner: Send + Sync is asserted in harness/src/c13.rs (the harness stops compiling if it is lost)',
                   'OBSERVED BY THE STRESS RUN, NOT PROVED: absence of data races on the unsafe Arc::as_ptr dereference, of lock '
                   'poisoning, of deadlock (30 s watchdog) and of torn reads; that scans through one shared Scanner and through '
                   'private scanners are independent (each iterator works on its own clone)',
                   'std::sync::RwLock/Arc/LazyLock and the Rust memory model are trusted']
    TRUSTED_EXTRA = ['regex-based source translator lib/prop_c13.py: lock kind, write-lock-with-get expression, &mut self -> coq/Gen/CacheLockFacts.v',
                     'the operating system scheduler decides which interleavings the stress run actually exercises']
    RULE = ('a schedule = 2..16 threads (quick: 8, every fifth 2 or 16) with 4..17 actions each over 4..12 configurations (bases, '
            'one-field variants, failing ones): build through the cache (80% of the threads start with a build of the SAME configuration '
            'so that they race for one miss), build + scan, scan with one of 1-3 shared Arc<Scanner> (next/peek mixes), build/scan/'
            'set_mode on a thread-private scanner, 40% of the threads receive a scanner built by the main thread (moved: Send). All '
            'threads start behind a barrier; 30 s watchdog. Every schedule is run concurrently in 3 (thorough: 2) separate processes. Reference: the same actions thread after thread in a fresh process. Each '
            'thread\'s results (outcome class, message, canonical dump, initial mode, token streams, peek results) must be identical; '
            'any panic or timeout is a violation. The Coq model is run on the observed order of the build steps with compile := table '
            'of the sequential outcomes. non-trivial = distinct schedule with >= 2 threads in which at least two threads build the same '
            'configuration and at least one shared-scanner scan and one failing build occur')
    N = {'quick': 20, 'thorough': 500}
    REPEAT_REPLAY = 5
    REPEAT = {'quick': 3, 'thorough': 2}      # concurrent runs per schedule (each in its own process)

    def regen(self, out):
        c13.regen_facts(out, with_lock=True)

    # ------------------------------------------------------------------------------------------
    # observed part under Miri: data races / undefined behaviour on the executed schedules
    MIRI_SEEDS = {'quick': [1], 'thorough': [1, 2, 3, 4, 5, 6, 7, 8]}

    def miri_stage(self, seeds, rdir, out, nthreads=4):
        mdir = os.path.join(ROOT, 'harness_miri')
        lock = os.path.join(REPO, 'Cargo.lock')
        if os.path.exists(lock):
            shutil.copyfile(lock, os.path.join(mdir, 'Cargo.lock'))
        runs = []
        for sd in seeds:
            env = dict(os.environ, MIRIFLAGS='-Zmiri-seed=%d' % sd, CARGO_NET_OFFLINE='true')
            try:
                p = subprocess.run(['cargo', '+nightly', 'miri', 'run', '--offline', '--', str(nthreads)], cwd=mdir, env=env,
                                   stdout=subprocess.PIPE, stderr=subprocess.STDOUT, timeout=1500)
                rc, log = p.returncode, p.stdout.decode('utf-8', 'replace')
            except subprocess.TimeoutExpired:
                rc, log = 124, 'timeout (deadlock under Miri?)'
            except FileNotFoundError:
                out.notes.append('cargo not found: the Miri stage did not run')
                return runs
            runs.append({'seed': sd, 'rc': rc})
            if rc == 0:
                continue
            if ('Undefined Behavior' in log or 'Data race' in log or 'DIFF thread' in log or 'PANIC thread' in log or 'panicked at' in log
                    or 'deadlock' in log.lower() or rc == 124):
                what = ('Miri reports a deadlock' if 'deadlock' in log.lower()
                        else 'Miri reports undefined behaviour / a data race' if ('Undefined Behavior' in log or 'Data race' in log)
                        else 'a call panicked, or a thread observed other results than the sequential run, under Miri' if rc != 124
                        else 'the Miri run did not terminate (deadlock?)')
                out.violations.append({'property': 'C14', 'kind': 'miri', 'what': what + ' (harness_miri, -Zmiri-seed=%d, %d threads)' % (sd, nthreads),
                                       'miri_seed': sd, 'threads': nthreads, 'report': log[-4000:]})
            else:
                out.broken.append({'what': 'the Miri harness (harness_miri) does not build or run against /repo', 'detail': log[-3000:]})
            break
        return runs

    # ------------------------------------------------------------------------------------------
    # hammer: many rounds of concurrent scanning with DIFFERENT inputs on scanners of one cache entry, and of
    # barrier-released builds of one fresh configuration through both builders
    HAMMER = {'quick': (2, 150, 150), 'thorough': (8, 600, 600)}      # jobs, scan rounds, build rounds

    def hammer_jobs(self, rng, tier):
        njobs, rounds, brounds = self.HAMMER.get(tier, self.HAMMER['quick'])
        jobs = []
        for k in range(njobs):
            modes = [{'name': 'M', 'patterns': [{'p': 'a+', 't': 0}, {'p': 'b+', 't': 1}, {'p': ' +', 't': 2}, {'p': '-+', 't': 3},
                                                  {'p': '\u00e4+', 't': 4}, {'p': '[c-z]+', 't': 5, 'la': {'pos': False, 'p': '!'}}],
                      'transitions': []}]
            if k % 2:
                modes = [gen.gen_small_mode(rng, 'H0', ('a', 'b', 'c'), 4, 0.3)]
            alph = ['a', 'b', ' ', '-', '\u00e4', 'c', 'x', 'z', '!']
            inputs = []
            for i in range(8):
                # long runs of one character, different per thread: the threads ask different questions
                inputs.append(''.join(alph[(i + j) % len(alph)] * rng.randint(20, 150) for j in range(rng.randint(6, 14))))
            jobs.append({'kind': 'c14_hammer', 'modes': modes, 'inputs': inputs, 'threads': 8, 'rounds': rounds, 'build_rounds': brounds})
        return jobs

    def hammer_stage(self, jobs, rdir, out):
        done = 0
        for i, j in enumerate(jobs):
            d = os.path.join(rdir, 'hammer_%02d' % i)
            os.makedirs(d, exist_ok=True)
            try:
                r = run_harness([j], d, 'hammer', threads=1, timeout=600)[0]
            except Exception as e:
                out.violations.append({'property': 'C14', 'kind': 'hammer', 'what': 'the hammer run did not finish (deadlock or crash): %s' % str(e)[:300],
                                       'hammer_job': j})
                continue
            if r.get('setup_error') or r.get('harness_panic'):
                out.broken.append({'what': 'hammer job could not be set up', 'detail': r})
                continue
            done += 1
            if r.get('problems'):
                p0 = r['problems'][0]
                what = ('a thread observed other tokens than the same scan made sequentially' if p0.get('phase') == 'scan' and 'got' in p0
                        else 'a concurrent build of one fresh configuration panicked, failed or gave another scanner than the sequential build')
                out.violations.append({'property': 'C14', 'kind': 'hammer', 'what': 'hammer: ' + what, 'problems': r['problems'][:5],
                                       'hammer_job': j, 'note': 'replay runs the job again (scheduling dependent)'})
        return done

    def explore(self, rng, tier, rdir, out, replay=None):
        self.miri_runs = []
        self.hammer_done = 0
        if replay:
            payload = json.load(open(replay))
            if payload.get('kind') == 'hammer':
                self.hammer_done = self.hammer_stage([payload['hammer_job']] * 3, rdir, out)
            if payload.get('kind') == 'miri':
                self.miri_runs = self.miri_stage([payload['miri_seed']], rdir, out, payload.get('threads', 4))
            scheds = [payload['schedule']] * self.REPEAT_REPLAY if 'schedule' in payload else []
        else:
            self.miri_runs = self.miri_stage(self.MIRI_SEEDS.get(tier, [1]), rdir, out)
            self.hammer_done = self.hammer_stage(self.hammer_jobs(rng, tier), rdir, out)
            n = self.N.get(tier, 20)
            cands = [gen_candidates(rng) for _ in range(n)]
            # pre-pass (own process, uncached): which configurations build?
            flat = [(i, c) for i, cs in enumerate(cands) for _, c in cs]
            pre = run_harness([{'kind': 'scan', 'modes': c, 'cached': False} for _, c in flat], rdir, 'prepass')
            oks = [[] for _ in cands]
            for (i, _), r in zip(flat, pre):
                oks[i].append(r.get('build') == 'ok')
            scheds = [gen_schedule(rng, i, tier, cands[i], oks[i]) for i in range(n)]
            scheds = [s for s in scheds for _ in range(self.REPEAT.get(tier, 1))]
        concs = run_schedules(scheds, rdir, False, 'conc', 2)
        seqs = run_schedules(scheds, rdir, True, 'seq', NCPU)
        nviol = 0
        reported = set()
        for s, conc, seq in zip(scheds, concs, seqs):
            fails = judge(s, conc, seq)
            if fails:
                nviol += 1
                if nviol <= 3 and s['name'] not in reported:
                    reported.add(s['name'])
                    out.violations.append({'property': 'C14', 'what': 'thread stress: ' + fails[0]['what'], 'schedule': s,
                                           'failures': fails[:5], 'note': 'replay runs the schedule %d times' % self.REPEAT_REPLAY})
                if replay:
                    break
        # model on the observed interleavings
        paths, metas = model_file(scheds, concs, seqs, rdir)
        outs = coq_eval_files(paths)
        model_agree = 0
        for p, meta, (rc, o) in zip(paths, metas, outs):
            if rc != 0:
                out.broken.append({'what': 'coqc failed on generated model file %s' % p, 'detail': o[-2000:]})
                continue
            for (si, observed, functional, nsteps), b in zip(meta, split_evals(o)):
                inter, pred = parse_coq_value(b)
                if not inter:
                    out.broken.append({'what': 'the observed order of build steps is not an interleaving of the thread programs (harness/model mismatch)',
                                       'detail': {'schedule': scheds[si]['name']}})
                elif not functional:
                    if not any('not a function of the configuration' in b['what'] for b in out.broken):
                        out.broken.append({'what': 'premise of the cache model: the outcome of a build is not a function of the configuration '
                                               '(sequential reference run)', 'detail': {'schedule': scheds[si]}})
                elif pred == observed:
                    model_agree += 1
                elif nviol == 0:
                    nviol += 1
                    out.violations.append({'property': 'C14', 'what': 'the protocol model predicts other build results than the threads observed',
                                           'schedule': scheds[si], 'model': pred, 'observed': observed})
        st = self.statistics(scheds, concs, seqs, model_agree)
        st['miri_runs'] = self.miri_runs
        st['hammer_jobs'] = self.hammer_done
        st['miri_note'] = ('harness_miri under cargo +nightly miri run: 4 threads x 9 actions (cache hits, racing misses, failing builds, '
                           'shared-scanner scans, partially consumed iterators with set_mode), compared with the sequential run; '
                           'Miri checks data races and undefined behaviour on the executed schedule of each seed')
        return st

    def statistics(self, scheds, concs, seqs, model_agree):
        acts = {}
        builds = failing = hits = misses = racing = interleaved = 0
        nthreads = {}
        seen, nontrivial = set(), 0
        elapsed = []
        for s, conc, seq in zip(scheds, concs, seqs):
            n = len(s['threads'])
            nthreads[str(n)] = nthreads.get(str(n), 0) + 1
            built_by = {}
            has_fail = has_shared = False
            for t, a in enumerate(s['threads']):
                for x in a:
                    acts[x[0]] = acts.get(x[0], 0) + 1
                    if x[0] in BUILDS:
                        built_by.setdefault(x[1], set()).add(t)
                    if x[0] == 'scan_shared':
                        has_shared = True
            if isinstance(conc, dict) and 'threads' in conc:
                elapsed.append(conc.get('elapsed_ms', 0))
                events = []
                for a, res in zip(s['threads'], conc['threads']):
                    for x, r in zip(a, res if isinstance(res, list) else []):
                        if x[0] in BUILDS and isinstance(r, dict):
                            events.append((r.get('ticket', 0), x[1], r.get('class')))
                order = [t for _, t in sorted((r.get('ticket', 0), t) for t, (a, res) in enumerate(zip(s['threads'], conc['threads']))
                                              for x, r in zip(a, res if isinstance(res, list) else []) if x[0] in BUILDS and isinstance(r, dict))]
                if any(order[i] > order[i + 1] for i in range(len(order) - 1)):
                    interleaved += 1
                done = set(sh['config'] for sh in s['shared'] if sh.get('cached', True)) | set(m for m in s['moved'] if m is not None)
                for _, c, cl in sorted(events):
                    builds += 1
                    if cl != 'ok':
                        failing += 1
                        has_fail = True
                        misses += 1
                    elif c in done:
                        hits += 1
                    else:
                        misses += 1
                        done.add(c)
            first = [a[0][1] for a in s['threads'] if a and a[0][0] == 'build']
            if len(first) >= 2:
                racing += 1
            k = canon_hash([s['configs'], s['threads'], s['shared']])
            if k not in seen:
                seen.add(k)
                if n >= 2 and any(len(v) >= 2 for v in built_by.values()) and has_shared and has_fail:
                    nontrivial += 1
        sample = []
        for s in scheds[:1]:
            sample.append({'name': s['name'], 'threads': len(s['threads']), 'first_thread_actions': [a[:3] for a in s['threads'][0]],
                           'configs': len(s['configs']), 'roles': s.get('roles'), 'shared': s['shared'], 'inputs': s['inputs']})
        total_actions = sum(acts.values())
        return {'evaluations': total_actions, 'distinct_nontrivial': nontrivial, 'rule': self.RULE, 'samples': sample or [{'note': 'replay'}],
                'schedules': len(set(s['name'] for s in scheds)), 'concurrent_runs': len(scheds), 'processes': 2 * len(scheds), 'threads_hist': nthreads,
                'thread_runs': sum(len(s['threads']) for s in scheds), 'actions_by_kind': acts,
                'builds_through_cache': builds, 'failing_builds': failing,
                'runs_with_racing_first_build': racing, 'model_schedules_agreeing': model_agree,
                'scheduling_dependent': {'note': 'measured on the interleavings the OS produced in this run; not reproducible',
                                         'hits_in_observed_order': hits, 'misses_in_observed_order': misses,
                                         'runs_whose_build_order_is_not_thread_serial': interleaved,
                                         'concurrent_elapsed_ms_max': max(elapsed) if elapsed else 0},
                'send_sync_assertion': 'compile-time (harness/src/c13.rs: assert_send_sync::<scnr::Scanner>)'}


PROPS = {'C14': C14}
