"""The differential core: implementation (harness) vs Coq model (run_case on the dumped
automata) vs Coq specification (spec_case on the parsed pattern ASTs)."""
import json, os
from common import *


def make_job(case, idx):
    j = {'id': idx, 'kind': 'scan', 'modes': case['modes'], 'input': case['input'], 'ops': case['ops'],
         'want': {'dump': True, 'cls': True, 'asts': True}, 'timeout_s': 30}
    if case.get('with_positions'):
        j['with_positions'] = True
    if case.get('scanner_mode') is not None:
        j['scanner_mode'] = case['scanner_mode']
    if case.get('cached'):
        j['cached'] = True
    if case.get('simple'):
        j['simple'] = True
    if case.get('simple_pre'):
        j['simple_pre'] = case['simple_pre']
    if case.get('prebuild'):
        j['prebuild'] = case['prebuild']
    return j


def stream_of(outs):
    """Tokens of a history consisting of next calls: [(t,s,e)] up to the first None/panic."""
    toks = []
    for o in outs:
        if o and o[0] == 1 and len(o) >= 4:
            toks.append((o[1], o[2], o[3]))
    return toks


def resolve_ops(case, outs):
    """Replaces the symbolic advance_to_peeked ops by advance_to with the position the harness
    used: the end of the k-th (modulo) match of the last peek result, 0 if there was none."""
    ops = []
    ends = []
    for i, o in enumerate(case['ops']):
        if o[0] == 'peek' and i < len(outs):
            out = outs[i]
            if out and out[0] in (1, 2, 3):
                n = out[1]
                ends = [out[2 + 3 * k + 2] for k in range(n)]
            else:
                ends = []
        if o[0] == 'advance_to_peeked':
            p = ends[o[1] % len(ends)] if ends else 0
            ops.append(['advance_to', p])
        else:
            ops.append(o)
    return ops


def model_term(case, res):
    modes = clist([mode_term(m) for m in res['dump']['modes']])
    return '(run_case %s %s %d %s %s)' % (cls_term(res['cls']), modes, case.get('scanner_mode') or 0,
                                          input_term(case['input']), ops_term(resolve_ops(case, res['outs'])))


def spec_term(case, res):
    """Spec check of a plain stream: optional leading set_offset/set_mode, then next calls."""
    leaves = LeafIds()
    sm = smodes_term(case['modes'], res['asts'], leaves)
    off, mode0 = 0, 0
    for o in case['ops']:
        if o[0] == 'set_offset':
            off = o[1]
        elif o[0] == 'set_mode':
            mode0 = o[1]
    toks = stream_of(res['outs'])
    tt = clist(['(%d, %d, %d)' % t for t in toks])
    return '(spec_case %s %s %d %s %d %s)' % (leaf_tbl_term(res['leaf'], leaves), sm, mode0,
                                              input_term(case['input']), off, tt)


def spech_term(case, res):
    leaves = LeafIds()
    sm = smodes_term(case['modes'], res['asts'], leaves)
    return '(spec_history %s %s %d %s %s)' % (leaf_tbl_term(res['leaf'], leaves), sm, case.get('scanner_mode') or 0,
                                              input_term(case['input']), ops_term(resolve_ops(case, res['outs'])))


def is_plain_stream(case):
    """set_offset? set_mode? next* — the shape the spec check understands."""
    ops = case['ops']
    i = 0
    while i < len(ops) and ops[i][0] in ('set_offset', 'set_mode'):
        i += 1
    if i > 2 or len([o for o in ops[:i] if o[0] == 'set_offset']) > 1 or len([o for o in ops[:i] if o[0] == 'set_mode']) > 1:
        return False
    rest = ops[i:]
    if not rest or any(o[0] != 'next' for o in rest):
        return False
    # enough next calls to exhaust the input
    return len(rest) >= len(case['input']) + 1


def run_cases(cases, rdir, shard_size=30):
    """Runs the cases on the implementation, on the model over the dumped automata (correspondence)
    and on the specification over the parsed ASTs (property). Returns (results, violations,
    corr_breaks, coq_failures).
    violations: impl differs from the specification-driven iterator and (for plain streams) the
      stream is not one the rule allows.
    corr_breaks: impl differs from the model evaluated on the automata it compiled."""
    jobs = [make_job(c, i) for i, c in enumerate(cases)]
    results = run_harness(jobs, rdir, 'scan')
    entries = []          # (idx, kind, term)
    for i, (c, r) in enumerate(zip(cases, results)):
        if r.get('harness_panic'):
            raise RuntimeError('harness panic: %s' % r['harness_panic'])
        if r.get('harness_timeout'):
            continue          # reported below: building or running this history did not return
        if r.get('build') != 'ok':
            continue
        entries.append((i, 'model', model_term(c, r)))
        entries.append((i, 'spech', spech_term(c, r)))
        if is_plain_stream(c) and PANIC not in [x for o in r['outs'] for x in o]:
            entries.append((i, 'spec', spec_term(c, r)))
    shards = [entries[k:k + shard_size] for k in range(0, len(entries), shard_size)]
    paths = []
    for n, sh_ in enumerate(shards):
        p = os.path.join(rdir, 'cases_%03d.v' % n)
        with open(p, 'w') as f:
            f.write(HEADER)
            f.write('Definition results : list (list (list N)) :=\n  %s.\n' % clist(['\n  ' + e[2] for e in sh_]))
            f.write('Eval vm_compute in results.\n')
        paths.append(p)
    outs = coq_eval_files(paths)
    coq_failures = []
    for sh_, (rc, out), p in zip(shards, outs, paths):
        if rc != 0:
            coq_failures.append((p, out[-3000:]))
            continue
        vals = parse_coq_value(out)
        assert len(vals) == len(sh_), (len(vals), len(sh_))
        for (idx, kind, _), v in zip(sh_, vals):
            results[idx][{'model': 'model_outs', 'spech': 'spec_outs', 'spec': 'spec'}[kind]] = v
    violations, corr_breaks = [], []
    for idx, (c, r) in enumerate(zip(cases, results)):
        if r.get('harness_timeout'):
            violations.append({'kind': 'hang', 'idx': idx, 'case': c, 'impl': None, 'spec': None,
                               'what_override': 'building the scanner or running this call history did not return within %d s '
                                                '(non-termination)' % r['harness_timeout']})
            continue
        if r.get('build') != 'ok' or 'model_outs' not in r:
            continue
        if r['spec_outs'] != r['outs']:
            tie_ok = 'spec' in r and r['spec'][0] == [1]
            r['tie_accepted'] = tie_ok
            if not tie_ok:
                violations.append({'kind': 'spec', 'idx': idx, 'case': c, 'impl': r['outs'], 'spec': r['spec_outs'],
                                   'spec_stream_verdict': r.get('spec')})
        elif 'spec' in r and r['spec'][0] != [1]:
            violations.append({'kind': 'spec_stream', 'idx': idx, 'case': c, 'impl': r['outs'], 'spec': r['spec_outs'],
                               'spec_stream_verdict': r.get('spec')})
        if r['model_outs'] != r['outs']:
            corr_breaks.append({'kind': 'model', 'idx': idx, 'case': c, 'impl': r['outs'], 'model': r['model_outs']})
    return results, violations, corr_breaks, coq_failures


# ----------------------------------------------------------------------------------------------
# capstone: the source configuration, compiled by the pipeline model inside Coq, passes the
# boolean hypotheses of C01_compiled_scanner_is_specification and gives the automata the
# implementation compiled

class _ClassIds:
    def __init__(self, classes):
        self.ids = {s: i for i, s in enumerate(classes)}

    def get(self, s):
        return self.ids[s]


def src_term(modes_cfg, asts, ids):
    ms = []
    for m, ma in zip(modes_cfg, asts):
        ps = []
        for p, (pa, la) in zip(m['patterns'], ma):
            la_t = 'None'
            if p.get('la'):
                la_t = '(Some (%s, %s))' % (cbool(p['la']['pos']), ast_term(la, ids))
            ps.append('{| s_tok := %d; s_ast := %s; s_la := %s |}' % (p['t'], ast_term(pa, ids), la_t))
        tr = clist(['(%d, %d%%nat)' % (t[0], t[1]) for t in sorted(map(tuple, m.get('transitions', [])))])
        ms.append('{| s_pats := %s; s_trans := %s |}' % (clist(ps), tr))
    return clist(ms)


def _enc_rows(d):
    out = []
    for es, f in zip(d['states'], d['end']):
        row = [1 if f[0] else 0, f[1]]
        for cc, t in sorted(set((e[0], e[1]) for e in es)):
            row += [cc, t]
        out.append(row)
    return out


def dump_enc(dump_modes):
    out = []
    for md in dump_modes:
        d = md['dfa']
        las = sorted([(l[0], (bool(l[1]), _enc_rows(l[2]))) for l in d.get('las', [])])
        out.append((_enc_rows(d), list(d['tids']), las, [tuple(t) for t in md['transitions']]))
    return out


def in_theorem_domain(modes):
    """distinct token types inside each mode (D8), token types < 2^32 (D9)"""
    return not any(len(set(q['t'] for q in m['patterns'])) != len(m['patterns']) or any(q['t'] >= 2 ** 32 for q in m['patterns'])
                   for m in modes)


def capstone_cases(cases, results, rdir, limit, maxstates=80):
    """Returns (n_checked, n_agree, breaks)."""
    seen, entries = set(), []
    for c, r in zip(cases, results):
        if r.get('build') != 'ok' or not in_theorem_domain(c['modes']) or c.get('simple'):
            continue
        h = canon_hash(c['modes'])
        if h in seen:
            continue
        seen.add(h)
        if any(len(m['dfa']['states']) > maxstates for m in r['dump']['modes']):
            continue
        try:
            term = '(capstone_enc %s)' % src_term(c['modes'], r['asts'], _ClassIds(r['dump']['classes']))
        except KeyError:
            continue
        entries.append((term, dump_enc(r['dump']['modes']), c['modes']))
        if len(entries) >= limit:
            break
    shards = [entries[k:k + 25] for k in range(0, len(entries), 25)]
    paths = []
    for n, sh_ in enumerate(shards):
        p = os.path.join(rdir, 'capstone_%03d.v' % n)
        with open(p, 'w') as f:
            f.write('From Scnr Require Import Base Regex Automaton FindFrom Iter Spec Nfa Minimizer Compile EndToEnd.\nOpen Scope N_scope.\n'
                    'Set Printing Depth 1000000.\nSet Printing Width 1000000.\n')
            f.write('Eval vm_compute in %s.\n' % clist(['\n ' + e[0] for e in sh_]))
        paths.append(p)
    outs = coq_eval_files(paths, timeout=1500)
    agree, breaks = 0, []
    for sh_, (rc, o), p in zip(shards, outs, paths):
        if rc != 0:
            breaks.append({'what': 'coqc failed on %s' % p, 'detail': o[-2000:]})
            continue
        vals = parse_coq_value(o)
        for (term, impl, modes), v in zip(sh_, vals):
            got = [(m[0], m[1], sorted((l[0], (l[1][0], l[1][1])) for l in m[2]), [tuple(t) for t in m[3]]) for m in v]
            if got == impl:
                agree += 1
            elif not v:
                breaks.append({'what': 'capstone: the boolean hypotheses of C01_compiled_scanner_is_specification (capstone_check) fail on an '
                                       'explored configuration inside the stated domain', 'detail': {'modes': modes}})
            else:
                breaks.append({'what': 'capstone correspondence: the scanner compiled by the pipeline model from the parsed configuration differs '
                                       'from the automata the implementation compiled', 'detail': {'modes': modes, 'impl': impl, 'model': got}})
    return len(entries), agree, breaks
