"""The check driver: proof obligations (Coq build, assumptions), correspondence and property
oracle (harness vs model vs specification), classification, evidence."""
import json, os, random, sys, time, traceback
from common import *
import scan

KNOWN = os.path.join(ROOT, 'known_findings.json')
CORPUS = os.path.join(ROOT, 'corpus')

TRUSTED_BASE = [
    'Coq 8.16.1 kernel and its vm_compute reduction (no native_compute)',
    'axioms: none (every property theorem prints "Closed under the global context")',
    'Python driver: case generation, JSON->Coq term translation, result comparison (lib/*.py)',
    'Rust harness /verif/harness and the read-only hooks scnr::verif (cfg scnr_verif)',
    'class/leaf predicates are observed from the implementation on the characters of each case',
    'regex_syntax parser (pattern text -> AST) is outside the model',
]


class Outcome:
    def __init__(self):
        self.violations = []       # concrete: dicts with 'what' and replay payload
        self.broken = []           # proof obligations / correspondence without concrete input
        self.known = []            # KNOWN-FINDING lines
        self.notes = []


def load_known(pid):
    if not os.path.exists(KNOWN):
        return []
    d = json.load(open(KNOWN))
    return [f for f in d.get('findings', []) if f['property'] == pid and f.get('status') == 'open']


def load_corpus(pid):
    """Minimised past failures and hand-written regression cases; they run first."""
    cases = []
    p = os.path.join(CORPUS, pid + '.jsonl')
    if os.path.exists(p):
        for l in open(p):
            l = l.strip()
            if l:
                cases.append(json.loads(l))
    p = os.path.join(CORPUS, 'all.jsonl')
    if os.path.exists(p):
        for l in open(p):
            l = l.strip()
            if l:
                cases.append(json.loads(l))
    return cases


def write_replay(rdir, pid, name, payload):
    os.makedirs(os.path.join(ROOT, 'run', 'replays'), exist_ok=True)
    path = os.path.join(ROOT, 'run', 'replays', '%s_%s.json' % (pid, name))
    with open(path, 'w') as f:
        json.dump(payload, f, indent=1, ensure_ascii=False)
    return path


def obligations(prop, rdir, out):
    """Builds the Coq targets of the property and checks the assumptions of its theorems.
    Returns (n_obligations, n_discharged, details)."""
    names = [t for _, ts in prop.THEOREMS for t in ts]
    n = len(names)
    details = {}
    hits = scan_forbidden()
    if hits:
        out.broken.append({'what': 'forbidden vernacular in the development', 'detail': hits[:20]})
        return n, 0, {'forbidden': hits}
    ok, log = coq_make(prop.COQ_TARGETS)
    if not ok:
        out.broken.append({'what': 'Coq build of %s failed (proof obligation no longer checks)' % ' '.join(prop.COQ_TARGETS),
                           'detail': log[-3000:]})
        return n, 0, {'make': log[-3000:]}
    discharged = 0
    for module, thms in prop.THEOREMS:
        res, raw = print_assumptions(module, thms, rdir)
        if res is None:
            out.broken.append({'what': 'Print Assumptions failed for %s' % module, 'detail': raw[-2000:]})
            continue
        for t in thms:
            a = res.get(t, '')
            details[t] = a
            if a.startswith('Closed under the global context'):
                discharged += 1
            else:
                out.broken.append({'what': 'theorem %s depends on axioms' % t, 'detail': a})
    return n, discharged, details


def run_property(prop, tier, seed, replay=None):
    t0 = time.time()
    pid = prop.ID
    rdir = run_dir('%s_%s' % (pid, tier if not replay else 'replay'))
    out = Outcome()
    rng = random.Random(seed * 1000003 + sum(ord(c) for c in pid))
    cov = {'checker_cmd': 'make -C /verif/coq %s && coqc Print Assumptions (lib/driver.py obligations)' % ' '.join(prop.COQ_TARGETS),
           'trusted_base': TRUSTED_BASE + getattr(prop, 'TRUSTED_EXTRA', [])}
    # 0. regenerated model constants
    if hasattr(prop, 'regen'):
        try:
            prop.regen(out)
        except Exception as e:
            out.broken.append({'what': 'translator failed: %s' % e, 'detail': traceback.format_exc()})
    # 1. proof obligations
    n_ob, n_dis, det = obligations(prop, rdir, out)
    cov['obligations'] = max(n_ob, 1)
    cov['discharged'] = n_dis
    cov['theorems'] = det
    # 2. implementation
    ok, log = build_harness()
    stats = {}
    if not ok:
        out.broken.append({'what': 'harness does not build against /repo (correspondence cannot be checked)',
                           'detail': log[-3000:]})
    else:
        try:
            stats = prop.explore(rng, tier, rdir, out, replay)
        except Exception as e:
            out.broken.append({'what': 'exploration failed: %s' % e, 'detail': traceback.format_exc()[-3000:]})
    cov.update(stats or {})
    cov.setdefault('evaluations', 0)
    cov.setdefault('distinct_nontrivial', 0)
    cov.setdefault('samples', [])
    # 3. verdict
    exit_code = 0
    nviol = 0
    for k in out.known:
        print('KNOWN-FINDING: property=%s %s' % (pid, k))
    for i, v in enumerate(out.violations):
        path = write_replay(rdir, pid, 'v%d' % i, v)
        print('VIOLATION property=%s replay=%s' % (pid, path))
        nviol += 1
        exit_code = 1
        if i >= 4:
            break
    if not out.violations and out.broken:
        path = write_replay(rdir, pid, 'broken', {'property': pid, 'no_failing_input_found': True,
                                                   'no_longer_checks': out.broken})
        print('VIOLATION property=%s replay=%s no-failing-input-found' % (pid, path))
        nviol += 1
        exit_code = 1
    elif out.broken:
        for b in out.broken:
            print('note: also broken: %s' % b['what'])
    if n_dis != n_ob:
        cov['discharged'] = n_dis
    for n in out.notes:
        print('note: ' + n)
    wall = time.time() - t0
    write_evidence(pid, tier if tier in ('quick', 'thorough') else 'quick', seed, cov, wall, nviol,
                   prop.ASSUMPTIONS, level=getattr(prop, 'LEVEL', 'proof'))
    print('%s %s: obligations %d/%d, evaluations %d, nontrivial %d, violations %d, %.1fs' % (
        pid, tier, n_dis, n_ob, cov['evaluations'], cov['distinct_nontrivial'], nviol, wall))
    return exit_code


# ----------------------------------------------------------------------------------------------
# properties decided through the scan engine

class ScanProperty:
    """Base of the properties whose correspondence runs iterator histories."""
    ID = None
    THEOREMS = []
    COQ_TARGETS = []
    ASSUMPTIONS = []
    N = {'quick': 300, 'thorough': 4000}

    def gen_case(self, rng, i):
        raise NotImplementedError

    def nontrivial(self, case, res):
        return len(scan.stream_of(res.get('outs', []))) > 0

    def extra_cases(self):
        return []

    def explore(self, rng, tier, rdir, out, replay=None):
        known = load_known(self.ID)
        if replay:
            payload = json.load(open(replay))
            cases = [payload['case']] if 'case' in payload else []
            known = []
        else:
            cases = [k['case'] for k in known] + load_corpus(self.ID) + self.extra_cases()
            n = self.N[tier]
            cases += [self.gen_case(rng, i) for i in range(n)]
        nk = len(known)
        results, viols, breaks, coqf = scan.run_cases(cases, rdir)
        for p, o in coqf:
            out.broken.append({'what': 'coqc failed on generated case file %s' % p, 'detail': o})
        known_hit = set()
        for v in viols:
            if v['idx'] < nk:
                known_hit.add(v['idx'])
                continue
            v['property'] = self.ID
            v['what'] = 'implementation differs from the specification'
            out.violations.append(v)
        for b in breaks:
            if b['idx'] < nk or any(v['idx'] == b['idx'] for v in viols):
                continue
            out.broken.append({'what': 'correspondence: implementation differs from the model on the automata it compiled '
                                       '(property oracle agrees with the implementation on this case)',
                               'detail': b})
        for i, k in enumerate(known):
            if i in known_hit:
                out.known.append('%s: %s' % (k['id'], k['what']))
            else:
                out.notes.append('known finding %s no longer reproduces' % k['id'])
        # unexpected build failures of generated supported configurations
        for i, (c, r) in enumerate(zip(cases, results)):
            if r.get('build') != 'ok' and not c.get('may_fail'):
                out.violations.append({'property': self.ID, 'what': 'supported configuration does not build: %s %s' % (r.get('build'), r.get('error', '')),
                                       'case': c, 'idx': i})
        seen = set()
        nt = 0
        dist = {}
        for c, r in zip(cases[nk:], results[nk:]):
            if r.get('build') != 'ok':
                continue
            h = canon_hash([c['modes'], c['input'], c['ops']])
            if h in seen:
                continue
            seen.add(h)
            if self.nontrivial(c, r):
                nt += 1
            for o in c['ops']:
                dist[o[0]] = dist.get(o[0], 0) + 1
        samples = []
        for c, r in list(zip(cases, results))[nk:nk + 400]:
            if r.get('build') == 'ok' and self.nontrivial(c, r):
                samples.append({'modes': c['modes'], 'input': c['input'], 'ops': c['ops'], 'impl': r['outs']})
            if len(samples) >= 3:
                break
        return {'evaluations': len(cases), 'distinct_nontrivial': nt,
                'rule': self.RULE, 'samples': samples or [{'note': 'no non-trivial sample'}],
                'op_distribution': dist,
                'input_len_hist': hist([len(c['input']) for c in cases]),
                'npatterns_hist': hist([sum(len(m['patterns']) for m in c['modes']) for c in cases]),
                'tokens_total': sum(len(scan.stream_of(r.get('outs', []))) for r in results),
                'ties_accepted': sum(1 for r in results if r.get('tie_accepted')),
                'spec_stream_checks': sum(1 for r in results if 'spec' in r),
                'model_evaluations': sum(1 for r in results if 'model_outs' in r),
                'known_findings_replayed': nk}


def hist(xs):
    h = {}
    for x in xs:
        k = str(x if x < 10 else (x // 10) * 10) + ('' if x < 10 else '+')
        h[k] = h.get(k, 0) + 1
    return h
