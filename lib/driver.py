"""The check driver: proof obligations (Coq build, assumptions), correspondence and property
oracle (harness vs model vs specification), classification, evidence."""
import json, os, random, sys, time, traceback
from common import *
import scan

KNOWN = os.path.join(ROOT, 'known_findings.json')
CORPUS = os.path.join(ROOT, 'corpus')

TRUSTED_BASE = [
    'Coq 8.16.1 kernel and its vm_compute reduction (no native_compute)',
    'axioms: none (every property theorem prints "Closed under the global context")',
    'Python driver: case generation, JSON->Coq term translation, result comparison (lib/*.py)',
    'Rust harness /verif/harness and the read-only hooks scnr::verif (cfg scnr_verif)',
    'class/leaf predicates are observed from the implementation on the characters of each case',
    'regex_syntax parser (pattern text -> AST) is outside the model',
]


class Outcome:
    def __init__(self):
        self.violations = []       # concrete: dicts with 'what' and replay payload
        self.broken = []           # proof obligations / correspondence without concrete input
        self.known = []            # KNOWN-FINDING lines
        self.notes = []


def load_known(pid):
    if not os.path.exists(KNOWN):
        return []
    d = json.load(open(KNOWN))
    return [f for f in d.get('findings', []) if f['property'] == pid and f.get('status') == 'open']


def load_corpus(pid):
    """Minimised past failures and hand-written regression cases; they run first."""
    cases = []
    p = os.path.join(CORPUS, pid + '.jsonl')
    if os.path.exists(p):
        for l in open(p):
            l = l.strip()
            if l:
                cases.append(json.loads(l))
    p = os.path.join(CORPUS, 'all.jsonl')
    if os.path.exists(p):
        for l in open(p):
            l = l.strip()
            if l:
                cases.append(json.loads(l))
    return cases


def write_replay(rdir, pid, name, payload):
    os.makedirs(os.path.join(ROOT, 'run', 'replays'), exist_ok=True)
    path = os.path.join(ROOT, 'run', 'replays', '%s_%s.json' % (pid, name))
    with open(path, 'w') as f:
        json.dump(payload, f, indent=1, ensure_ascii=False)
    return path


def obligations(prop, rdir, out):
    """Builds the Coq targets of the property and checks the assumptions of its theorems.
    Returns (n_obligations, n_discharged, details)."""
    names = [t for _, ts in prop.THEOREMS for t in ts]
    n = len(names)
    details = {}
    hits = scan_forbidden()
    if hits:
        out.broken.append({'what': 'forbidden vernacular in the development', 'detail': hits[:20]})
        return n, 0, {'forbidden': hits}
    ok, log = coq_make(prop.COQ_TARGETS)
    if not ok:
        out.broken.append({'what': 'Coq build of %s failed (proof obligation no longer checks)' % ' '.join(prop.COQ_TARGETS),
                           'detail': log[-3000:]})
        return n, 0, {'make': log[-3000:]}
    discharged = 0
    for module, thms in prop.THEOREMS:
        res, raw = print_assumptions(module, thms, rdir)
        if res is None:
            out.broken.append({'what': 'Print Assumptions failed for %s' % module, 'detail': raw[-2000:]})
            continue
        for t in thms:
            a = res.get(t, '')
            details[t] = a
            if a.startswith('Closed under the global context'):
                discharged += 1
            else:
                out.broken.append({'what': 'theorem %s depends on axioms' % t, 'detail': a})
    return n, discharged, details


def run_property(prop, tier, seed, replay=None):
    t0 = time.time()
    pid = prop.ID
    rdir = run_dir('%s_%s' % (pid, tier if not replay else 'replay'))
    out = Outcome()
    rng = random.Random(seed * 1000003 + sum(ord(c) for c in pid))
    cov = {'checker_cmd': 'make -C /verif/coq %s && coqc Print Assumptions (lib/driver.py obligations)' % ' '.join(prop.COQ_TARGETS),
           'trusted_base': TRUSTED_BASE + getattr(prop, 'TRUSTED_EXTRA', [])}
    # 0. regenerated model constants
    if hasattr(prop, 'regen'):
        try:
            prop.regen(out)
        except Exception as e:
            out.broken.append({'what': 'translator failed: %s' % e, 'detail': traceback.format_exc()})
    # 1. proof obligations
    n_ob, n_dis, det = obligations(prop, rdir, out)
    cov['obligations'] = max(n_ob, 1)
    cov['discharged'] = n_dis
    cov['theorems'] = det
    # 2. implementation
    ok, log = build_harness()
    stats = {}
    if not ok:
        out.broken.append({'what': 'harness does not build against /repo (correspondence cannot be checked)',
                           'detail': log[-3000:]})
    else:
        try:
            stats = prop.explore(rng, tier, rdir, out, replay)
        except Exception as e:
            out.broken.append({'what': 'exploration failed: %s' % e, 'detail': traceback.format_exc()[-3000:]})
    cov.update(stats or {})
    cov.setdefault('evaluations', 0)
    cov.setdefault('distinct_nontrivial', 0)
    cov.setdefault('samples', [])
    # 3. verdict
    exit_code = 0
    nviol = 0
    for k in out.known:
        print('KNOWN-FINDING: property=%s %s' % (pid, k))
    for i, v in enumerate(out.violations):
        path = write_replay(rdir, pid, 'v%d' % i, v)
        print('VIOLATION property=%s replay=%s' % (pid, path))
        nviol += 1
        exit_code = 1
        if i >= 4:
            break
    if not out.violations and out.broken:
        path = write_replay(rdir, pid, 'broken', {'property': pid, 'no_failing_input_found': True,
                                                   'no_longer_checks': out.broken})
        print('VIOLATION property=%s replay=%s no-failing-input-found' % (pid, path))
        nviol += 1
        exit_code = 1
    elif out.broken:
        for b in out.broken:
            print('note: also broken: %s' % b['what'])
    if n_dis != n_ob:
        cov['discharged'] = n_dis
    for n in out.notes:
        print('note: ' + n)
    wall = time.time() - t0
    write_evidence(pid, tier if tier in ('quick', 'thorough') else 'quick', seed, cov, wall, nviol,
                   prop.ASSUMPTIONS, level=getattr(prop, 'LEVEL', 'proof'))
    print('%s %s: obligations %d/%d, evaluations %d, nontrivial %d, violations %d, %.1fs' % (
        pid, tier, n_dis, n_ob, cov['evaluations'], cov['distinct_nontrivial'], nviol, wall))
    return exit_code


# ----------------------------------------------------------------------------------------------
# properties decided through the scan engine

class ScanProperty:
    """Base of the properties whose correspondence runs iterator histories."""
    ID = None
    THEOREMS = []
    COQ_TARGETS = []
    ASSUMPTIONS = []
    N = {'quick': 300, 'thorough': 4000}
    CAPSTONE = None      # set by the properties whose theorems include the capstone (pipeline model vs compiled automata)

    def gen_case(self, rng, i):
        raise NotImplementedError

    def nontrivial(self, case, res):
        return len(scan.stream_of(res.get('outs', []))) > 0

    def extra_cases(self):
        return []

    def explore(self, rng, tier, rdir, out, replay=None):
        known = load_known(self.ID)
        if replay:
            payload = json.load(open(replay))
            cases = [payload['case']] if 'case' in payload else []
            known = []
        else:
            cases = [k['case'] for k in known] + load_corpus(self.ID) + self.extra_cases()
            n = self.N[tier]
            cases += [self.gen_case(rng, i) for i in range(n)]
        nk = len(known)
        results, viols, breaks, coqf = scan.run_cases(cases, rdir)
        for p, o in coqf:
            out.broken.append({'what': 'coqc failed on generated case file %s' % p, 'detail': o})
        known_hit = set()
        for v in viols:
            if v['idx'] < nk:
                known_hit.add(v['idx'])
                continue
            v['property'] = self.ID
            v['what'] = v.pop('what_override', None) or 'implementation differs from the specification'
            out.violations.append(v)
        for b in breaks:
            if b['idx'] < nk or any(v['idx'] == b['idx'] for v in viols):
                continue
            out.broken.append({'what': 'correspondence: implementation differs from the model on the automata it compiled '
                                       '(property oracle agrees with the implementation on this case)',
                               'detail': b})
        for i, k in enumerate(known):
            if i in known_hit:
                out.known.append('%s: %s' % (k['id'], k['what']))
            else:
                out.notes.append('known finding %s no longer reproduces' % k['id'])
        # unexpected build failures of generated supported configurations
        for i, (c, r) in enumerate(zip(cases, results)):
            if r.get('build') != 'ok' and not c.get('may_fail') and not r.get('harness_timeout') and not r.get('harness_skipped'):
                out.violations.append({'property': self.ID, 'what': 'supported configuration does not build: %s %s' % (r.get('build'), r.get('error', '')),
                                       'case': c, 'idx': i})
        cap_n = cap_ok = 0
        if not replay and getattr(self, 'CAPSTONE', None):
            cap_n, cap_ok, cap_breaks = scan.capstone_cases(cases[nk:], results[nk:], rdir, self.CAPSTONE[tier])
            out.broken.extend(cap_breaks)
        self.capstone_stats = (cap_n, cap_ok)
        seen = set()
        nt = 0
        dist = {}
        for c, r in zip(cases[nk:], results[nk:]):
            if r.get('build') != 'ok':
                continue
            h = canon_hash([c['modes'], c['input'], c['ops']])
            if h in seen:
                continue
            seen.add(h)
            if self.nontrivial(c, r):
                nt += 1
            for o in c['ops']:
                dist[o[0]] = dist.get(o[0], 0) + 1
        samples = []
        for c, r in list(zip(cases, results))[nk:nk + 400]:
            if r.get('build') == 'ok' and self.nontrivial(c, r):
                samples.append({'modes': c['modes'], 'input': c['input'], 'ops': c['ops'], 'impl': r['outs']})
            if len(samples) >= 3:
                break
        return {'evaluations': len(cases), 'distinct_nontrivial': nt,
                'rule': self.RULE, 'samples': samples or [{'note': 'no non-trivial sample'}],
                'op_distribution': dist,
                'input_len_hist': hist([len(c['input']) for c in cases]),
                'npatterns_hist': hist([sum(len(m['patterns']) for m in c['modes']) for c in cases]),
                'tokens_total': sum(len(scan.stream_of(r.get('outs', []))) for r in results),
                'ties_accepted': sum(1 for r in results if r.get('tie_accepted')),
                'spec_stream_checks': sum(1 for r in results if 'spec' in r),
                'model_evaluations': sum(1 for r in results if 'model_outs' in r),
                'capstone_configurations_checked': cap_n, 'capstone_configurations_agree': cap_ok,
                'known_findings_replayed': nk}


def hist(xs):
    h = {}
    for x in xs:
        k = str(x if x < 10 else (x // 10) * 10) + ('' if x < 10 else '+')
        h[k] = h.get(k, 0) + 1
    return h


# ----------------------------------------------------------------------------------------------
# properties decided by per-program kernel-checked certificates

import certs, corpus, gen


def ast_nontrivial(a):
    if a is None:
        return False
    k = a.get('k')
    if k in ('rep', 'alt', 'cls_bracketed', 'cls_perl', 'dot'):
        return True
    if k == 'group':
        return ast_nontrivial(a['a'])
    if k == 'concat':
        return any(ast_nontrivial(x) for x in a['as'])
    return False


class CertProperty:
    """C02 / C03: one certificate file per program, compiled (Qed-checked) by coqc."""
    WHAT = 'c02'
    N = {'quick': 100, 'thorough': 1500}

    def programs(self, rng, tier):
        progs = []
        for name, modes, inp in corpus.repo_configs(include_veryl=(tier == 'thorough')):
            progs.append({'name': name, 'modes': modes, 'inputs': [inp[:400]] if inp else []})
        # enumerated small scope: single patterns and ordered pairs over two overlapping classes
        atoms = ['a', '[ab]', '.']
        small = []
        for x in atoms:
            for op in ['', '?', '*', '+', '{2}', '{1,2}', '{2,}']:
                small.append(x + op)
        for x in atoms:
            for y in atoms:
                small.append(x + y)
                small.append('(' + x + '|' + y + ')')
                small.append('(' + x + '|)' + y)
                small.append('(' + x + y + ')*' + x)
        lim = len(small) if tier == 'thorough' else 30
        for i, p in enumerate(small[:lim]):
            progs.append({'name': 'small%d' % i, 'modes': [{'name': 'M', 'patterns': [{'p': p, 't': 3}], 'transitions': []}], 'inputs': ['ab', 'aab']})
        if tier == 'thorough':
            for i, (p, q) in enumerate([(p, q) for p in small[:25] for q in small[:25]][:300]):
                progs.append({'name': 'pair%d' % i, 'modes': [{'name': 'M', 'patterns': [{'p': p, 't': 1}, {'p': q, 't': 0}], 'transitions': []}], 'inputs': ['abab']})
        # near-merge shapes: states that are almost, but not quite, equivalent (a minimizer that
        # merges too much or too little shows up exactly here): words with a shared suffix whose
        # middles differ by an alternation or class, inside one pattern or across patterns
        letters = ['a', 'b', 'c', 'x', 'y']
        nnm = 40 if tier == 'quick' else 400
        for i in range(nnm):
            l = [rng.choice(letters) for _ in range(6)]
            shape = i % 5
            if shape == 0:
                pats = [{'p': '%s(%s|%s)%s|%s%s%s' % (l[0], l[1], l[2], l[3], l[4], l[1], l[3]), 't': 0}]
            elif shape == 1:
                pats = [{'p': '%s(%s|%s)%s' % (l[0], l[1], l[2], l[3]), 't': 1}, {'p': '%s%s%s' % (l[4], l[2], l[3]), 't': 0}]
            elif shape == 2:
                pats = [{'p': '%s[%s%s]%s|%s%s%s%s' % (l[0], l[1], l[2], l[3], l[4], l[1], l[3], l[5]), 't': 2}]
            elif shape == 3:
                pats = [{'p': '%s%s(%s|%s)+%s|%s%s%s*%s' % (l[0], l[1], l[2], l[3], l[4], l[5], l[1], l[2], l[4]), 't': 0},
                        {'p': '[a-z]', 't': 1}]
            else:
                pats = [{'p': '(%s|%s)%s(%s|%s)' % (l[0], l[1], l[2], l[3], l[4]), 't': 3},
                        {'p': '%s%s%s' % (l[1], l[2], l[5]), 't': 4}, {'p': '%s%s' % (l[0], l[2]), 't': 5}]
            inp = ''.join(rng.choice(letters) for _ in range(8))
            progs.append({'name': 'nm%d' % i, 'modes': [{'name': 'M', 'patterns': pats, 'transitions': []}], 'inputs': [inp]})
        # repetitions whose body can match the empty string (epsilon cycles in the Thompson NFA), entered from a prefix,
        # followed by a suffix, inside patterns and lookaheads
        bodies = ['a?', 'a*b*', 'a?b?', '(a|b*)', '(a*)*', '(a?b)?', '(|a)(|b)']
        k = 0
        for body in bodies:
            for op in ['+', '*', '{2,}']:
                for pre, suf in [('c', ''), ('', 'c'), ('c', 'c')]:
                    if tier == 'quick' and (k % 3) != 0:
                        k += 1
                        continue
                    pat = '%s(%s)%s%s' % (pre, body, op, suf)
                    pats = [{'p': pat, 't': 1}]
                    if k % 2:
                        pats = [{'p': 'x', 't': 7, 'la': {'pos': True, 'p': pat}}, {'p': '[abc]', 't': 8}]
                    progs.append({'name': 'epscycle%d' % k, 'modes': [{'name': 'M', 'patterns': pats, 'transitions': []}],
                                  'inputs': ['caab', 'xcaab', 'cabab']})
                    k += 1
        # nested repetitions inside a concatenation / alternation (the empty iteration and the exact counts are observable),
        # and meta characters written as escapes
        k = 0
        ops = ['*', '+', '?', '{2}', '{1,2}', '{2,}']
        for inner in ops:
            for outer in ops:
                for ctx in ['a(?:%s)c', '(?:%s|z)q', 'x', '(%s)(%s)c']:
                    if tier == 'quick' and k % 4 != 0:
                        k += 1
                        continue
                    rep = '(?:b%s)%s' % (inner, outer)
                    if ctx == 'x':
                        pats = [{'p': 'x', 't': 7, 'la': {'pos': k % 8 < 4, 'p': rep + '>'}}, {'p': '[b>x]', 't': 8}]
                    else:
                        pats = [{'p': ctx.replace('%s', rep), 't': 1}, {'p': '[abcqz]', 't': 2}]
                    progs.append({'name': 'nestrep%d' % k, 'modes': [{'name': 'M', 'patterns': pats, 'transitions': []}],
                                  'inputs': ['ac', 'abbc', 'q', 'x>', 'xbb>']})
                    k += 1
        for i, e in enumerate(['\\x2e', '\\u{2e}', '\\x28', '\\x2a', '\\x5b', '\\x7c', '\\x5c']):
            progs.append({'name': 'metaesc%d' % i, 'inputs': ['1.5', '1x5', 'a(b'],
                          'modes': [{'name': 'M', 'patterns': [{'p': '[0-9]+' + e + '[0-9]+', 't': 1}, {'p': '[0-9]+', 't': 2}, {'p': '[a-z]+', 't': 3},
                                                               {'p': 'q', 't': 4, 'la': {'pos': True, 'p': e}}], 'transitions': []}]})
        # alternatives that match only the empty word without being the literally empty alternative (empty groups, a{0},
        # nested and concatenated empty groups), in every position of an alternation that sits inside a concatenation or
        # is a lookahead: the empty alternative must survive next to the non-empty ones
        empties = ['()', '(?:)', '(())', '()()', 'a{0}', '', '(|)']
        k = 0
        for e in empties:
            for shape in ['(%s|a)b', '(a|%s)b', '(%s|%s|a)b', '(?:%s|a|c)b', 'c(%s|a)', '(%s|a)*b', '(a|%s|c)+b']:
                if tier == 'quick' and k % 3 != 0:
                    k += 1
                    continue
                pat = shape.replace('%s', e)
                if k % 4 == 3:
                    pats = [{'p': 'x', 't': 7, 'la': {'pos': k % 8 < 4, 'p': pat}}, {'p': '[abcx]', 't': 8}]
                else:
                    pats = [{'p': pat, 't': 1}, {'p': '[abc]', 't': 2}]
                progs.append({'name': 'emptyalt%d' % k, 'modes': [{'name': 'M', 'patterns': pats, 'transitions': []}],
                              'inputs': ['b ab cb', 'xb xab c ca', 'aacb']})
                k += 1
        # lookahead automata (compiled one pattern at a time) whose pattern ENDS in an optional item: the accepting state
        # of the Thompson NFA is then not the state created last
        for k, la in enumerate(['ab?', 'a{1,2}', 'a(bc)?', 'ab?c?', 'a[bc]{0,2}', 'a(b|c?)', 'ab{2,3}', '(a|b)c?', 'a+b?', 'a(b?c)?']):
            if tier == 'quick' and k % 2 and k > 4:
                continue
            pats = [{'p': 'x', 't': 7, 'la': {'pos': k % 3 != 2, 'p': la}}, {'p': 'x', 't': 9}, {'p': '[abc]', 't': 8}]
            progs.append({'name': 'laopt%d' % k, 'modes': [{'name': 'M', 'patterns': pats, 'transitions': []}],
                          'inputs': ['xac xab xa', 'xaa xabc xbc x']})
        # alternations that list an alternative twice among alternatives sharing prefixes (keyword lists written by
        # hand or generated): duplicate branches give the subset construction identical NFA paths and the minimizer
        # groups with parallel edges
        words = ['if', 'in', 'int', 'is', 'i', 'for', 'fn', 'f', 'else', 'elif', 'e']
        fixed = [['if', 'in', 'if', 'int'], ['a', 'ab', 'a', 'abc', 'ab'], ['for', 'fn', 'for', 'f', 'fn'], ['else', 'elif', 'else', 'e']]
        ndup = 8 if tier == 'quick' else 80
        for i in range(ndup):
            ws = fixed[i] if i < len(fixed) else None
            if ws is None:
                ws = rng.sample(words, rng.randint(2, 4))
                ws += [rng.choice(ws) for _ in range(rng.randint(1, 2))]
                rng.shuffle(ws)
            alt = '|'.join(ws)
            shape = i % 4
            if shape == 0:
                pats = [{'p': alt, 't': 0}]
            elif shape == 1:
                pats = [{'p': '(%s)x' % alt, 't': 1}, {'p': '[a-z]', 't': 2}]
            elif shape == 2:
                pats = [{'p': '(?:%s)+' % alt, 't': 0}, {'p': '[a-z]+', 't': 1}]
            else:
                pats = [{'p': 'x', 't': 7, 'la': {'pos': True, 'p': alt}}, {'p': alt, 't': 3}, {'p': '[a-z]', 't': 8}]
            progs.append({'name': 'dupalt%d' % i, 'modes': [{'name': 'M', 'patterns': pats, 'transitions': []}],
                          'inputs': ['if in int ifx', 'xint forfn', 'elseelif ab abc']})
        # shared token types: several patterns of one mode with the SAME token type (legal; only the priority
        # among them is affected by known finding D8, the accepted languages per token type are not): chains of
        # different lengths over one class need several refinement rounds of the minimizer, and terminal_ids has
        # more entries than there are distinct token types
        k = 0
        for cls in ['[0-9]', '[ab]', 'a']:
            for lens in [(4, 2, 3), (2, 3, 4), (3, 5), (2, 4, 6), (1, 3)]:
                pats = [{'p': '%s{%d}' % (cls, n), 't': 1} for n in lens]
                if k % 2:
                    pats.append({'p': '-', 't': 2})
                progs.append({'name': 'sharedfix%d' % k, 'modes': [{'name': 'M', 'patterns': pats, 'transitions': []}],
                              'inputs': ['12345 123', 'aabab-ab']})
                k += 1
        nst = 12 if tier == 'quick' else 120
        for i in range(nst):
            cls = rng.choice(['[0-9]', '[ab]', 'a', '.', '\\d'])
            lens = rng.sample(range(1, 7), rng.randint(2, 4))
            t0 = rng.randint(0, 3)
            pats = [{'p': '%s{%d}' % (cls, n), 't': t0} for n in lens]
            if rng.random() < 0.5:
                pats.insert(rng.randrange(len(pats) + 1), {'p': rng.choice(['-', ' ', 'x+', '[xy]']), 't': t0 + 1 + rng.randint(0, 2)})
            if rng.random() < 0.3:
                pats.append({'p': '%s{%d}x' % (cls, rng.randint(1, 4)), 't': pats[-1]['t'] if rng.random() < 0.5 else t0 + 5})
            progs.append({'name': 'shared%d' % i, 'modes': [{'name': 'M', 'patterns': pats, 'transitions': []}],
                          'inputs': ['12345 123', 'aabab-ab']})
        # registry-sensitive shapes: leaves that are related (complements, the same set spelled
        # differently, the same character with another literal kind) inside ONE scanner, in one mode,
        # across modes and in lookaheads: a class registry that identifies or confuses them changes
        # the language of one of the patterns
        related = [('\\pL', '\\PL'), ('\\p{Lowercase}', '\\P{Lowercase}'), ('\\pN', '\\PN'), ('\\d', '\\D'), ('\\w', '\\W'),
                   ('\\s', '\\S'), ('[a-c]', '[^a-c]'), ('a', '\\x61'), ('[[:alpha:]]', '[[:^alpha:]]'), ('\\pL', '\\p{Alphabetic}'),
                   ('.', '[^\\n\\r]'), ('[ab]', '[ba]'), ('\\p{Uppercase}', '\\P{Uppercase}'), ('[\\pL]', '[\\PL]')]
        for i, (x, y) in enumerate(related):
            inputs = ['a1 B', '\u00e9x\n2']
            progs.append({'name': 'reg_a%d' % i, 'inputs': inputs,
                          'modes': [{'name': 'M', 'patterns': [{'p': x + '+', 't': 0}, {'p': y + '+', 't': 1}], 'transitions': []}]})
            progs.append({'name': 'reg_b%d' % i, 'inputs': inputs,
                          'modes': [{'name': 'M0', 'patterns': [{'p': y + '+', 't': 3}], 'transitions': []},
                                    {'name': 'M1', 'patterns': [{'p': x + '+', 't': 5}], 'transitions': []}]})
            if tier == 'thorough' or i % 2 == 0:
                progs.append({'name': 'reg_c%d' % i, 'inputs': inputs,
                              'modes': [{'name': 'M', 'patterns': [{'p': x, 't': 0}, {'p': 'a', 't': 1, 'la': {'pos': True, 'p': y}},
                                                                   {'p': '[0-9]', 't': 2, 'la': {'pos': False, 'p': x}}], 'transitions': []}]})
        for i in range(self.N[tier]):
            r = rng.random()
            if r < 0.5:
                alpha = gen.pick_alpha(rng)
                modes = [gen.gen_small_mode(rng, 'M%d' % k, alpha, rng.randint(1, 5), 0.3) for k in range(rng.randint(1, 2))]
                inputs = [gen.gen_small_input(rng, alpha) for _ in range(2)]
            else:
                modes = gen.gen_config(rng, nmodes=rng.randint(1, 2), la_prob=0.25, depth=rng.randint(1, 3), max_pat=4)
                inputs = [gen.gen_input(rng, modes) for _ in range(2)]
            progs.append({'name': 'r%d' % i, 'modes': modes, 'inputs': inputs})
        return progs

    def explore(self, rng, tier, rdir, out, replay=None, programs=None):
        if programs is not None:
            progs = programs
        elif replay:
            payload = json.load(open(replay))
            progs = [payload['program']] if 'program' in payload else []
        else:
            progs = self.programs(rng, tier)
        jobs = [{'id': i, 'kind': 'sweep', 'modes': p['modes'], 'inputs': p.get('inputs', [])} for i, p in enumerate(progs)]
        results = run_harness(jobs, rdir, 'sweep', timeout=3000)
        files, metas = [], []
        ninst = 0
        for i, (p, r) in enumerate(zip(progs, results)):
            if r.get('harness_panic'):
                raise RuntimeError('harness panic: %s' % r['harness_panic'])
            if r.get('build') != 'ok':
                if not p.get('may_fail'):
                    out.violations.append({'property': self.ID, 'what': 'supported configuration does not build: %s %s' % (r.get('build'), r.get('error', '')), 'program': p})
                continue
            if not all(r.get('leaf_builds', [])):
                out.broken.append({'what': 'a pattern leaf does not build as a one-pattern scanner', 'detail': p})
                continue
            path = os.path.join(rdir, 'inst_%04d.v' % i)
            names = certs.program_file(path, p['modes'], r, self.WHAT)
            if names:
                files.append(path)
                metas.append((i, names))
                ninst += len(names)
        outs = coq_eval_files(files, timeout=2400)
        checked = 0
        failed_programs = []
        for path, (i, names), (rc, o) in zip(files, metas, outs):
            if rc == 0:
                checked += len(names)
            else:
                failed_programs.append((i, path, o))
        for i, path, o in failed_programs[:10]:
            self.diagnose(i, progs[i], results[i], rdir, out, o)
        seen = set()
        nt = 0
        for p, r in zip(progs, results):
            if r.get('build') != 'ok':
                continue
            h = canon_hash(p['modes'])
            if h in seen:
                continue
            seen.add(h)
            if any(ast_nontrivial(a[0]) or ast_nontrivial(a[1]) for m in r['asts'] for a in m):
                nt += 1
        samples = [{'program': p['modes'], 'minterms': len(r.get('minterms', [])),
                    'states': [len(m['dfa']['states']) for m in r['dump']['modes']]}
                   for p, r in list(zip(progs, results))[-3:] if r.get('build') == 'ok']
        return {'evaluations': len(progs), 'distinct_nontrivial': nt, 'programs': len(files),
                'certificates_generated': ninst, 'certificates_checked_by_kernel': checked,
                'disagreements_checked': len(failed_programs),
                'rule': self.RULE, 'samples': samples or [{'note': 'none'}],
                'minterms_hist': hist([len(r.get('minterms', [])) for r in results if r.get('build') == 'ok']),
                'states_hist': hist([len(m['dfa']['states']) for r in results if r.get('build') == 'ok' for m in r['dump']['modes']]),
                'exhaustive_alphabet': 'all 1112064 scalar values partitioned into minterms per program'}

    def diagnose(self, i, prog, res, rdir, out, coq_out):
        """A certificate failed: find the failing instance and a distinguishing word."""
        path = os.path.join(rdir, 'diag_%04d.v' % i)
        names = certs.program_file(path, prog['modes'], res, self.WHAT, diag=True)
        rc, o = coqc_file(path, timeout=2400)
        if rc != 0:
            out.broken.append({'what': 'certificate %s does not check and the diagnosis failed' % os.path.basename(path),
                               'detail': {'program': prog, 'coq': (coq_out[-1500:], o[-1500:])}})
            return
        blocks = split_evals(o)
        found = False
        for name, b in zip(names, blocks):
            try:
                flags, cex = parse_coq_value(b)
            except Exception:
                continue
            if all(x == 1 for x in flags[:4]) and (self.WHAT != 'c02' or True):
                continue
            found = True
            v = {'property': self.ID, 'program': prog, 'instance': name, 'checks': flags,
                 'what': 'certificate fails: ' + ('automaton and patterns accept different token types' if self.WHAT == 'c02'
                                                 else 'minimizer output differs from its input')}
            if cex:
                w, left, right = cex
                word = certs.word_of_minterms(res, w)
                v['word'] = word
                v['word_codepoints'] = [ord(c) for c in word]
                v['token_types_expected' if self.WHAT == 'c02' else 'token_types_before'] = left
                v['token_types_automaton' if self.WHAT == 'c02' else 'token_types_after'] = right
                out.violations.append(v)
            else:
                v['what'] += ' (no distinguishing word found within the search bound)'
                out.broken.append({'what': v['what'], 'detail': v})
        if not found:
            out.broken.append({'what': 'certificate file %s does not compile although all checks evaluate to true' % os.path.basename(path),
                               'detail': {'program': prog, 'coq': coq_out[-2000:]}})
