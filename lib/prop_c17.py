"""C17 — large automata compile correctly or not at all.

(A) translator  ids.rs / all `as <integer type>` casts of scnr/src  ->  coq/Gen/Ids.v
(B) obligations coq/Properties/C17.v (group_width_ok, state_width_resource, casts_ok,
    C17_size_independent, ...)
(C) exploration scaled-down keyword sets / bounded repetitions against a longest-match oracle
    that is computed from the pattern list itself, the transcribed minimizer at the regenerated
    group-id width against the real one, and (thorough tier, or whenever an obligation of this
    property no longer checks) the real-size runs with a release build of the harness.
"""
import hashlib, itertools, json, os, re, time
from common import *

SRC = os.path.join(REPO, 'scnr', 'src')
IDS_RS = os.path.join(SRC, 'internal', 'ids.rs')
GEN_IDS = os.path.join(COQ, 'Gen', 'Ids.v')
CASTS = os.path.join(ROOT, 'lib', 'c17_casts.json')

INT_BITS = {'u8': 8, 'u16': 16, 'u32': 32, 'u64': 64, 'u128': 128, 'usize': 64,
            'i8': 8, 'i16': 16, 'i32': 32, 'i64': 64, 'i128': 128, 'isize': 64}
ALIASES = [('StateIDBase', 'state_id_bits', 'state'), ('CharClassIDBase', 'char_class_id_bits', 'class'),
           ('TerminalIDBase', 'terminal_id_bits', 'terminal'), ('StateGroupIDBase', 'group_id_bits', 'group'),
           ('PatternIDBase', 'pattern_id_bits', None), ('ScannerModeIDBase', 'scanner_mode_id_bits', None)]
# files that are not part of the product pipeline: the read-only verification hooks
SKIP_FILES = {'verif.rs'}


# ----------------------------------------------------------------------------------------------
# (A) source translator

def strip_rust_comments(text):
    """Removes // and /* */ comments and blanks the contents of string / char literals (so that
    neither can be mistaken for code), keeps the line structure."""
    out, i, n = [], 0, len(text)
    while i < n:
        c = text[i]
        m = re.match(r'b?r(#*)"', text[i:i + 40]) if c in 'br' and (i == 0 or not (text[i - 1].isalnum() or text[i - 1] == '_')) else None
        if m:                                            # raw string r#"..."#
            end = text.find('"' + m.group(1), i + len(m.group(0)))
            end = n if end < 0 else end + 1 + len(m.group(1))
            out.append('""' + '\n' * text.count('\n', i, end))
            i = end
        elif c == '"':
            j = i + 1
            while j < n and text[j] != '"':
                j += 2 if text[j] == '\\' else 1
            out.append('""' + '\n' * text.count('\n', i, j + 1))
            i = j + 1
        elif c == "'" and i + 1 < n and text[i + 1] == '\\':    # escaped char literal
            j = text.find("'", i + 3)
            j = n if j < 0 else j
            out.append("' '")
            i = j + 1
        elif c == "'" and i + 2 < n and text[i + 2] == "'":       # plain char literal (not a lifetime)
            out.append("' '")
            i += 3
        elif text.startswith('//', i):
            while i < n and text[i] != '\n':
                i += 1
        elif text.startswith('/*', i):
            depth, i = 1, i + 2
            while i < n and depth:
                if text.startswith('/*', i):
                    depth, i = depth + 1, i + 2
                elif text.startswith('*/', i):
                    depth, i = depth - 1, i + 2
                else:
                    if text[i] == '\n':
                        out.append('\n')
                    i += 1
        else:
            out.append(c)
            i += 1
    return ''.join(out)


def read_aliases(path=IDS_RS):
    """{alias name: bits} from `pub(crate) type XBase = uNN;` (aliases of aliases are resolved)."""
    text = strip_rust_comments(open(path).read())
    raw = dict(re.findall(r'\btype\s+(\w+)\s*=\s*(\w+)\s*;', text))
    res = {}
    for name in raw:
        t, seen = raw[name], set()
        while t in raw and t not in seen:
            seen.add(t)
            t = raw[t]
        if t in INT_BITS:
            res[name] = INT_BITS[t]
    return res


_cast = re.compile(r'\bas\s+([A-Za-z_]\w*)\b')


def operand_before(text, pos):
    """The postfix expression that ends right before text[pos] (the operand of `as`)."""
    i = pos
    while i > 0 and text[i - 1].isspace():
        i -= 1
    end = i
    while i > 0:
        c = text[i - 1]
        if c in ')]':
            close, open_ = c, '(' if c == ')' else '['
            depth, i = 1, i - 1
            while i > 0 and depth:
                i -= 1
                if text[i] == close:
                    depth += 1
                elif text[i] == open_:
                    depth -= 1
        elif c.isalnum() or c in '_.:?$':
            i -= 1
        else:
            break
    return re.sub(r'\s+', '', text[i:end])


def cast_sites(src=SRC, int_types=None):
    """All `<operand> as <integer type or id base alias>` in scnr/src (comments removed).
    A site is identified by file, enclosing fn, operand text and target type (not by its line)."""
    aliases = read_aliases()
    targets = set(INT_BITS) | set(aliases)
    sites = []
    for dp, dn, fn in sorted(os.walk(src)):
        dn.sort()
        for f in sorted(fn):
            if not f.endswith('.rs') or f in SKIP_FILES:
                continue
            rel = os.path.relpath(os.path.join(dp, f), src)
            text = strip_rust_comments(open(os.path.join(dp, f)).read())
            fns = [(m.start(), m.group(1)) for m in re.finditer(r'\bfn\s+(\w+)', text)]
            for m in _cast.finditer(text):
                t = m.group(1)
                if t not in targets and not t.endswith('IDBase'):
                    continue
                enclosing = '-'
                for p, name in fns:
                    if p < m.start():
                        enclosing = name
                line = text.count('\n', 0, m.start()) + 1
                sites.append({'file': rel, 'fn': enclosing, 'expr': operand_before(text, m.start()),
                              'target': t, 'line': line})
    return sites


_WIDTH = [
    ('shift', re.compile(r'<<=?|(?<=[\w)\]])\s*>>=?\s*(?=[\w(])')),
    ('literal', re.compile(r'\b0[xXbBoO][0-9A-Fa-f_]+\w*|\b(?:255|256|65535|65536|4294967295|4294967296)(?:_?[ui]\d+|usize)?\b')),
    ('narrow-type', re.compile(r'\b(?:u8|u16|i8|i16)\b')),
    ('limit', re.compile(r'::\s*(?:MAX|MIN|BITS)\b')),
    ('arith', re.compile(r'\b(?:wrapping|overflowing|saturating|checked|unchecked)_\w+|\brotate_(?:left|right)\b|\bswap_bytes\b|'
                         r'\b(?:to|from)_[lbn]e(?:_bytes)?\b|\b(?:leading|trailing)_(?:zeros|ones)\b|\bcount_(?:ones|zeros)\b|\bpow\s*\(|\bilog2?\b')),
]


def width_sites(src=SRC):
    """Width-sensitive constructs other than `as` casts: shifts, bit-pattern literals, narrow integer
    types, integer limits, wrapping/saturating/bit-counting arithmetic. The product pipeline has next to
    none of them; a new one (a packed key, a narrow lookup table, a mask) is where a size assumption hides."""
    sites = []
    for dp, dn, fn in sorted(os.walk(src)):
        dn.sort()
        for f in sorted(fn):
            if not f.endswith('.rs') or f in SKIP_FILES:
                continue
            rel = os.path.relpath(os.path.join(dp, f), src)
            text = strip_rust_comments(open(os.path.join(dp, f)).read())
            # test modules are not part of the pipeline
            cut = re.search(r'#\[cfg\(test\)\]\s*mod\s+\w+', text)
            if cut:
                text = text[:cut.start()]
            fns = [(m.start(), m.group(1)) for m in re.finditer(r'\bfn\s+(\w+)', text)]
            # generic brackets are not shifts: blank `<...>` groups (innermost first) before looking for << and >>
            noshift = text
            while True:
                red = re.sub(r'<([^<>(){};=|]*)>', lambda m: ' ' + re.sub(r'[^\n]', ' ', m.group(1)) + ' ', noshift)
                if red == noshift:
                    break
                noshift = red
            for kind, rx in _WIDTH:
                for m in rx.finditer(noshift if kind == 'shift' else text):
                    enclosing = '-'
                    for p_, name in fns:
                        if p_ < m.start():
                            enclosing = name
                    ls = text.rfind('\n', 0, m.start()) + 1
                    le = text.find('\n', m.end())
                    snippet = ' '.join(text[ls:le if le >= 0 else len(text)].split())[:120]
                    sites.append({'file': rel, 'fn': enclosing, 'expr': snippet, 'target': 'width:' + kind,
                                  'line': text.count('\n', 0, m.start()) + 1})
    return sites


def site_key(s):
    return '%s::%s: %s as %s' % (s['file'], s['fn'], s['expr'], s['target'])


def keyed(sites):
    """Multiset of site keys as a sorted list of 'key #k' strings."""
    cnt, out = {}, []
    for s in sites:
        k = site_key(s)
        cnt[k] = cnt.get(k, 0) + 1
        out.append('%s #%d' % (k, cnt[k]))
    return sorted(out)


def table_keys(table):
    out = []
    for e in table['sites']:
        for k in range(1, e.get('count', 1) + 1):
            out.append('%s #%d' % (site_key(e), k))
    return sorted(out)


def key_number(k):
    return int(hashlib.sha256(k.encode()).hexdigest()[:15], 16)


def gen_ids_text(aliases, sites, table):
    found, tab = keyed(sites), table_keys(table)
    lines = ['(* GENERATED by lib/prop_c17.py (C17.regen) from /repo/scnr/src/internal/ids.rs and the',
             '   `as <integer type>` casts of /repo/scnr/src/**/*.rs. Do not edit: rewritten on every check. *)',
             'From Coq Require Import List NArith Bool.', 'Import ListNotations.', '']
    lines.append('(* bit widths of the id types (`pub(crate) type XBase = uNN;`, usize = 64) *)')
    for alias, coqname, _ in ALIASES:
        if alias not in aliases:
            raise RuntimeError('type alias %s not found in ids.rs' % alias)
        lines.append('Definition %s : nat := %d.' % (coqname, aliases[alias]))
    lines.append('')
    lines.append('(* cast sites per target type *)')
    per = {}
    for s in sites:
        per[s['target']] = per.get(s['target'], 0) + 1
    for t in sorted(per):
        lines.append('Definition casts_to_%s : nat := %d.' % (re.sub(r'\W', '_', t), per[t]))
    lines.append('Definition cast_sites_total : nat := %d.' % len(sites))
    lines.append('')
    lines.append('(* one number per cast site = 60 bits of sha256("file::fn: operand as Type #occurrence"), sorted by key')
    for k in found:
        lines.append('     %d  %s' % (key_number(k), k.replace('(*', '( *').replace('*)', '* )').replace('"', "'")))
    lines.append('*)')
    lines.append('Definition casts_found : list N := [%s]%%N.' % '; '.join(str(key_number(k)) for k in found))
    lines.append('(* the same for the committed table lib/c17_casts.json (every entry says where the model')
    lines.append('   represents the conversion, or why it cannot truncate) *)')
    lines.append('Definition casts_table : list N := [%s]%%N.' % '; '.join(str(key_number(k)) for k in tab))
    lines.append('Fixpoint nlist_same (a b:list N) : bool :=')
    lines.append('  match a, b with [], [] => true | x :: a, y :: b => N.eqb x y && nlist_same a b | _, _ => false end.')
    lines.append('Definition casts_modelled : bool := nlist_same casts_found casts_table.')
    return '\n'.join(lines) + '\n'


def write_if_changed(path, text):
    os.makedirs(os.path.dirname(path), exist_ok=True)
    if os.path.exists(path) and open(path).read() == text:
        return False
    with open(path, 'w') as f:
        f.write(text)
    return True


# ----------------------------------------------------------------------------------------------
# pattern specifications and the longest-match oracle (computed from the pattern list itself)
#
# spec = {'prefix': str, 'units': [str of equal length], 'min': m, 'max': n or None, 'suffix': str, 't': type}
# denotes prefix (u1|u2|..){m,n} suffix; a keyword is {'prefix': kw, 'units': [], 'min': 0, 'max': 0}.

def spec_regex(s):
    r = s.get('prefix', '')
    units = s.get('units') or []
    if units:
        if all(len(u) == 1 for u in units):
            u = units[0] if len(units) == 1 else '[' + ''.join(units) + ']'
        else:
            u = '(' + '|'.join(units) + ')'
        m, n = s['min'], s['max']
        if n is None:
            q = '+' if m == 1 else ('*' if m == 0 else '{%d,}' % m)
        elif m == n:
            q = '{%d}' % m
        else:
            q = '{%d,%d}' % (m, n)
        r += u + q
    return r + s.get('suffix', '')


def spec_match_len(s, text, pos):
    """Length of the longest match of the spec at pos (0 = none)."""
    p = s.get('prefix', '')
    if not text.startswith(p, pos):
        return 0
    i = pos + len(p)
    units = s.get('units') or []
    k = 0
    if units:
        ul, us, mx = len(units[0]), set(units), s['max']
        while (mx is None or k < mx) and text[i:i + ul] in us:
            i += ul
            k += 1
    else:
        ul = 0
    suf = s.get('suffix', '')
    while k >= (s['min'] if units else 0):
        if text.startswith(suf, pos + len(p) + k * ul):
            return len(p) + k * ul + len(suf)
        k -= 1
    return 0


class Oracle:
    """Longest match, first pattern on ties, skip one character when nothing matches."""
    def __init__(self, specs):
        self.kw = {}
        self.other = []
        for idx, s in enumerate(specs):
            if not (s.get('units') or s.get('suffix')):
                self.kw.setdefault(s['prefix'], (idx, s['t']))      # first of equal keywords wins
            else:
                self.other.append((idx, s))
        self.kwlens = sorted(set(len(k) for k in self.kw), reverse=True)

    def at(self, text, pos):
        best = None                                                 # (len, -idx, t)
        for L in self.kwlens:
            e = self.kw.get(text[pos:pos + L])
            if e is not None and pos + L <= len(text):
                best = (L, -e[0], e[1])
                break
        for idx, s in self.other:
            L = spec_match_len(s, text, pos)
            if L > 0 and (best is None or (L, -idx) > best[:2]):
                best = (L, -idx, s['t'])
        return best

    def stream(self, text):
        out, pos = [], 0
        while pos < len(text):
            b = self.at(text, pos)
            if b is None:
                pos += 1
            else:
                out.append([b[2], pos, pos + b[0]])
                pos += b[0]
        return out


def lex_words(alpha, length, n):
    out = []
    for t in itertools.product(alpha, repeat=length):
        out.append(''.join(t))
        if len(out) == n:
            break
    return out


def make_case(g):
    """Generator parameters -> {'specs', 'inputs': [(class, text)]}; deterministic."""
    import random
    rng = random.Random(g.get('seed', 0))
    specs, inputs = [], []
    kind = g['gen']
    if kind == 'keywords':
        if g.get('mixed'):
            words = []
            for L in range(1, g['len'] + 1):
                words += lex_words(g['alpha'], L, 10 ** 9)
            rng.shuffle(words)
            words = sorted(words[:g['n']]) if not g.get('shuffle') else words[:g['n']]
        else:
            words = lex_words(g['alpha'], g['len'], g['n'])
            if g.get('shuffle'):
                rng.shuffle(words)
        types = list(range(len(words)))
        if g.get('perm_types'):
            rng.shuffle(types)
        base = g.get('type_base', 0)
        specs = [{'prefix': w, 'units': [], 'min': 0, 'max': 0, 't': base + t} for w, t in zip(words, types)]
        if g.get('case_insensitive'):
            # the patterns are written (a|A)(b|B)(c|C) (see case_job): the oracle knows both spellings
            specs += [{'prefix': w.upper(), 'units': [], 'min': 0, 'max': 0, 't': base + t} for w, t in zip(words, types)]
        if g.get('one_alternation'):
            for sp in specs:
                sp['t'] = base
        if g.get('ident'):
            # the usual companion of a keyword list: an identifier pattern of lowest priority
            specs.append({'prefix': '', 'units': list(g['alpha']), 'min': 1, 'max': None, 't': base + len(words)})
        j = g.get('join')
        if j:
            # real size: every find_iter clones the automaton, so the words are checked in chunks,
            # separated by a character no pattern matches (every word still starts a fresh match)
            pre = sorted(set(w[:-1] for w in words if len(w) > 1))
            inputs += [('keywords_joined', ' '.join(words[k:k + j])) for k in range(0, len(words), j)]
            if g.get('case_insensitive'):
                inputs += [('keywords_upper_joined', ' '.join(w.upper() for w in words[k:k + j])) for k in range(0, len(words), j)]
            inputs += [('minus_last_joined', ' '.join(pre[k:k + j])) for k in range(0, len(pre), j)]
        else:
            inputs += [('keyword', w) for w in words]
            inputs += [('minus_last', w[:-1]) for w in words if len(w) > 1]
        for _ in range(g.get('concats', 20)):
            k = rng.randint(2, 6)
            sep = rng.choice(['', '', ' ', '-'])
            inputs.append(('concat', sep.join(rng.choice(words) for _ in range(k))))
        if g.get('all_concat'):
            inputs.append(('concat_all', ''.join(words)))
    elif kind == 'rep':
        for i, p in enumerate(g['patterns']):
            s = {'prefix': p.get('prefix', ''), 'units': p['units'], 'min': p['min'], 'max': p['max'],
                 'suffix': p.get('suffix', ''), 't': p.get('t', i)}
            specs.append(s)
        for s in specs:
            def word(k):
                return s['prefix'] + ''.join(rng.choice(s['units']) for _ in range(k)) + s['suffix']
            mx = s['max'] if s['max'] is not None else s['min'] + 3
            inputs.append(('exact', word(mx)))
            inputs.append(('minus_one', word(s['min'] - 1) if s['min'] >= 1 else s['prefix']))
            if s['suffix']:
                inputs.append(('minus_last', word(mx)[:-1]))
            if mx > 65536:
                inputs.append(('minus_2^16', word(mx - 65536)))
            for d in g.get('less', []):
                if mx - d >= 0:
                    inputs.append(('minus_%d' % d, word(mx - d)))
            inputs.append(('plus_one', word(mx + 1)))
            inputs.append(('twice', word(mx) + word(mx)))
    else:
        raise ValueError('unknown generator ' + kind)
    # deduplicate inputs, keep order
    seen, ins = set(), []
    for c, t in inputs:
        if t not in seen:
            seen.add(t)
            ins.append((c, t))
    return {'specs': specs, 'inputs': ins, 'words': words if kind == 'keywords' else None}


def case_job(case, g):
    pats = [{'p': spec_regex(s), 't': s['t']} for s in case['specs']]
    if g.get('one_alternation'):
        # ONE pattern whose own Thompson NFA is huge (a balanced alternation of all keywords)
        def bal(ws):
            if len(ws) == 1:
                return ws[0]
            h = len(ws) // 2
            return '(' + bal(ws[:h]) + '|' + bal(ws[h:]) + ')'
        pats = [{'p': bal(case['words']), 't': g.get('type_base', 0)}]
    elif g.get('case_insensitive'):
        # patterns that do not start with a plain literal
        base = [sp for sp in case['specs'] if sp['prefix'] in set(case['words'])]
        pats = [{'p': ''.join('(%s|%s)' % (ch, ch.upper()) for ch in sp['prefix']), 't': sp['t']} for sp in base]
    job = {'kind': 'c17_build', 'modes': [{'name': 'M', 'patterns': pats, 'transitions': []}],
           'inputs': [t for _, t in case['inputs']], 'high': g.get('high', 65536),
           'minlog_max_states': g.get('minlog_max_states', 0)}
    if g.get('join'):
        oracle = Oracle(case['specs'])
        job['expected'] = [oracle.stream(t) if c.endswith('_joined') else None for c, t in case['inputs']]
    return job


def short(s, n=120):
    return s if len(s) <= n else '%s...(%d chars)' % (s[:n], len(s))


# ----------------------------------------------------------------------------------------------

REAL_KEYWORDS = {'gen': 'keywords', 'alpha': 'abcdefg', 'len': 5, 'n': 13200, 'concats': 300, 'all_concat': True, 'join': 200,
                 'seed': 17, 'real_size': True}
_LETTERS = 'abcdefghijklmnopqrstuvwxyzABCDEFGHIJKLMNOPQRSTUVWXYZ0123456789'
# one pattern with more than 2^16 NFA states, and many patterns that do not start with a literal (> 2^16 NFA states in the mode)
REAL_ALTERNATION = {'gen': 'keywords', 'alpha': 'abcdefghijklmnopqrstuvwxyz', 'len': 3, 'n': 8400, 'concats': 50, 'join': 200,
                    'seed': 21, 'real_size': True, 'one_alternation': True}
REAL_NOCASE = {'gen': 'keywords', 'alpha': 'abcdefghijklmnopqrstuvwxyz', 'len': 3, 'n': 3700, 'concats': 50, 'join': 200,
               'seed': 22, 'real_size': True, 'case_insensitive': True}
REAL_CHAINS = {'gen': 'rep', 'seed': 18, 'real_size': True, 'less': [2, 7, 993],
               'patterns': [{'prefix': _LETTERS[i // 2] + 'xy'[i % 2], 'units': ['a', 'b'], 'min': 1000, 'max': 1000, 't': 100 + i}
                            for i in range(66)]}
PURE_REP = {'gen': 'rep', 'seed': 19, 'real_size': True,
            'patterns': [{'units': ['a'], 'min': 66000, 'max': 66000, 't': 7}]}


def enc_dfa_py(d):
    """The encoding Minimizer.enc_dfa prints: per state [accepting, token type, cc1, target1, ...], edges sorted."""
    out = []
    for es, f in zip(d['states'], d['end']):
        row = [1 if f[0] else 0, f[1]]
        for cc, t in sorted(set((e[0], e[1]) for e in es)):
            row += [cc, t]
        out.append(row)
    return out


class C17:
    ID = 'C17'
    LEVEL = 'proof'
    COQ_TARGETS = ['Properties/C17.vo']
    THEOREMS = [('Properties.C17', ['C17_group_width_ok', 'C17_state_width_resource', 'C17_ids_fit_usize', 'C17_casts_ok',
                                    'C17_size_independent', 'C17_minimizer_total', 'C17_nonvacuous',
                                    'C17_wrap_miscompiles'])]
    ASSUMPTIONS = [
        'resource assumption: the numbers of NFA states, subset states (minimizer input) and character classes of one '
        'scanner are below 2^32 = 2^state_id_bits (more than 100 GiB of states); C17_state_width_resource re-opens when '
        'the state id type is narrowed below 32 bits',
        'the Thompson and subset-construction stages are size-independent by inspection of the regenerated cast list: '
        'every `as` conversion in scnr/src is listed in lib/c17_casts.json and is either a widening, a conversion of a '
        'count that is below 2^state_id_bits by the resource assumption, a token-type conversion (independent of the '
        'automaton size; D9), or one of the two `as StateGroupIDBase` conversions, which the minimizer model reduces '
        'modulo 2^group_id_bits exactly where the code does',
        'the minimizer model (coq/Minimizer.v) corresponds to minimizer.rs: compared on recorded and random automata by '
        'C03 and on mid-size recorded pairs here, at the regenerated group-id width',
    ]
    TRUSTED_EXTRA = ['source translator ids.rs / cast sites -> coq/Gen/Ids.v (lib/prop_c17.py, regex based)',
                     'the longest-match oracle over keyword / bounded-repetition specifications (lib/prop_c17.py: Oracle)']
    RULE = ('quick: modes of 150..900 keywords (fixed and mixed length, optional identifier pattern, permuted token types) and '
            'bounded repetitions (a{n}, [ab]{n}, (ab|cd){m,n}x, several chains) with automata of a few hundred to a few thousand '
            'states, built with the debug harness (overflow checks and debug assertions on); inputs = every keyword, every '
            'keyword minus its last character, keyword concatenations; exact length, one unit less, one more, d less; each '
            'token stream is compared with the longest-match oracle computed from the pattern list (not from the automaton). '
            'thorough (and whenever an obligation of C17 is broken): the same with a release build at real size: 13 200 '
            'five-letter keywords over a 7-letter alphabet with distinct token types (66 001 states; checked in chunks of 200 '
            'blank-separated words, every 4-letter prefix, 300 concatenations, all words concatenated), and 66 chains '
            'L_i[xy][ab]{1000} (66 133 states; exact, 1/2/7/993 units less, one more, twice). non-trivial = distinct (pattern set, input) whose expected stream has a token or '
            'whose input is a proper prefix of an accepted word (expected: no token), in an automaton of >= 200 states')

    def __init__(self):
        self.widths = None
        self.cast_diff = None
        self.nsites = 0

    # ---------------- (A) ----------------
    def regen(self, out):
        aliases = read_aliases()
        sites = cast_sites() + width_sites()
        table = json.load(open(CASTS))
        text = gen_ids_text(aliases, sites, table)
        write_if_changed(GEN_IDS, text)
        self.widths = {short_: aliases[a] for a, _, short_ in ALIASES if short_}
        self.nsites = len(sites)
        self.sites_per_target = {}
        for s in sites:
            self.sites_per_target[s['target']] = self.sites_per_target.get(s['target'], 0) + 1
        found, tab = keyed(sites), table_keys(table)
        new = [k for k in found if k not in set(tab)]
        gone = [k for k in tab if k not in set(found)]
        self.cast_diff = {'new_or_changed': new, 'no_longer_present': gone}
        if new or gone:
            lines = {site_key(s): s['line'] for s in sites}
            out.broken.append({'what': 'cast sites of scnr/src differ from lib/c17_casts.json (obligation casts_modelled)',
                               'detail': {'new_or_changed': [{'site': k, 'line': lines.get(k.rsplit(' #', 1)[0])} for k in new],
                                          'no_longer_present': gone}})

    def suspect(self, out, compiled=None):
        """An obligation of this property no longer checks -> the failing-input search runs."""
        w = dict(self.widths or {})
        reasons = []
        for src, ww in (('ids.rs', w), ('compiled code', compiled or {})):
            if ww and ww.get('group', 99) < ww.get('state', 0):
                reasons.append('group id type (%d bits) narrower than state id type (%d bits) [%s]' % (ww['group'], ww['state'], src))
            if ww and ww.get('state', 99) < 32:
                reasons.append('state id type has %d < 32 bits [%s]' % (ww['state'], src))
        if self.cast_diff and (self.cast_diff['new_or_changed'] or self.cast_diff['no_longer_present']):
            reasons.append('cast sites changed')
        if any('Coq build' in b.get('what', '') or 'Print Assumptions' in b.get('what', '') for b in out.broken):
            reasons.append('Coq obligations do not build')
        return reasons

    # ---------------- (C) ----------------
    def quick_cases(self, rng, tier):
        cs = []
        mult = 1 if tier == 'quick' else 2
        cs.append({'gen': 'keywords', 'alpha': 'abcdefg', 'len': 3, 'n': 343, 'seed': rng.randrange(10 ** 6)})
        cs.append({'gen': 'keywords', 'alpha': 'abc', 'len': 5, 'n': 243, 'perm_types': True, 'type_base': 1000, 'seed': rng.randrange(10 ** 6)})
        cs.append({'gen': 'keywords', 'alpha': 'abcde', 'len': 4, 'n': 400 * mult, 'mixed': True, 'perm_types': True, 'seed': rng.randrange(10 ** 6)})
        cs.append({'gen': 'keywords', 'alpha': 'abcd', 'len': 5, 'n': 300 * mult, 'mixed': True, 'shuffle': True, 'ident': True, 'seed': rng.randrange(10 ** 6)})
        cs.append({'gen': 'keywords', 'alpha': 'abcdefg', 'len': 5, 'n': rng.randint(500, 900) * mult, 'shuffle': True, 'seed': rng.randrange(10 ** 6)})
        n1 = rng.randint(300, 700) * mult
        cs.append({'gen': 'rep', 'seed': rng.randrange(10 ** 6), 'less': [2, 256],
                   'patterns': [{'units': ['a'], 'min': n1, 'max': n1, 't': 7}]})
        n2 = rng.randint(300, 600) * mult
        cs.append({'gen': 'rep', 'seed': rng.randrange(10 ** 6), 'less': [2, 256],
                   'patterns': [{'units': ['a', 'b'], 'min': n2, 'max': n2, 't': 3}]})
        n3 = rng.randint(100, 200) * mult
        cs.append({'gen': 'rep', 'seed': rng.randrange(10 ** 6), 'less': [1, 16],
                   'patterns': [{'units': ['ab', 'cd'], 'min': n3 // 2, 'max': n3, 'suffix': 'x', 't': 5},
                                {'units': ['a', 'b', 'c', 'd'], 'min': n3, 'max': n3, 't': 2}]})
        k = rng.randint(8, 14)
        n4 = rng.randint(60, 120) * mult
        cs.append({'gen': 'rep', 'seed': rng.randrange(10 ** 6), 'less': [2, 17],
                   'patterns': [{'prefix': _LETTERS[i], 'units': ['a', 'b'], 'min': n4, 'max': n4, 't': 50 + i} for i in range(k)]})
        n5 = rng.randint(40, 90)
        cs.append({'gen': 'rep', 'seed': rng.randrange(10 ** 6), 'less': [1],
                   'patterns': [{'units': ['a'], 'min': n5, 'max': n5, 't': 1}, {'units': ['a'], 'min': n5 - 1, 'max': n5 - 1, 'suffix': 'b', 't': 0},
                                {'units': ['a', 'b'], 'min': 1, 'max': None, 't': 2}]})
        # mid-size pattern sets whose recorded minimizer pairs are also run through the Coq model
        mid = []
        for _ in range(1 if tier == 'quick' else 4):
            mid.append({'gen': 'keywords', 'alpha': 'abc', 'len': 4, 'n': rng.randint(30, 60), 'shuffle': True, 'perm_types': True, 'seed': rng.randrange(10 ** 6)})
            mid.append({'gen': 'keywords', 'alpha': 'abcd', 'len': 4, 'n': rng.randint(30, 60), 'mixed': True, 'ident': True, 'seed': rng.randrange(10 ** 6)})
            mid.append({'gen': 'keywords', 'alpha': 'abcdefg', 'len': 5, 'n': rng.randint(25, 45), 'shuffle': True, 'seed': rng.randrange(10 ** 6)})
            m1 = rng.randint(80, 160)
            mid.append({'gen': 'rep', 'seed': rng.randrange(10 ** 6), 'less': [2], 'patterns': [{'units': ['a'], 'min': m1, 'max': m1, 't': 4}]})
            m2 = rng.randint(100, 180)
            mid.append({'gen': 'rep', 'seed': rng.randrange(10 ** 6), 'less': [2], 'patterns': [{'units': ['a', 'b'], 'min': m2, 'max': m2, 't': 0}]})
            m3 = rng.randint(20, 40)
            mid.append({'gen': 'rep', 'seed': rng.randrange(10 ** 6), 'less': [2],
                        'patterns': [{'prefix': _LETTERS[i], 'units': ['a', 'b'], 'min': m3, 'max': m3, 't': 9 - i} for i in range(5)]})
            m4 = rng.randint(15, 30)
            mid.append({'gen': 'rep', 'seed': rng.randrange(10 ** 6), 'less': [1],
                        'patterns': [{'units': ['ab', 'cd'], 'min': m4, 'max': 2 * m4, 'suffix': 'x', 't': 1},
                                     {'units': ['a', 'b', 'c', 'd'], 'min': 3 * m4, 'max': 3 * m4, 't': 0}]})
        for c in mid:
            c['minlog_max_states'] = 260
        return cs + mid

    def run_cases(self, gens, rdir, name, out, release, stats, only_input=None):
        """Builds and tokenizes the cases, compares with the oracle. Returns the harness results."""
        cases = [make_case(g) for g in gens]
        if only_input is not None:
            for c in cases:
                c['inputs'] = [('replay', only_input)]
        jobs = [case_job(c, g) for c, g in zip(cases, gens)]
        t0 = time.time()
        results = run_harness(jobs, rdir, name, release=release, timeout=3000)
        stats.setdefault('wall_s', {})[name] = round(time.time() - t0, 1)
        for g, c, r in zip(gens, cases, results):
            label = {k: v for k, v in g.items() if k != 'patterns'}
            if g['gen'] == 'rep':
                label['patterns'] = [spec_regex(s) for s in c['specs']][:3] + (['... %d patterns' % len(c['specs'])] if len(c['specs']) > 3 else [])
            info = {'gen': label, 'build': r.get('build'), 'nstates': r.get('nstates'), 'build_ms': r.get('build_ms'),
                    'scan_ms': r.get('scan_ms'), 'inputs': len(c['inputs']), 'mis_tokenized': 0}
            stats['cases'].append(info)
            if r.get('harness_panic'):
                raise RuntimeError('harness panic: %s' % r['harness_panic'])
            if r.get('build') == 'panic':
                out.violations.append({'property': 'C17', 'what': 'building the scanner panicked: %s' % r.get('error'),
                                       'gen': g, 'release': release})
                continue
            if r.get('build') != 'ok':
                # "not at all": a reported error is an acceptable outcome for a large pattern set
                info['rejected'] = r.get('error', '')[:200]
                if not g.get('real_size'):
                    out.violations.append({'property': 'C17', 'what': 'a small supported pattern set was rejected: %s %s' % (r.get('build'), r.get('error')),
                                           'gen': g, 'release': release})
                else:
                    out.notes.append('real-size pattern set rejected with an error (acceptable): %s' % r.get('error', '')[:200])
                continue
            ns = (r.get('nstates') or [0])[0]
            oracle = Oracle(c['specs'])
            high_types = set(t for _, t in r.get('high_accepting', []))
            info['high_accepting_states'] = len(r.get('high_accepting', []))
            info['max_target'] = r.get('max_target')
            first = None
            high_checked = 0
            for idx, ((cls, text), got) in enumerate(zip(c['inputs'], r['streams'])):
                exp = oracle.stream(text)
                stats['evaluations'] += 1
                stats['input_classes'][cls] = stats['input_classes'].get(cls, 0) + 1
                if cls.startswith('keyword'):
                    info['keywords_checked'] = info.get('keywords_checked', 0) + len(exp)
                if cls.startswith('keyword') or cls == 'exact':
                    # words whose accepting state has an index >= 2^16 (`high`)
                    high_checked += sum(1 for e in exp if e[0] in high_types)
                if ns >= 200 and (exp or cls.startswith('minus')):
                    stats['nontrivial'].add(canon_hash([g, text]))
                if got != exp:
                    info['mis_tokenized_inputs'] = info.get('mis_tokenized_inputs', 0) + 1
                    diff = None
                    if isinstance(got, dict):
                        info['mis_tokenized'] += 1
                    else:
                        se, sg = set(map(tuple, exp)), set(map(tuple, got))
                        missing = sorted(se - sg, key=lambda e: e[1])
                        extra = sorted(sg - se, key=lambda e: e[1])
                        # one count per expected token that is not reported (+ spurious tokens where nothing was expected)
                        info['mis_tokenized'] += max(len(missing), 1) if (missing or not extra) else len(extra)
                        fe = missing[0] if missing else None
                        fa = extra[0] if extra else None
                        diff = {'first_expected_token_not_reported': list(fe) if fe else None,
                                'first_mis_tokenized_word': text[fe[1]:fe[2]] if fe else None,
                                'first_reported_token_not_expected': list(fa) if fa else None,
                                'its_text': text[fa[1]:fa[2]] if fa else None}
                    info.setdefault('mis_tokenized_by_input_class', {})
                    info['mis_tokenized_by_input_class'][cls] = info['mis_tokenized_by_input_class'].get(cls, 0) + (
                        1 if isinstance(got, dict) else (max(len(missing), 1) if (missing or not extra) else len(extra)))
                    if first is None:
                        # a chunk of words failed: name a single word that fails on its own, if there is one
                        for w, wgot in r.get('split', {}).get(str(idx), []):
                            wexp = oracle.stream(w)
                            if wgot != wexp:
                                cls, text, exp, got = cls.replace('_joined', ''), w, wexp, wgot
                                diff = {'found_in_chunk': idx}
                                break
                        first = {'property': 'C17',
                                 'what': ('the scanner panicked while tokenizing' if isinstance(got, dict) else
                                          'token stream differs from the longest-match rule') +
                                         ' (%s input, automaton of %d states, %s build)' % (cls, ns, 'release' if release else 'debug'),
                                 'gen': g, 'release': release, 'input_class': cls, 'input': text, 'first_difference': diff,
                                 'expected': exp[:50], 'actual': got if isinstance(got, dict) else got[:50], 'nstates': ns,
                                 'patterns_head': [spec_regex(s) + '#%d' % s['t'] for s in c['specs'][:5]]}
            info['words_with_high_accepting_state_checked'] = high_checked
            if first is not None:
                first['mis_tokenized_in_this_case'] = info['mis_tokenized']
                out.violations.append(first)
            if len(stats['samples']) < 3 and c['inputs']:
                cls, text = c['inputs'][0]
                stats['samples'].append({'patterns': [spec_regex(s) + '#%d' % s['t'] for s in c['specs'][:4]] + ['... (%d patterns)' % len(c['specs'])],
                                         'nstates': ns, 'input': short(text, 60), 'expected=actual': oracle.stream(text)[:3]})
        return results

    def minimizer_pairs(self, results, rdir, out, stats, limit):
        """Transcribed minimizer at the regenerated group-id width vs Minimizer::minimize on recorded pairs."""
        pairs = []
        for r in results:
            for a, b in r.get('minlog', []):
                if len(a['states']) >= 20:
                    pairs.append((a, b))
        pairs.sort(key=lambda p: -len(p[0]['states']))
        pairs = pairs[:limit]
        bits = self.widths['group']
        paths = []
        for n, (a, _) in enumerate(pairs):
            p = os.path.join(rdir, 'c17min_%03d.v' % n)
            with open(p, 'w') as f:
                f.write('From Scnr Require Import Base Automaton Minimizer.\nOpen Scope N_scope.\nSet Printing Depth 1000000.\nSet Printing Width 1000000.\n')
                f.write('Eval vm_compute in [\n (minimize_enc %d %s)].\n' % (bits, dfa_term(a).replace('mk_dfa', 'mk_dfa_min')))
            paths.append(p)
        outs = coq_eval_files(paths, timeout=600)
        agree = 0
        for (a, b), (rc, o), p in zip(pairs, outs, paths):
            if rc != 0:
                out.broken.append({'what': 'coqc failed on %s' % p, 'detail': o[-2000:]})
                continue
            v = parse_coq_value(o)[0]
            if v == enc_dfa_py(b):
                agree += 1
            else:
                out.broken.append({'what': 'correspondence: transcribed minimizer (group_bits = %d) differs from Minimizer::minimize' % bits,
                                   'detail': {'input_states': len(a['states']), 'file': p}})
        stats['minimizer_model_comparisons'] = len(pairs)
        stats['minimizer_model_agree'] = agree
        stats['minimizer_model_sizes'] = [len(a['states']) for a, _ in pairs]
        stats['evaluations'] += len(pairs)

    def explore(self, rng, tier, rdir, out, replay=None):
        stats = {'evaluations': 0, 'nontrivial': set(), 'samples': [], 'cases': [], 'input_classes': {}}
        # widths: source text vs compiled code
        compiled = run_harness([{'kind': 'ids'}], rdir, 'ids')[0]
        compiled = {k: compiled.get(k) for k in ('state', 'class', 'terminal', 'group')}
        if self.widths is None:
            self.regen(out)
        if compiled != self.widths:
            out.broken.append({'what': 'translator: id widths read from ids.rs differ from the compiled code',
                               'detail': {'ids.rs': self.widths, 'compiled': compiled}})
        reasons = self.suspect(out, compiled)
        if replay:
            payload = json.load(open(replay))
            if 'gen' not in payload:
                out.notes.append('the replay file names no concrete case (broken obligation); running the normal check')
            else:
                rel = bool(payload.get('release'))
                if rel:
                    ok, log = build_harness(release=True)
                    if not ok:
                        raise RuntimeError('release harness does not build: ' + log[-1500:])
                self.run_cases([payload['gen']], rdir, 'replay', out, rel, stats, only_input=payload.get('input'))
                return self.finish(stats, reasons)
        gens = self.quick_cases(rng, tier)
        results = self.run_cases(gens, rdir, 'scaled', out, False, stats)
        self.minimizer_pairs(results, rdir, out, stats, 10 if tier == 'quick' else 40)
        if tier == 'thorough' or reasons:
            if reasons:
                out.notes.append('failing-input search at real size because: ' + '; '.join(reasons))
            ok, log = build_harness(release=True)
            if not ok:
                out.broken.append({'what': 'release harness does not build', 'detail': log[-3000:]})
            else:
                real = [dict(REAL_KEYWORDS), dict(REAL_ALTERNATION), dict(REAL_NOCASE)]
                if tier == 'thorough':
                    real.append(dict(REAL_CHAINS))
                    if os.environ.get('VERIF_C17_PURE_REP'):
                        real.append(dict(PURE_REP))
                res = self.run_cases(real, rdir, 'real', out, True, stats)
                stats['real_size'] = [{'nstates': r.get('nstates'), 'build': r.get('build'), 'build_ms': r.get('build_ms'),
                                       'minimizer_sizes': r.get('minimizer_sizes'), 'accepting_states': r.get('naccepting'),
                                       'accepting_states_with_index_ge_2^16': len(r.get('high_accepting', [])),
                                       'largest_edge_target': r.get('max_target')} for r in res]
        return self.finish(stats, reasons)

    def finish(self, stats, reasons):
        nt = len(stats.pop('nontrivial'))
        stats['distinct_nontrivial'] = nt
        stats['rule'] = self.RULE
        stats['widths_read'] = self.widths
        stats['cast_sites'] = self.nsites
        stats['cast_sites_per_target'] = getattr(self, 'sites_per_target', {})
        stats['cast_sites_diff'] = self.cast_diff
        stats['obligation_suspects'] = reasons
        stats['mis_tokenized_total'] = sum(c.get('mis_tokenized', 0) for c in stats['cases'])
        stats['pure_repetition_note'] = (
            'a single repetition a{n} builds in time quadratic in n (release: a{8000} 11 s; a{66000} measured once: 21 min build, '
            '66 001 states, tokenized per oracle on a^66000, a^65999, a^464 (= 2^16 less) and a^66001): infeasible inside the tier '
            'budget, so the 2^16 boundary is crossed by 66 chains L_i[xy][ab]{1000} (66 133 states, all 66 accepting states and '
            'the last levels of every chain have an index >= 2^16); VERIF_C17_PURE_REP=1 adds a{66000} to the thorough tier')
        return stats


PROPS = {'C17': C17}
