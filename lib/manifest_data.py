HOOK_COMMITS = ['43c909d']
NOT_APPLICABLE = {}
CHECKS = {
 'C05': {
  'text': 'Coq theorem C05_selection (for every class predicate, every mode automaton with lookahead automata, every haystack: '
          'find_from does not panic, returns None iff no candidate exists, otherwise span and type of one candidate that is '
          'maximal in extent then priority), proved by induction on the haystack over a Gallina transcription of '
          'CompiledDfa::find_from/satisfies_lookahead. The transcription is tied to the code on every run by evaluating it with '
          'vm_compute on the automata the implementation compiled (dumped through hooks) for generated configurations, inputs '
          'and histories and comparing with the implementation; the implementation is additionally compared with an '
          'automaton-independent specification evaluated on the parsed pattern ASTs.',
  'design_ref': 'DESIGN.md section 7, C05',
  'note': 'Trusted: Coq kernel + vm_compute; Python translators and differ; harness and read-only hooks; class predicates are '
          'observed per case; regex_syntax parser outside the model. Assumes distinct token types inside a mode (D8) and '
          'token types < 2^32 (D9).',
  'technique': 'Rocq proof (induction, invariant over find_from loop) + differential correspondence model/implementation/specification',
 },
}
