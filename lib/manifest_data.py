HOOK_COMMITS = ['43c909d']
NOT_APPLICABLE = {}
CHECKS = {
 'C05': {
  'text': 'Coq theorem C05_selection (for every class predicate, every mode automaton with lookahead automata, every haystack: '
          'find_from does not panic, returns None iff no candidate exists, otherwise span and type of one candidate that is '
          'maximal in extent then priority), proved by induction on the haystack over a Gallina transcription of '
          'CompiledDfa::find_from/satisfies_lookahead. The transcription is tied to the code on every run by evaluating it with '
          'vm_compute on the automata the implementation compiled (dumped through hooks) for generated configurations, inputs '
          'and histories and comparing with the implementation; the implementation is additionally compared with an '
          'automaton-independent specification evaluated on the parsed pattern ASTs.',
  'design_ref': 'DESIGN.md section 7, C05',
  'note': 'Trusted: Coq kernel + vm_compute; Python translators and differ; harness and read-only hooks; class predicates are '
          'observed per case; regex_syntax parser outside the model. Assumes distinct token types inside a mode (D8) and '
          'token types < 2^32 (D9).',
  'technique': 'Rocq proof (induction, invariant over find_from loop) + differential correspondence model/implementation/specification',
 },
 'C02': {
  'text': 'For every program (mode or lookahead pattern) explored, a Coq theorem "for ALL non-empty words over the minterm alphabet the '
          'compiled automaton accepts token type t iff a pattern of type t matches the whole word" is generated from the automaton the '
          'implementation compiled and Qed-checked by coqc, by running the verified decision procedure equiv_check (product of '
          'Brzozowski derivative vectors and state sets) with vm_compute; its soundness (C02_checker_sound) and the lifting from the '
          'minterm alphabet to all Unicode scalar values (C02_all_strings) are proved once for all automata and patterns. The empty '
          'word and registered classes are per-dump checks with generic theorems. Strings are unbounded; the set of programs is sampled, '
          'as the property quantifies. GENERIC growth, proved: C02_compile_mode_correct — for every list of supported pattern ASTs the Gallina '
          'transcription of the whole compiler (Thompson construction nfa.rs, multi-pattern closure construction multi_pattern_nfa.rs/compiled_dfa.rs, '
          'minimizer.rs) yields an automaton accepting exactly the pattern languages for every non-empty word, never the empty word, without panic; '
          'that transcription is compared on every run with the automata the implementation compiled (state for state).',
  'design_ref': 'DESIGN.md section 7, C02 and section 11',
  'note': 'Trusted: Coq kernel + vm_compute; the minterm partition of all 1,112,064 scalar values computed by the Rust harness from '
          'the implementation\'s class predicate and from one-pattern scanners of every leaf; Python translation of dumps and ASTs to '
          'Coq terms; hooks; regex_syntax parser outside the model.',
  'technique': 'Rocq-verified decision procedure run in the kernel per compiled automaton (certified translation validation) + generic soundness/lifting theorems',
 },
 'C03': {
  'text': 'Generic Coq theorem C03_minimize_preserves: for every automaton (deterministic or not) with at most 2^group_bits states the '
          'Gallina transcription of minimizer.rs returns an automaton accepting the same token types for every word, with state 0 '
          'mapped to state 0 and no more states (proved by partition invariants, stability at loop exit and a quotient/bisimulation '
          'lemma). Tie to the code: every (input,output) pair the real minimizer produced while building the explored programs gets '
          'its own Qed-checked theorem "same accepted token types for all words" by the verified checker aut_equiv_check, and the '
          'transcription is compared with the real minimizer on the same inputs.',
  'design_ref': 'DESIGN.md section 7, C03',
  'note': 'Trusted: Coq kernel + vm_compute; minterm partition from the exhaustive sweep; Python translation; hooks.',
  'technique': 'Rocq proof of the transcribed minimizer (quotient theorem) + per-pair kernel-checked equivalence certificates',
 },
 'C06': {
  'text': 'Coq theorems for every scanner satisfying sc_ok (proved for all valid compiled modes), every input and every reachable iterator state (RInv, preserved by every operation, so for every call history): the token next returns is the match of the CURRENT mode at its start position; afterwards the mode is the transition target of its type in that mode or unchanged; peek_n returns the same state; set_mode takes effect for the next token; a fresh iterator is in mode 0 whatever was set on the Scanner; has_transition equals association lookup on strictly sorted transitions. The Gallina transcription of FindMatchesImpl/ScannerImpl is tied to the code on every run by evaluating it with vm_compute on the dumped automata for generated mode graphs and histories, and the implementation is also compared with the same iterator driven by the automaton-independent specification.',
  'design_ref': 'DESIGN.md section 7, C06',
  'note': 'Trusted: Coq kernel + vm_compute; Python translators and differ; harness and read-only hooks; class/leaf predicates observed per case; regex_syntax parser outside the model. Assumes valid configurations (>= 1 mode, strictly sorted transitions to existing modes), distinct token types inside a mode (D8), token types < 2^32 (D9).',
  'technique': 'Rocq proof (refinement of the iterator state machine, invariant by induction over histories) + differential correspondence',
 },
 'C07': {
  'text': 'Coq theorems for every valid configuration, input and history: every reported span is non-empty, inside the input, on character boundaries, ordered; at most one token per remaining character; None is sticky; no history of valid operations panics (all Rust panic sites of the transcribed code are explicit Panic outcomes of the model: slice on non-boundary, index out of range, debug_assert!, unwrap). Tied to the code by the differential correspondence under catch_unwind in a build with debug assertions and overflow checks.',
  'design_ref': 'DESIGN.md section 7, C07',
  'note': 'Trusted: Coq kernel + vm_compute; Python translators and differ; harness and read-only hooks; class/leaf predicates observed per case; regex_syntax parser outside the model. Assumes valid configurations (>= 1 mode, strictly sorted transitions to existing modes), distinct token types inside a mode (D8), token types < 2^32 (D9).',
  'technique': 'Rocq proof (invariant + totality by induction over histories) + differential correspondence under catch_unwind',
 },
 'C10': {
  'text': 'Coq theorems: set_offset(o) on a boundary/beyond puts the cursor at min(o,len) keeping the mode; the tokens afterwards are the abstract scan of the suffix from there in the current mode and do not depend on the earlier history (two arbitrary reachable states with the same input and mode agree after the reset); advance_to(p) with p a boundary beyond the cursor lands exactly on p (the ends of peeked matches are such boundaries), and is a no-op when p is not beyond the cursor. Tied to the code by the differential correspondence on histories mixing resets, peeks, advance_to(end of peeked match) and mode changes.',
  'design_ref': 'DESIGN.md section 7, C10',
  'note': 'Trusted: Coq kernel + vm_compute; Python translators and differ; harness and read-only hooks; class/leaf predicates observed per case; regex_syntax parser outside the model. Assumes valid configurations (>= 1 mode, strictly sorted transitions to existing modes), distinct token types inside a mode (D8), token types < 2^32 (D9).',
  'technique': 'Rocq proof (refinement to an abstract scan over the suffix) + differential correspondence',
 },
 'C11': {
  'text': 'Coq theorems: peek_n(n) equals n iterated next calls cut after the first token with a transition in the current mode (target reported, not entered) or at the end of input; the outcome classification; totality; the state after peek_n is the state before, so no later call is affected (the Rust scratch vectors are cleared at entry of find_from and are not model state). Tied by differential correspondence with peek_n at every point of generated histories.',
  'design_ref': 'DESIGN.md section 7, C11',
  'note': 'Trusted: Coq kernel + vm_compute; Python translators and differ; harness and read-only hooks; class/leaf predicates observed per case; regex_syntax parser outside the model. Assumes valid configurations (>= 1 mode, strictly sorted transitions to existing modes), distinct token types inside a mode (D8), token types < 2^32 (D9).',
  'technique': 'Rocq proof (peek loop = iterated next, by induction on n) + differential correspondence',
 },
 'C12': {
  'text': 'PARTIAL, stated: Coq theorem C12_isolation (in any interleaving of operations on any number of iterators the outputs of iterator i are those of its own operations run alone; panicking iterators included) plus independence of the past after a reset and of the Scanner mode for fresh iterators. In the functional model iterators share nothing by construction; the state that outlives a call inside one iterator, the scratch vectors of CompiledDfa, is modelled explicitly (Scratch.v) and proved irrelevant (C12_scratch_irrelevant, C12_calls_independent; false without the clearing at entry: C12_without_clearing_refuted). That an iterator owns all its state (fields of Scanner/ScannerImpl/CompiledScannerMode/CompiledDfa/CompiledLookahead/FindMatchesImpl are exactly the modelled ones, no interior mutability, only the immutable registry and predicate are Arc-shared, find_iter clones, the constructor resets the mode, find_from clears its scratch at entry) is read off the source into Gen/IsolationFacts.v on every run (C12_source_premises). What remains (no aliasing through &mut, cache-shared compilation) is VALIDATED by the correspondence: generated worlds of 2-3 interleaved iterators, scanners through the cache, set_mode on the Scanner, dropped iterators; each iterator is compared with the model run of its own projection.',
  'design_ref': 'DESIGN.md section 7, C12',
  'note': 'Trusted: Coq kernel + vm_compute; Python translators and differ; harness and read-only hooks; class/leaf predicates observed per case; regex_syntax parser outside the model. Assumes valid configurations (>= 1 mode, strictly sorted transitions to existing modes), distinct token types inside a mode (D8), token types < 2^32 (D9).',
  'technique': 'Rocq proof of isolation and scratch-irrelevance in the model + source-fact obligations + differential correspondence on interleaved worlds',
 },
 'C08': {
  'text': 'Coq theorem C08_eval_is_set_algebra: for every class AST and every character the Gallina transcription of match_function.rs (negation flag threading included) equals the textbook set algebra over its items; literal, dot, inclusive ranges, negation-as-complement, operators; C08_eval_congr justifies evaluating one representative per block. Tied to the code exhaustively in the character domain: for every generated or corpus class the implementation is observed on ALL 1,112,064 scalar values, partitioned into blocks by (named-item membership, literal/range endpoints), checked constant per block, and compared with the Coq evaluation at one representative per block; named items are observed used alone; the ASCII claims for \\d \\s \\w are enumerated.',
  'design_ref': 'DESIGN.md section 7, C08',
  'note': 'Trusted: Coq kernel + vm_compute; Python partition/translation; harness; named sets (Unicode tables) are observed oracles, not verified; regex_syntax parser outside the model.',
  'technique': 'Rocq proof (structural induction over the class AST) + exhaustive per-class sweep of all scalar values',
 },
 'C15': {
  'text': 'Coq theorems over the AST mirror and a Gallina transcription of Nfa::try_from_ast with every panic site explicit: the construction never panics (invariant: ids are indices, out-degree <= 2, end state has no outgoing edge), an unsupported construct (flags, assertion, non-greedy repetition, flagged group) at ANY depth of any pattern or lookahead of any mode, a syntax error, or an unknown/valued Unicode class at any nesting depth makes the build outcome Rejected, and configurations made only of supported constructs build; the Unicode name table is regenerated from match_function.rs on every run. Tied to the code by comparing, for token-level random strings and structured patterns with one planted unsupported construct in any position of any mode or lookahead, the outcome of build() and build_uncached() (under catch_unwind) with the model outcome on the AST the crate itself parsed, and the model NFA with the real NFA state by state. Covered by proved models: Nfa::try_from_ast, the minimizer (C03), the class-table decision; multi_pattern_nfa.rs, the closure construction and resource exhaustion are observed only.',
  'design_ref': 'DESIGN.md section 7, C15',
  'note': 'Trusted: Coq kernel + vm_compute; regex_syntax parser (string -> AST) is outside the model; translator of the Unicode name table; harness/hooks. Resource exhaustion (huge repetition counts, > 2^32 states) excluded.',
  'technique': 'Rocq proof (invariant of the Thompson construction; structural induction over the AST) + differential on build outcomes and NFA dumps',
 },
 'C18': {
  'text': 'Coq theorem C18_render_faithful: for every well-formed automaton with lookaheads and every label-safe class text, extracting the graph (nodes, accepting labels with token type, edges with class id, clusters with token type and polarity) from the rendered DOT text gives back exactly the automaton; one file per mode with injective names. C18_accepting_labels_exact: when state 0 does not accept (proved for the pipeline model, C18_compiled_start_not_accepting, and checked on every dumped automaton of every run) the accepting labels are exactly the accepting states with their token types. Tied to the code by feeding the REAL files written by generate_compiled_automata_as_dot to the verified extractor inside Coq and comparing with the dumped automaton (clusters as a set), for generated configurations incl. labels needing escapes and mode names with quotes/newlines; fault part (missing folder, path below a file, unwritable file system) observed: Err, never a panic.',
  'design_ref': 'DESIGN.md section 7, C18',
  'note': 'Trusted: Coq kernel + vm_compute; dot_writer text layout and the file system are modelled/observed; Python translation of files to Coq terms; hooks. Non-UTF-8 target paths are out of scope (to_str().unwrap()); read-only directories cannot be exercised as root.',
  'technique': 'Rocq proof (printer/extractor round trip) + extraction of the real files inside Coq + fault enumeration',
 },
 'C01': {
  'text': 'Coq theorem C01_longest_match_first_pattern: for every mode automaton without lookaheads that accepts exactly its pattern languages (lang_equiv, which C01_lang_equiv_from_certificate derives from the kernel-checked C02 certificate of that very automaton), and every haystack: find_from returns None iff no pattern matches a non-empty prefix, otherwise the token ends after the LONGEST prefix some pattern matches in full and its type is that of the FIRST listed pattern matching that prefix; C01_stream_is_iterated_rule: the token stream from any reachable state is the iteration of that rule with one character skipped where nothing matches, spans absolute. CAPSTONE C01_compiled_scanner_is_specification (Properties/C01c.v): a scanner built from source patterns by the model of the whole pipeline (Thompson, multi-pattern NFA, closure construction, minimizer; lookaheads likewise) gives, for EVERY history of next/peek/advance_to/set_offset/mode switches/position queries, exactly the outputs of the iterator driven by the specification over the regular expressions of the patterns; no per-automaton certificate is involved, the pipeline model is compared with the dumped automata on every run (C02/C03/C15). Tie to the code: differential correspondence (implementation vs model on dumped automata vs declarative specification on the parsed ASTs) over generated pattern sets incl. all priority orders, plus C02 certificates for a subset of the explored configurations discharging lang_equiv.',
  'design_ref': 'DESIGN.md section 7, C01',
  'note': 'Trusted: Coq kernel + vm_compute; Python translators and differ; harness and read-only hooks; class/leaf predicates observed (exhaustive sweep for the certificates, per case for the differential); regex_syntax parser outside the model. Excluded by visible hypothesis and recorded as known findings: duplicate token types inside a mode (D8), token types >= 2^32 (D9).',
  'technique': 'Rocq proof (selection theorem + refinement to the declarative rule) + per-automaton certificates + differential correspondence',
 },
 'C04': {
  'text': 'Coq theorems for every mode automaton with lookahead automata accepting exactly their patterns (per-automaton C02 certificates): a reported token is a full match of a pattern of its type (never including lookahead text) whose lookahead condition (positive: some non-empty prefix of the rest matches; negative: none; at end of input positive fails, negative holds) is satisfied; conversely a token is reported whenever some pattern matches with satisfied lookahead; after the token the cursor is its end so the lookahead text is scanned again; all of it in every reachable iterator state, i.e. for every start offset incl. after set_offset/with_offset. Tie: differential correspondence with all boundary start offsets, certificates for main and lookahead automata of a subset of the explored configurations.',
  'design_ref': 'DESIGN.md section 7, C04',
  'note': 'Trusted: Coq kernel + vm_compute; Python translators and differ; harness and read-only hooks; class/leaf predicates observed (exhaustive sweep for the certificates, per case for the differential); regex_syntax parser outside the model. Excluded by visible hypothesis and recorded as known findings: duplicate token types inside a mode (D8), token types >= 2^32 (D9).',
  'technique': 'Rocq proof (gating and completeness from the selection theorem) + per-automaton certificates + differential correspondence',
 },
 'C13': {
  'text': 'Coq theorem C13_transparent: for every history of builds through the cache model (association list keyed by the WHOLE configuration with proved-correct structural equality) the results equal the uncached compile of each configuration and a failing build leaves the cache unchanged; near-identical configurations (one field changed, every field kind) are distinct keys. The premises read from the source (PartialEq/Eq/Hash derived on ScannerMode/Pattern/Lookahead with exactly the modelled fields) are regenerated into Coq obligations on every run. Tie: histories of 5-40 builds per process mixing equal, near-identical, unrelated and failing configurations; cached vs uncached compared on outcome, canonical dump and token streams, and with the model run on the same history. That compilation is a function of the configuration is observed, not proved.',
  'design_ref': 'DESIGN.md section 7, C13',
  'note': 'Trusted: Coq kernel; the source translator (regexes over scanner_cache.rs, scanner_builder.rs, pattern.rs, scanner_mode.rs); harness; determinism of compilation observed.',
  'technique': 'Rocq proof (cache invariant by induction over build histories) + source-fact obligations + differential on build histories',
 },
 'C14': {
  'text': 'PARTIAL, stated. Proved: C14_any_schedule — every interleaving of atomic build steps of N threads gives each thread the results of its own builds run sequentially (corollary of C13). The atomicity premise (build takes the exclusive lock across lookup+insert) and Send+Sync are checked from the source / by a compile-time assertion on every run. OBSERVED, not proved: data races on the unsafe Arc::as_ptr deref, lock poisoning, deadlock — (a) a multi-threaded program over the real crate run under Miri (harness_miri, cargo +nightly miri run, 1 scheduling seed quick / 8 thorough: data races and undefined behaviour on the executed schedules are detected by the interpreter, results compared with a sequential run), (b) a stress run of 2-16 threads (builds: hits, misses, failing; scans on shared and private scanners) under a watchdog, each thread compared with a sequential reference run.',
  'design_ref': 'DESIGN.md section 7, C14',
  'note': 'Trusted: as C13; the thread schedules actually exercised are those the OS produces; no memory-model reasoning.',
  'technique': 'Rocq proof of the locking protocol + source-fact obligations + Miri run and multi-threaded stress run (observed)',
 },
 'C09': {
  'text': 'Coq theorems over the iterator model with a ghost frontier F (furthest cursor position reached): invariant LInv (the line vector is sorted, contains only true line starts and every true line start below F; last_char is the character before the cursor or 0 after exhaustion) holds initially and is preserved by every operation of every history whose resets go to already scanned offsets; hence position(o) = (1 + number of \\n before o, byte column) for every o < F and for o = F unless F is a not yet recorded line start (then the column after the line break on the line of the break), and every MatchExt has the exact start position and an end position of one of the two allowed forms; after exhaustion every offset is exact. Tie: differential correspondence on WithPositions histories plus an independent position oracle computed from the input text.',
  'design_ref': 'DESIGN.md section 7, C09',
  'note': "Trusted: Coq kernel + vm_compute; Python translators/differ/oracle; harness and hooks. Domain: resets only to already scanned offsets (the property's quantifier; a forward reset beyond the frontier gives wrong line numbers, recorded as Example C09_ex_forward_reset). Columns are byte columns.",
  'technique': 'Rocq proof (invariant with ghost frontier, by induction over histories) + differential correspondence + independent oracle',
 },
 'C16': {
  'text': "Coq theorems about a model of the serde/serde_json layout of scnr's types: parse_config (print_config cfg) = Some cfg for every configuration (also with the 64/32-bit ranges), the same for Match, MatchExt, Span, Position, injectivity of the printer, the README text parses to the expected configuration. This is a theorem about the MODEL of a library layout; the tie to the real derives is checked on every run: serde_json::to_string is compared character for character with print_config evaluated in Coq, the model reader is run on the REAL serde text, from_str(to_string(x)) == x is asserted in Rust, hand-written layout variants and malformed texts are compared between serde and the model reader, and the scanners built before and after the round trip are compared on dumps and token streams.",
  'design_ref': 'DESIGN.md section 7, C16',
  'note': 'Trusted: Coq kernel + vm_compute; serde, serde_derive, serde_json are modelled, not verified; UTF-8 encoding outside the model; Python variant writer; harness.',
  'technique': 'Rocq proof (printer/parser round trip of the modelled layout) + byte-for-byte differential against serde_json',
 },
 'C17': {
  'text': 'Coq theorem C17_size_independent: the transcribed minimizer (whose `as StateGroupIDBase` conversions are modelled as mod 2^group_bits) preserves the accepted token types for every automaton with fewer than 2^state_id_bits states, from C03_minimize_preserves_N and the obligation C17_group_width_ok : state_id_bits <= group_id_bits; the widths and the list of every integer cast site of scnr/src are REGENERATED from the source on every run (Gen/Ids.v; C17_casts_ok fails when a cast site appears or changes), so narrowing an id type or adding a truncating cast re-opens a proof obligation; C17_wrap_miscompiles shows the width hypothesis is necessary. When an obligation breaks the check searches a failing input with the real size run (13 200 distinct five-letter keywords, 66 001 states, release build). Tie otherwise: scaled pattern sets (hundreds to thousands of states) against an automaton-independent longest-match oracle, recorded minimizer pairs against the model, and in the thorough tier the real >2^16-state keyword and repetition sets.',
  'design_ref': 'DESIGN.md section 7, C17',
  'note': 'Trusted: Coq kernel; the source translator (type aliases, cast sites; table lib/c17_casts.json); harness; number of states < 2^32 is a resource assumption; the Thompson and closure stages are size-independent by inspection of the cast list (and by the generic compile theorems over nat ids).',
  'technique': 'Rocq proof (minimizer theorem + width/cast obligations regenerated from source) + real-size differential run',
 },
}
