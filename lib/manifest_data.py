HOOK_COMMITS = ['43c909d']
NOT_APPLICABLE = {}
CHECKS = {
 'C05': {
  'text': 'Coq theorem C05_selection (for every class predicate, every mode automaton with lookahead automata, every haystack: '
          'find_from does not panic, returns None iff no candidate exists, otherwise span and type of one candidate that is '
          'maximal in extent then priority), proved by induction on the haystack over a Gallina transcription of '
          'CompiledDfa::find_from/satisfies_lookahead. The transcription is tied to the code on every run by evaluating it with '
          'vm_compute on the automata the implementation compiled (dumped through hooks) for generated configurations, inputs '
          'and histories and comparing with the implementation; the implementation is additionally compared with an '
          'automaton-independent specification evaluated on the parsed pattern ASTs.',
  'design_ref': 'DESIGN.md section 7, C05',
  'note': 'Trusted: Coq kernel + vm_compute; Python translators and differ; harness and read-only hooks; class predicates are '
          'observed per case; regex_syntax parser outside the model. Assumes distinct token types inside a mode (D8) and '
          'token types < 2^32 (D9).',
  'technique': 'Rocq proof (induction, invariant over find_from loop) + differential correspondence model/implementation/specification',
 },
 'C02': {
  'text': 'For every program (mode or lookahead pattern) explored, a Coq theorem "for ALL non-empty words over the minterm alphabet the '
          'compiled automaton accepts token type t iff a pattern of type t matches the whole word" is generated from the automaton the '
          'implementation compiled and Qed-checked by coqc, by running the verified decision procedure equiv_check (product of '
          'Brzozowski derivative vectors and state sets) with vm_compute; its soundness (C02_checker_sound) and the lifting from the '
          'minterm alphabet to all Unicode scalar values (C02_all_strings) are proved once for all automata and patterns. The empty '
          'word and registered classes are per-dump checks with generic theorems. Strings are unbounded; the set of programs is sampled, '
          'as the property quantifies.',
  'design_ref': 'DESIGN.md section 7, C02',
  'note': 'Trusted: Coq kernel + vm_compute; the minterm partition of all 1,112,064 scalar values computed by the Rust harness from '
          'the implementation\'s class predicate and from one-pattern scanners of every leaf; Python translation of dumps and ASTs to '
          'Coq terms; hooks; regex_syntax parser outside the model.',
  'technique': 'Rocq-verified decision procedure run in the kernel per compiled automaton (certified translation validation) + generic soundness/lifting theorems',
 },
 'C03': {
  'text': 'Generic Coq theorem C03_minimize_preserves: for every automaton (deterministic or not) with at most 2^group_bits states the '
          'Gallina transcription of minimizer.rs returns an automaton accepting the same token types for every word, with state 0 '
          'mapped to state 0 and no more states (proved by partition invariants, stability at loop exit and a quotient/bisimulation '
          'lemma). Tie to the code: every (input,output) pair the real minimizer produced while building the explored programs gets '
          'its own Qed-checked theorem "same accepted token types for all words" by the verified checker aut_equiv_check, and the '
          'transcription is compared with the real minimizer on the same inputs.',
  'design_ref': 'DESIGN.md section 7, C03',
  'note': 'Trusted: Coq kernel + vm_compute; minterm partition from the exhaustive sweep; Python translation; hooks.',
  'technique': 'Rocq proof of the transcribed minimizer (quotient theorem) + per-pair kernel-checked equivalence certificates',
 },
}
