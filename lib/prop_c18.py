"""C18 — the DOT export is a faithful picture of the compiled automata.

Proof part: Properties/C18.v (Dot.v, DotProofs.v): for every automaton with lookaheads and every
label-safe class text table, reading the rendered file back (`extract`) yields exactly the graph
of the automata (`dotfile_of`); file names are <folder>/<prefix>_<mode name>.dot, one per mode.

Tie to the implementation (this file + harness/src/c18.rs):
  gate   (a) the set of files written by generate_compiled_automata_as_dot = `file_names` of the
             model (evaluated in Coq) for the mode names of the scanner;
         (b) every real file, as a list of lines of scalar values, is read back in Coq by
             `extract_enc` and compared with `enc_dotfile (dotfile_of M)`, M built by `mk_dfa_dot`
             from the dump of the compiled automata (clusters compared as a set, edges as a
             multiset: the Rust code iterates a hash map, and the order of statements in a DOT
             file carries no meaning); the graph title must be a well-formed quoted string
             (`text_ok`);
         (d) fault part: unwritable target folders give Err, never a panic;
  stat   (c) `render` of the model (title and class texts as dot.rs computes them, clusters in
             the order of the real file) equals the real file line by line: `model_text_match`
             (not a gate: a change of layout that keeps the graph is not an alarm);
         an independent reading of every real file with the DOT grammar (dot_grammar_ok)."""
import json, os, re
from common import *
import gen, corpus
from driver import load_known, hist

HEADER18 = ('From Scnr Require Import Base Automaton Dot.\n'
            'Open Scope N_scope.\nSet Printing Depth 1000000.\nSet Printing Width 1000000.\n'
            'Fixpoint lines_eqb (a b:list (list N)) : bool :=\n'
            '  match a, b with [], [] => true | x :: a\', y :: b\' => nlist_eqb x y && lines_eqb a\' b\' | _, _ => false end.\n'
            '(* class text table of dot.rs: escape_debug of the printed class, "-" for an unregistered id *)\n'
            'Definition ct (tbl:list (list N)) (c:N) : list N := nth (N.to_nat c) tbl [45].\n'
            'Definition title_ok (L:list (list N)) : bool :=\n'
            '  match parse_line (nth 1%nat L []) with Some (LLabel _ t) => text_ok t | _ => false end.\n'
            '(* index of the first line that is not a line of the format (number of lines if all are) *)\n'
            'Fixpoint first_bad (L:list (list N)) : N :=\n'
            '  match L with [] => 0 | l :: L\' => match parse_line l with None => 0 | Some _ => 1 + first_bad L\' end end.\n'
            'Definition c18_case (L tbl:list (list N)) (title:list N) (M Mf:dfa * list (N * (bool * dfa)))\n'
            '  : list (list N) * list (list N) * list bool * N :=\n'
            '  (extract_enc L, enc_dotfile (dotfile_of M),\n'
            '   [wf_dot M; label_safeb (ct tbl) M; title_ok L; lines_eqb (render title (ct tbl) Mf) L], first_bad L).\n')


# ----------------------------------------------------------------------------------------------
# terms

def nlist(s):
    return clist([str(ord(c)) for c in s])


def dfa18(d):
    tr = clist([clist(['(%d, %d)' % (e[0], e[1]) for e in s]) for s in d['states']])
    fi = clist(['(%s, %d)' % (cbool(e[0]), e[1]) for e in d['end']])
    return '(mk_dfa_dot %s %s)' % (tr, fi)


def mode18(d, las):
    return '(%s, %s)' % (dfa18(d), clist(['(%d, (%s, %s))' % (l[0], cbool(l[1]), dfa18(l[2])) for l in las]))


def lines_of(text):
    ls = text.split('\n')
    if ls and ls[-1] == '':
        ls.pop()
    return ls


# ----------------------------------------------------------------------------------------------
# the flat encoding of Dot.v (enc_dotfile) -> canonical Python value

def decode_enc(enc):
    """None if extraction failed ([[0]]); else (main, clusters), graph = (nodes, sorted edges),
    clusters sorted by token type."""
    if enc == [[0]] or not enc or enc[0][0] != 1:
        return None
    pos = [1]

    def graph():
        n, e = enc[pos[0]]
        pos[0] += 1
        nodes = [tuple(x) for x in enc[pos[0]:pos[0] + n]]
        pos[0] += n
        edges = sorted(tuple(x[1:]) for x in enc[pos[0]:pos[0] + e])
        pos[0] += e
        return (nodes, edges)
    main = graph()
    clusters = []
    for _ in range(enc[0][1]):
        h = enc[pos[0]]
        pos[0] += 1
        clusters.append((h[1], h[2], graph()))
    assert pos[0] == len(enc)
    clusters.sort()
    return (main, clusters)


def graph_of_dump(d):
    nodes = []
    for q, (acc, t) in enumerate(d['end']):
        nodes.append((1, q, t) if (acc and q != 0) else (0, q))
    edges = sorted((q, e[1], e[0]) for q, s in enumerate(d['states']) for e in s)
    return (nodes, edges)


def expected_of_dump(d):
    return (graph_of_dump(d), sorted((l[0], 1 if l[1] else 0, graph_of_dump(l[2])) for l in d.get('las', [])))


def describe_diff(real, exp):
    """Human-readable difference of two canonical dotfiles."""
    out = []

    def gdiff(where, a, b):
        an, ae = a
        bn, be = b
        if an != bn:
            out.append('%s: nodes differ: only in file %s, only in automaton %s' % (
                where, sorted(set(an) - set(bn))[:6], sorted(set(bn) - set(an))[:6]))
        if ae != be:
            ra, rb = list(ae), list(be)
            for e in be:
                if e in ra:
                    ra.remove(e)
            for e in ae:
                if e in rb:
                    rb.remove(e)
            out.append('%s: edges (from,to,class) differ: only in file %s, only in automaton %s' % (where, ra[:6], rb[:6]))
    gdiff('main graph', real[0], exp[0])
    rk = [(c[0], c[1]) for c in real[1]]
    ek = [(c[0], c[1]) for c in exp[1]]
    if rk != ek:
        out.append('clusters (token type, positive) differ: file %s, automaton %s' % (rk, ek))
    else:
        for rc, ec in zip(real[1], exp[1]):
            gdiff('cluster T%d' % rc[0], rc[2], ec[2])
    return out


# ----------------------------------------------------------------------------------------------
# an independent reader of the DOT grammar (statistic and D10 probe; not the judge)

_DOT_TOK = re.compile(r'''\s+|//[^\n]*|/\*.*?\*/|(?P<q>"(?:[^"\\]|\\.|\\\n)*")|(?P<id>[A-Za-z_\u0080-\U0010ffff][A-Za-z_0-9\u0080-\U0010ffff]*)'''
                      r'''|(?P<num>-?(?:\.[0-9]+|[0-9]+(?:\.[0-9]*)?))|(?P<op>->|--|[{}\[\];,=:])''', re.S)


def dot_tokens(text):
    toks, i = [], 0
    while i < len(text):
        m = _DOT_TOK.match(text, i)
        if not m or m.end() == i:
            return None, 'unexpected character %r at offset %d' % (text[i], i)
        i = m.end()
        if m.lastgroup == 'op':
            toks.append(('op', m.group('op')))
        elif m.lastgroup:
            toks.append(('id', m.group(m.lastgroup)))
    return toks, None


def dot_parse(text):
    """{'nodes': [...], 'edges': n, 'subgraphs': n} or {'error': ...} for a directed graph."""
    toks, err = dot_tokens(text)
    if toks is None:
        return {'error': err}
    p = [0]
    nodes, stats = [], {'edges': 0, 'subgraphs': 0}

    class Bad(Exception):
        pass

    def peek():
        return toks[p[0]] if p[0] < len(toks) else ('eof', '')

    def take(kind=None, val=None):
        t = peek()
        if (kind and t[0] != kind) or (val is not None and t[1].lower() != val):
            raise Bad('expected %s %s, found %r (token %d)' % (kind or '', val or '', t[1], p[0]))
        p[0] += 1
        return t

    def is_kw(t, *kws):
        return t[0] == 'id' and t[1].lower() in kws

    def attr_list():
        while peek() == ('op', '['):
            take()
            while peek() != ('op', ']'):
                take('id')
                take('op', '=')
                take('id')
                if peek() in (('op', ';'), ('op', ',')):
                    take()
            take('op', ']')

    def subgraph():
        if is_kw(peek(), 'subgraph'):
            take()
            if peek()[0] == 'id':
                take()
        take('op', '{')
        stats['subgraphs'] += 1
        stmt_list()
        take('op', '}')

    def endpoint():
        t = peek()
        if t == ('op', '{') or is_kw(t, 'subgraph'):
            subgraph()
            return None
        name = take('id')[1]
        for _ in range(2):
            if peek() == ('op', ':'):
                take()
                take('id')
        return name

    def stmt_list():
        while peek() != ('op', '}') and peek()[0] != 'eof':
            t = peek()
            if is_kw(t, 'graph', 'node', 'edge'):
                take()
                if peek() != ('op', '['):
                    raise Bad('attribute list expected after %s' % t[1])
                attr_list()
            else:
                first = endpoint()
                if first is not None and peek() == ('op', '='):
                    take()
                    take('id')
                elif peek() in (('op', '->'), ('op', '--')):
                    while peek() in (('op', '->'), ('op', '--')):
                        if take()[1] != '->':
                            raise Bad('undirected edge in a digraph')
                        endpoint()
                        stats['edges'] += 1
                    attr_list()
                elif first is not None:
                    nodes.append(first)
                    attr_list()
            if peek() == ('op', ';'):
                take()
    try:
        if is_kw(peek(), 'strict'):
            take()
        take('id', 'digraph')
        if peek()[0] == 'id':
            take()
        take('op', '{')
        stmt_list()
        take('op', '}')
        if peek()[0] != 'eof':
            raise Bad('text after the closing brace')
    except Bad as e:
        return {'error': str(e)}
    return {'nodes': nodes, 'edges': stats['edges'], 'subgraphs': stats['subgraphs']}


# ----------------------------------------------------------------------------------------------
# generators

IDENTS = ['INITIAL', 'M0', 'M1', 'M2', 'STRING', 'Str_1', '_x', 'CamelCase9', 'comment', 'Embed', 'Generic', 'a', 'Z_', 'mode42',
          # names that matter to a file system or to a naive path manipulation: dots, blanks, case, non-ASCII, leading dot
          'v1.0', 'lex.code', 'lex.text', 'two words', 'UPPER', 'upper', 'Upper', '\u00dcml\u00e4ut', 'a-b', '.hidden', 'x.dot', 'tar.gz']
PREFIXES = ['P', 'Test0', 'scanner', 'x_y', 'a.b', 'x-y', 'String', 'p1']
# literals outside a class (already escaped for the regex syntax); control characters are raw
NASTY_LIT = ['"', '\\\\', '\t', '\n', '\r', '\x01', '\x7f', 'é', '€', '😀', '\\(', '\\)', '\\#', "'", ';', '<', '>', '=', ',',
             ' ', '%', '\\{', '\\}', '\\x41', '\\u{e9}', '\\t', '\\n', '/', ':', 'C', '5', '\u0301', '\u200b', '\\.', '\\*']
# items inside a bracketed class
NASTY_ITEM = ['"', '\\\\', '\t', '\n', '\r', '\x01', '\x7f', 'é', '€', '😀', '(', ')', '#', "'", ';', '<', '>', '=', ',', ' ',
              '%', '{', '}', '\\]', '\\[', '\\^', '\\-', 'C', '5', '\\x41', '\\t', '\\n', '\u0301', '\u200b', '.', '*', '|']
NASTY_CLASS = ['[(C#5)]', '[ (C#12)"]', '["\\\\]', '[^"]', '[\\\\"(C#0)]', '[")]', '[^\\\\]', '[#(]', '["-%]', '[\x01-\t]',
               '[^\n"]', '[é"€]', '[(C#1)"\\]]']


def nasty_class(rng):
    if rng.random() < 0.4:
        return rng.choice(NASTY_CLASS)
    items = rng.sample(NASTY_ITEM, rng.randint(1, 4))
    if rng.random() < 0.25:
        items.append('(C#%d)' % rng.randint(0, 20))
    return '[' + ('^' if rng.random() < 0.15 else '') + ''.join(items) + ']'


def nasty_atom(rng):
    return rng.choice(NASTY_LIT) if rng.random() < 0.5 else nasty_class(rng)


def nasty_re(rng):
    """Non-nullable pattern whose classes print with characters that need escaping in a label."""
    n = rng.randint(1, 3)
    parts = [nasty_atom(rng) for _ in range(n)]
    if rng.random() < 0.4:
        parts.append(nasty_atom(rng) + rng.choice(['+', '*', '?', '{2}']))
    if rng.random() < 0.15:
        parts = ['('] + parts + ['|', nasty_atom(rng), ')']
    return ''.join(parts)


def gen_config18(rng, idx=0):
    nm = rng.choice([1, 1, 2, 2, 3])
    names = rng.sample(IDENTS, nm)
    modes = []
    for k in range(nm):
        npat = rng.randint(1, 5)
        toks = rng.sample(list(range(0, 12)) + [17, 100, 4000, 70000, 4294967295], npat)
        alpha = gen.pick_alpha(rng)
        pats = []
        for i in range(npat):
            r = rng.random()
            if r < 0.4:
                p = nasty_re(rng)
            elif r < 0.7:
                p = gen.gen_small_re(rng, alpha)
            else:
                p = gen.gen_re(rng, rng.randint(1, 3))
            pat = {'p': p, 't': toks[i]}
            if rng.random() < 0.35:
                q = rng.random()
                la = nasty_re(rng) if q < 0.4 else (gen.gen_small_la(rng, alpha) if q < 0.7 else gen.gen_la(rng))
                pat['la'] = {'pos': rng.random() < 0.5, 'p': la}
            pats.append(pat)
        modes.append({'name': names[k], 'patterns': pats, 'transitions': []})
    if rng.random() < 0.5:
        gen.add_transitions(rng, modes)
    if rng.random() < 0.25:
        # long pattern texts with multi-byte characters at every byte alignment (titles and labels are derived from them)
        m = rng.choice(modes)
        used = set(p['t'] for p in m['patterns'])
        fill = ''.join(rng.choice(['\u20ac', '\u00e9', '\U0001F600', 'a', 'b']) for _ in range(rng.randint(30, 70)))
        m['patterns'].insert(0 if rng.random() < 0.7 else len(m['patterns']),
                             {'p': 'x' * rng.randint(0, 3) + fill, 't': rng.choice([t for t in range(300, 320) if t not in used])})
    c = {'modes': modes, 'prefix': rng.choice(PREFIXES)}
    if rng.random() < 0.3:
        # the folder already holds the export of a LARGER configuration with the same prefix and mode names
        big = json.loads(json.dumps(modes))
        for m in big:
            used = set(p['t'] for p in m['patterns'])
            extra = [t for t in range(200, 230) if t not in used]
            for k in range(rng.randint(2, 5)):
                m['patterns'].append({'p': 'zq%d[a-m]+(x|yy)*' % k, 't': extra[k], 'la': {'pos': k % 2 == 0, 'p': 'w%d+' % k}})
        c['first'] = big
    return c


def handmade():
    m = lambda name, pats: {'name': name, 'patterns': pats, 'transitions': []}
    return [
        # every label shape at once; two lookaheads of opposite polarity
        {'prefix': 'P', 'modes': [m('INITIAL', [{'p': 'a"b', 't': 1},
                                                {'p': '["\\\\(\n#é]+', 't': 2, 'la': {'pos': False, 'p': 'x'}},
                                                {'p': 'c', 't': 5, 'la': {'pos': True, 'p': '[a-c]y'}}]),
                                  m('M2', [{'p': '\\(C#5\\)', 't': 0}])]},
        # the class text itself ends in something that looks like a class id
        {'prefix': 'P', 'modes': [m('M', [{'p': '[ (C#7)]', 't': 3}, {'p': '[(C#99)"]x', 't': 4}])]},
        # accepting start state of a nullable pattern, a mode without patterns
        {'prefix': 'P', 'modes': [m('N', [{'p': 'a*', 't': 1}]), m('E', [])], 'may_fail': True},
        # nullable patterns and nullable lookaheads (the empty word must never be a token: state 0 never accepts),
        # loops back to the start state after minimization
        {'prefix': 'P', 'modes': [m('N', [{'p': 'a*', 't': 1}])]},
        {'prefix': 'P', 'modes': [m('N', [{'p': '(ab)*', 't': 7}, {'p': 'c?', 't': 2}])]},
        {'prefix': 'P', 'modes': [m('N', [{'p': 'x', 't': 4, 'la': {'pos': True, 'p': '(cd)*'}}, {'p': 'y?', 't': 5, 'la': {'pos': False, 'p': 'a?'}}])]},
        {'prefix': 'P', 'modes': [m('N', [{'p': '(a|)(b|)', 't': 3}, {'p': '', 't': 9}])]},
        # many lookaheads: cluster order is the hash map's
        {'prefix': 'Test0', 'modes': [m('L', [{'p': chr(97 + i), 't': i * 7 + 1, 'la': {'pos': i % 2 == 0, 'p': chr(98 + i) + '+'}}
                                              for i in range(8)])]},
        # token types whose decimals are prefixes of one another on lookaheads with many states: node names are built
        # from the token type and the state number, and two (token type, state) pairs must never share a name
        {'prefix': 'P', 'modes': [m('D', [{'p': 'x', 't': 1, 'la': {'pos': True, 'p': 'abcdefghijklm'}}, {'p': 'y', 't': 5},
                                          {'p': 'z', 't': 11, 'la': {'pos': False, 'p': 'pq'}}])]},
        {'prefix': 'P', 'modes': [m('D', [{'p': 'x', 't': 10, 'la': {'pos': False, 'p': 'pq'}},
                                          {'p': 'z', 't': 1, 'la': {'pos': True, 'p': '[a-c]{14}x|abcabcabcabcabcy'}}])]},
        {'prefix': 'P', 'modes': [m('D', [{'p': 'x', 't': 2, 'la': {'pos': True, 'p': 'a{30}b'}}, {'p': 'y', 't': 25, 'la': {'pos': True, 'p': 'cd'}},
                                          {'p': 'z', 't': 21, 'la': {'pos': False, 'p': 'e+f'}}, {'p': 'w', 't': 0, 'la': {'pos': True, 'p': 'a{12}'}},
                                          {'p': 'v', 't': 110, 'la': {'pos': True, 'p': 'g'}}])]},
        # same token type and same lookahead text in two modes
        {'prefix': 'x-y', 'modes': [m('A', [{'p': 'a', 't': 1, 'la': {'pos': True, 'p': 'b'}}]),
                                    m('B', [{'p': 'a', 't': 1, 'la': {'pos': False, 'p': 'b'}}])]},
    ]


FAULTS = ['missing', 'below_file', 'is_file', 'readonly', 'unwritable_fs', 'empty_prefix', 'slash_in_mode_name', 'name_too_long']
MUST_ERR = {'below_file', 'is_file', 'readonly', 'unwritable_fs', 'slash_in_mode_name', 'name_too_long'}

D10_NAMES = ['A"B', 'X"; "', 'N\nL', 'E\\']


class C18:
    ID = 'C18'
    THEOREMS = [('Properties.C18', ['C18_render_faithful', 'C18_render_text_faithful', 'C18_nodes_edges_exact',
                                    'C18_line_roundtrip', 'C18_last_class_id', 'C18_label_safeb',
                                    'C18_file_names', 'C18_file_name_inj', 'C18_node_names_injective', 'C18_accepting_labels_exact',
                                    'C18_compiled_start_not_accepting'])]
    COQ_TARGETS = ['Properties/C18.vo']
    LEVEL = 'proof'
    ASSUMPTIONS = [
        "dot_writer's text layout (one statement per line, two spaces of indentation per scope, attribute order) is "
        "modelled in Dot.v and tied to the real output per generated configuration: the real file is read back by the "
        "proved extractor (gate) and compared line by line with the model's printer (statistic model_text_match)",
        'the file system is observed, not modelled: File::create failing => Err(IoError) is checked on a missing folder, a '
        'path below a regular file, /proc, an over-long name and (when permission bits bite for the user) a read-only folder',
        'mode names are identifiers (a mode name reaches the graph title and the file name unescaped: candidate finding D10, '
        'probed and reported in the evidence, not part of the generator) and distinct within a scanner',
        'class label texts are what str::escape_debug makes of the printed class (observed through the harness); the '
        'theorem needs label_safe of them, which is evaluated (label_safeb) on every dump',
        'a non-UTF-8 target path panics in to_str().unwrap(): out of scope (DESIGN.md section 6)',
        'well-formedness of the title of a Graphviz file is judged by text_ok (Dot.v): no raw newline, no unescaped double '
        'quote, no trailing unescaped backslash',
    ]
    TRUSTED_EXTRA = ['std::fs of the harness (scratch directory, listing and reading the written files)',
                     'Python: file text -> list of lines of scalar values, decoding of the flat graph encoding, set/multiset comparison']
    RULE = ('configurations = repository corpora (tests/data, README; veryl in the thorough tier), hand-made ones (every label shape, nullable patterns, many lookaheads, token types whose decimals are prefixes of one another on large lookaheads), and random '
            'scanners of 1-3 modes named by distinct identifiers with 1-5 patterns each (40% built from characters and classes '
            'whose printed form needs escaping in a label: double quote, backslash, raw control characters, non-ASCII, '
            'parentheses, #, text like (C#5) inside a class; 30% dense 3-letter grammar; 30% full grammar), lookaheads on 35% '
            'of the patterns with both polarities, distinct token types up to 2^32-1, optional mode transitions, 8 prefixes; '
            'non-trivial = distinct (modes, prefix) that builds and has >= 1 lookahead cluster or >= 1 edge label whose class '
            'text needs an escape (escape_debug changed it, or it contains " \\ ( # or a non-ASCII character)')
    N = {'quick': 200, 'thorough': 3000}

    # ------------------------------------------------------------------------------------------
    def cases(self, rng, tier):
        cs = []
        for name, modes, _ in corpus.repo_configs(include_veryl=(tier == 'thorough')):
            cs.append({'modes': modes, 'prefix': 'corpus', 'origin': name})
        cs += handmade()
        cs += [gen_config18(rng, i) for i in range(self.N[tier])]
        return cs

    def check_exports(self, cases, results, rdir, tag='exp'):
        """Judges dot_export results. Returns (per-case verdict list, coq failures, stats).
        verdict: None (not built / skipped) or {'violations': [...], 'broken': [...], ...}"""
        verdicts = [None] * len(cases)
        entries = []      # (case idx, mode idx, coq text)
        name_terms = []   # (case idx, term)
        st = {'files': 0, 'nodes': 0, 'edges': 0, 'clusters': 0, 'clusters_pos': 0, 'clusters_neg': 0,
              'model_text_match': 0, 'dot_grammar_ok': 0, 'escape_labels': 0, 'accepting_labels': 0,
              'not_built': 0, 'built': 0, 'build_errors': {}, 'accepting_start_states': 0}
        for i, (c, r) in enumerate(zip(cases, results)):
            if r.get('harness_panic'):
                raise RuntimeError('harness panic: %s' % r['harness_panic'])
            if r.get('build') != 'ok':
                st['not_built'] += 1
                st['build_errors'][r.get('build')] = st['build_errors'].get(r.get('build'), 0) + 1
                continue
            st['built'] += 1
            v = {'violations': [], 'broken': [], 'files': {}}
            verdicts[i] = v
            if r.get('outcome') != 'ok':
                v['violations'].append('export into a writable fresh folder did not succeed: %s %s' % (r.get('outcome'), r.get('message', '')))
                continue
            if not r.get('removed', True):
                v['broken'].append('scratch directory could not be removed')
            names = [m['name'] for m in r['dump']['modes']]
            name_terms.append((i, '(file_names [] %s %s)' % (nlist(c.get('prefix', 'P')), clist([nlist(n) for n in names]))))
            files = {}
            for fn, text in r['files']:
                files[fn] = text
            v['real_names'] = sorted(files)
            v['files'] = files
        # (a) file names from the model
        shards = [name_terms[k:k + 300] for k in range(0, len(name_terms), 300)]
        paths = []
        for n, sh_ in enumerate(shards):
            p = os.path.join(rdir, '%s_names_%03d.v' % (tag, n))
            with open(p, 'w') as f:
                f.write(HEADER18)
                f.write('Eval vm_compute in %s.\n' % clist(['\n ' + t for _, t in sh_]))
            paths.append(p)
        coq_failures = []
        for sh_, (rc, o), p in zip(shards, coq_eval_files(paths), paths):
            if rc != 0:
                coq_failures.append((p, o[-3000:]))
                continue
            vals = parse_coq_value(o)
            for (i, _), val in zip(sh_, vals):
                verdicts[i]['model_names'] = [''.join(chr(x) for x in n)[1:] for n in val]
        # (b), (c) per file
        for i, (c, r) in enumerate(zip(cases, results)):
            v = verdicts[i]
            if not v or 'model_names' not in v:
                continue
            exp_names = v['model_names']
            if sorted(exp_names) != v['real_names'] or len(set(exp_names)) != len(exp_names):
                v['violations'].append('files written %s, expected one per mode: %s' % (v['real_names'], sorted(exp_names)))
            for k, (m, fn) in enumerate(zip(r['dump']['modes'], exp_names)):
                text = v['files'].get(fn)
                if not isinstance(text, str):
                    if text is not None:
                        v['violations'].append('file %s is not readable UTF-8 text: %s' % (fn, text))
                    continue
                lines = lines_of(text)
                d = m['dfa']
                las = d.get('las', [])
                # clusters in the order of the real file (for the printer comparison only)
                order = [int(x.group(1)) for x in (re.match(r'^ *label="LA for T(\d+)\((?:Pos|Neg)\)";$', l) for l in lines) if x]
                by_t = {l[0]: l for l in las}
                las_f = [by_t[t] for t in order] if sorted(order) == sorted(by_t) and len(order) == len(las) else las
                title = (r.get('titles') or [None] * (k + 1))[k] or ''
                term = 'c18_case %s %s %s %s %s' % (clist(['\n  ' + nlist(l) for l in lines]),
                                                    clist([nlist(t) for t in r['cls_escaped']]), nlist(title),
                                                    mode18(d, las), mode18(d, las_f))
                entries.append((i, k, term, len(text)))
                g = dot_parse(text)
                v.setdefault('grammar', {})[fn] = g
                if 'error' not in g:
                    st['dot_grammar_ok'] += 1
        # shards balanced by text size
        shards, cur, size = [], [], 0
        for e in entries:
            cur.append(e)
            size += e[3]
            if len(cur) >= 40 or size > 150000:
                shards.append(cur)
                cur, size = [], 0
        if cur:
            shards.append(cur)
        paths = []
        for n, sh_ in enumerate(shards):
            p = os.path.join(rdir, '%s_files_%03d.v' % (tag, n))
            with open(p, 'w') as f:
                f.write(HEADER18)
                for e in sh_:
                    f.write('Eval vm_compute in %s.\n' % e[2])
            paths.append(p)
        for sh_, (rc, o), p in zip(shards, coq_eval_files(paths, timeout=1500), paths):
            if rc != 0:
                coq_failures.append((p, o[-3000:]))
                continue
            blocks = split_evals(o)
            if len(blocks) != len(sh_):
                coq_failures.append((p, 'expected %d values, found %d' % (len(sh_), len(blocks))))
                continue
            for (i, k, _, _), b in zip(sh_, blocks):
                real_enc, exp_enc, flags, bad = parse_coq_value(b)
                self.judge_file(cases[i], results[i], k, verdicts[i], real_enc, exp_enc, flags, st, bad)
        return verdicts, coq_failures, st

    def judge_file(self, case, res, k, v, real_enc, exp_enc, flags, st, bad=0):
        m = res['dump']['modes'][k]
        fn = v['model_names'][k]
        wf, safe, title_ok, text_match = flags
        exp = decode_enc(exp_enc)
        if exp is None or exp != expected_of_dump(m['dfa']):
            v['broken'].append('translator: enc_dotfile (dotfile_of M) evaluated in Coq differs from the dump of mode %s' % m['name'])
            return
        if not wf:
            v['broken'].append('dump of mode %s is not a well-formed automaton (wf_dot = false)' % m['name'])
        st['files'] += 1
        st['model_text_match'] += 1 if text_match else 0
        main, cl = exp
        for g in [main] + [c[2] for c in cl]:
            st['nodes'] += len(g[0])
            st['edges'] += len(g[1])
            st['accepting_labels'] += sum(1 for n in g[0] if n[0] == 1)
        st['clusters'] += len(cl)
        # the start state is drawn blue without a token type even if it is accepting (graph_of says so too);
        # counted so that the evidence shows whether this ever matters
        nacc0 = sum(1 for d in [m['dfa']] + [l[2] for l in m['dfa'].get('las', [])] if d['end'] and d['end'][0][0])
        st['accepting_start_states'] += nacc0
        if nacc0:
            # premise of C18_accepting_labels_exact (proved for the pipeline model: C18_compiled_start_not_accepting)
            v['violations'].append('state 0 of %d automaton/automata of mode %s is accepting (token type %s), but the picture draws state 0 '
                                   'without an accepting label: the accepting labels are not exactly the accepting states'
                                   % (nacc0, m['name'], [d['end'][0][1] for d in [m['dfa']] + [l[2] for l in m['dfa'].get('las', [])]
                                                          if d['end'] and d['end'][0][0]]))
        st['clusters_pos'] += sum(1 for c in cl if c[1] == 1)
        st['clusters_neg'] += sum(1 for c in cl if c[1] == 0)
        real = decode_enc(real_enc)
        if real is None:
            ls = lines_of(v['files'][fn])
            if bad < len(ls):
                why = 'line %d is not a statement of the format: %r' % (bad + 1, ls[bad][:200])
            else:
                why = 'every line is a statement, but they do not form the DOT file of an automaton (header, nodes 0..n-1 then edges per scope, clusters numbered from 0, node kinds)'
            generic = dot_parse(v['files'][fn])
            if 'error' in generic:
                v['violations'].append('file %s is not a well-formed Graphviz file (generic DOT grammar: %s); the extractor rejects it too: %s'
                                       % (fn, generic['error'], why))
            elif (len(set(generic['nodes'])) != sum(len(g[0]) for g in [main] + [c[2] for c in cl])
                  or len(generic['nodes']) != len(set(generic['nodes']))
                  or generic['edges'] != sum(len(g[1]) for g in [main] + [c[2] for c in cl])
                  or generic['subgraphs'] != len(cl)):
                # whatever the layout: a Graphviz node is identified by its ID in the whole file, so the picture has one
                # node per state only if the IDs are pairwise distinct and as many as there are states; likewise edges/clusters
                dup = sorted(set(x for x in generic['nodes'] if generic['nodes'].count(x) > 1))
                v['violations'].append('file %s: read with the generic DOT grammar it declares %d node statements with %d distinct node IDs%s, %d edges '
                                       'and %d clusters, but the compiled automata of mode %s have %d states, %d transitions and %d lookaheads'
                                       % (fn, len(generic['nodes']), len(set(generic['nodes'])), (' (declared more than once: %s)' % dup[:5]) if dup else '',
                                          generic['edges'], generic['subgraphs'], m['name'],
                                          sum(len(g[0]) for g in [main] + [c[2] for c in cl]), sum(len(g[1]) for g in [main] + [c[2] for c in cl]), len(cl)))
            else:
                # well-formed Graphviz, but not in the text layout Dot.v models: the content cannot be compared
                v['broken'].append('file %s is well-formed Graphviz by the generic DOT grammar, but the extractor of the layout model (Dot.v) '
                                   'rejects it (%s): the layout model no longer matches the renderer' % (fn, why))
        elif real != exp:
            v['violations'].append('file %s: graph read back differs from the compiled automaton of mode %s: %s' % (
                fn, m['name'], '; '.join(describe_diff(real, exp))))
        if not title_ok:
            v['violations'].append('file %s: the graph title is not a well-formed quoted string: %r' % (
                fn, (lines_of(v['files'][fn]) + ['', ''])[1]))
        v.setdefault('text_match', {})[fn] = text_match
        v.setdefault('label_safe', {})[fn] = safe

    @staticmethod
    def escape_needing(res):
        """Number of used classes whose label text needed an escape or contains a character that matters to a reader."""
        used = set()
        for m in res['dump']['modes']:
            ds = [m['dfa']] + [l[2] for l in m['dfa'].get('las', [])]
            for d in ds:
                for s in d['states']:
                    for e in s:
                        used.add(e[0])
        n = 0
        for c in used:
            if c < len(res['dump']['classes']):
                raw, escd = res['dump']['classes'][c], res['cls_escaped'][c]
                if raw != escd or any(ch in raw for ch in '"\\(#') or any(ord(ch) > 127 for ch in raw):
                    n += 1
        return n

    # ------------------------------------------------------------------------------------------
    def fault_jobs(self, rng):
        base = [{'prefix': 'P', 'modes': [{'name': 'INITIAL', 'patterns': [{'p': 'a', 't': 1}], 'transitions': []}]},
                {'prefix': 'Test0', 'modes': [{'name': 'A', 'patterns': [{'p': 'a+', 't': 1, 'la': {'pos': False, 'p': 'b'}}], 'transitions': []},
                                              {'name': 'B', 'patterns': [{'p': '["\\\\]', 't': 0}], 'transitions': []}]},
                gen_config18(rng)]
        jobs = []
        for b in base:
            for f in FAULTS:
                j = {'kind': 'dot_fault', 'fault': f, 'prefix': b['prefix'], 'modes': json.loads(json.dumps(b['modes']))}
                if f == 'empty_prefix':
                    j['prefix'] = ''
                if f == 'name_too_long':
                    j['prefix'] = 'p' * 300
                if f == 'slash_in_mode_name':
                    j['modes'][-1]['name'] = rng.choice(['a/b', 'x/../y', '/abs', 'sub/'])
                jobs.append(j)
        return jobs

    def judge_fault(self, j, r):
        """(violation text or None, exercised?)"""
        if r.get('harness_panic'):
            raise RuntimeError('harness panic: %s' % r['harness_panic'])
        if r.get('build') != 'ok':
            return None, False
        if not r.get('exercised'):
            return None, False
        f, oc = j['fault'], r.get('outcome')
        if oc == 'panic':
            return 'fault %s: panic instead of an error: %s' % (f, r.get('message', '')), True
        names = [m['name'] for m in j['modes']]
        if f == 'empty_prefix':
            if oc == 'ok' and sorted(r.get('files', [])) != sorted('_%s.dot' % n for n in names):
                return 'empty prefix: files %s' % r.get('files'), True
            return None, True
        if f == 'missing':
            want = sorted('does/not/exist/%s_%s.dot' % (j['prefix'], n) for n in names)
            if oc == 'ok' and sorted(r.get('files', [])) != want:
                return 'missing target folder: Ok(()) although the files were not written', True
            return None, True
        if f in MUST_ERR and oc == 'ok':
            return 'fault %s: Ok(()) although the files cannot have been written (files below the scratch folder: %s)' % (f, r.get('files')), True
        return None, True

    # ------------------------------------------------------------------------------------------
    def d10_probe(self, rdir):
        """Mode names that are not identifiers: what reaches the title and the file name. Reported, not gated."""
        cases = [{'prefix': 'P', 'modes': [{'name': n, 'patterns': [{'p': 'a', 't': 1}], 'transitions': []}]} for n in D10_NAMES]
        res = run_harness([dict(c, kind='dot_export') for c in cases], rdir, 'd10')
        verdicts, coqf, _ = self.check_exports(cases, res, rdir, tag='d10')
        rep = []
        for c, r, v in zip(cases, res, verdicts):
            e = {'mode_name': c['modes'][0]['name'], 'build': r.get('build'), 'outcome': r.get('outcome')}
            if v:
                e['files'] = v.get('real_names')
                for fn, text in v.get('files', {}).items():
                    if isinstance(text, str):
                        e['first_lines'] = text.split('\n')[:3] if '\n' not in c['modes'][0]['name'] else text.split('\n')[:4]
                        e['dot_grammar'] = dot_parse(text)
                e['check_verdict'] = v['violations']
            rep.append(e)
        return rep

    # ------------------------------------------------------------------------------------------
    def explore(self, rng, tier, rdir, out, replay=None):
        known = load_known(self.ID)
        fjobs = []
        if replay:
            payload = json.load(open(replay))
            known = []
            cases = [payload['case']] if 'case' in payload else []
            fjobs = [payload['fault_job']] if 'fault_job' in payload else []
        else:
            cases = [k['case'] for k in known] + self.cases(rng, tier)
            fjobs = self.fault_jobs(rng)
        nk = len(known)
        jobs = [{'id': i, 'kind': 'dot_export', 'modes': c['modes'], 'prefix': c.get('prefix', 'P')} for i, c in enumerate(cases)]
        for j, c in zip(jobs, cases):
            if c.get('first'):
                j['first'] = c['first']
        results = run_harness(jobs, rdir, 'export', timeout=3000) if jobs else []
        verdicts, coqf, st = self.check_exports(cases, results, rdir)
        for p, o in coqf:
            out.broken.append({'what': 'coqc failed on generated case file %s' % p, 'detail': o})
        known_hit = set()
        for i, (c, r, v) in enumerate(zip(cases, results, verdicts)):
            if v is None:
                if i >= nk and r.get('build') == 'panic' and not c.get('may_fail'):
                    out.notes.append('configuration %d does not build (panic): %s' % (i, r.get('error', '')[:200]))
                continue
            if v['violations']:
                if i < nk:
                    known_hit.add(i)
                    continue
                out.violations.append({'property': self.ID, 'what': v['violations'][0], 'all': v['violations'],
                                       'case': dict({'modes': c['modes'], 'prefix': c.get('prefix', 'P')}, **({'first': c['first']} if c.get('first') else {})),
                                       'files': {fn: t for fn, t in v['files'].items()},
                                       'dump': r.get('dump')})
            for b in v['broken']:
                out.broken.append({'what': b, 'detail': {'case': c}})
        for i, k in enumerate(known):
            if i in known_hit:
                out.known.append('%s: %s' % (k['id'], k['what']))
            else:
                out.notes.append('known finding %s no longer reproduces' % k['id'])
        # fault part
        fres = run_harness(fjobs, rdir, 'fault') if fjobs else []
        fstat = {}
        for j, r in zip(fjobs, fres):
            viol, ex = self.judge_fault(j, r)
            e = fstat.setdefault(j['fault'], {'run': 0, 'exercised': 0, 'outcomes': {}})
            e['run'] += 1
            if ex:
                e['exercised'] += 1
                e['outcomes'][r.get('outcome')] = e['outcomes'].get(r.get('outcome'), 0) + 1
            elif r.get('why'):
                e['not_exercised_because'] = r['why']
            if viol:
                out.violations.append({'property': self.ID, 'what': viol, 'fault_job': j, 'result': r})
        # former finding D10 (mode names with quotes/newlines in the graph title)
        probe = []
        if not replay:
            probe = self.d10_probe(rdir)
            # D10 was repaired in /repo (fix: mode names are escaped in the title); it is a gate now, so the
            # defect is reported again if it ever returns
            for e in probe:
                if e.get('check_verdict') or (e.get('dot_grammar') not in (None, True, 'ok') and e.get('dot_grammar') is not True):
                    if e.get('check_verdict'):
                        out.violations.append({'property': self.ID,
                                               'what': 'mode name that is not an identifier yields an ill-formed DOT file: %s' % e.get('check_verdict'),
                                               'case': {'prefix': 'P', 'modes': [{'name': e['mode_name'], 'patterns': [{'p': 'a', 't': 1}], 'transitions': []}]},
                                               'probe': e})
        # coverage
        seen, nt = set(), 0
        nla_hist, modes_hist, pats_hist = [], [], []
        for c, r, v in list(zip(cases, results, verdicts))[nk:]:
            if v is None:
                continue
            h = canon_hash([c['modes'], c.get('prefix', 'P')])
            if h in seen:
                continue
            seen.add(h)
            ncl = sum(len(m['dfa'].get('las', [])) for m in r['dump']['modes'])
            esc = self.escape_needing(r)
            st['escape_labels'] += esc
            nla_hist.append(ncl)
            modes_hist.append(len(c['modes']))
            pats_hist.append(sum(len(m['patterns']) for m in c['modes']))
            if ncl >= 1 or esc >= 1:
                nt += 1
        samples = []
        for c, r, v in list(zip(cases, results, verdicts))[nk:]:
            if v and c.get('origin') is None and any(m['dfa'].get('las') for m in r['dump']['modes']) and self.escape_needing(r):
                fn = v.get('model_names', [None])[0]
                samples.append({'modes': c['modes'], 'prefix': c.get('prefix', 'P'), 'files': v.get('real_names'),
                                'first_file': (v['files'].get(fn) or '')[:1500]})
            if len(samples) >= 2:
                break
        stats = {'evaluations': len(cases), 'distinct_nontrivial': nt, 'rule': self.RULE,
                 'samples': samples or [{'note': 'no non-trivial sample'}],
                 'configurations': len(cases), 'configurations_built': st['built'], 'configurations_not_built': st['not_built'],
                 'build_errors': st['build_errors'],
                 'files_read_back_in_coq': st['files'], 'nodes_total': st['nodes'], 'edges_total': st['edges'],
                 'accepting_labels_total': st['accepting_labels'],
                 'accepting_start_states': st['accepting_start_states'],
                 'clusters_total': st['clusters'], 'clusters_positive': st['clusters_pos'], 'clusters_negative': st['clusters_neg'],
                 'escape_needing_class_labels': st['escape_labels'],
                 'model_text_match': st['model_text_match'], 'model_text_match_of': st['files'],
                 'dot_grammar_ok': st['dot_grammar_ok'],
                 'fault_cases': fstat,
                 'fault_cases_exercised': sum(e['exercised'] for e in fstat.values()),
                 'modes_hist': hist(modes_hist), 'patterns_hist': hist(pats_hist), 'lookahead_clusters_hist': hist(nla_hist),
                 'known_findings_replayed': nk, 'd10_probe': probe}
        if st['accepting_start_states']:
            out.notes.append('%d automata have an accepting start state; dot.rs draws state 0 as start node without its token type' % st['accepting_start_states'])
        if st['files'] and st['model_text_match'] != st['files']:
            out.notes.append('model_text_match %d of %d files: the layout of the real files differs from the printer of Dot.v '
                             '(not an alarm while the graphs read back agree)' % (st['model_text_match'], st['files']))
        return stats


PROPS = {'C18': C18}
