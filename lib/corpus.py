"""Configurations shipped with the repository (tests/data/*.json, benches/veryl_modes.json, README)."""
import json, os, glob, re

REPO = '/repo'


def convert(modes):
    out = []
    for m in modes:
        pats = []
        for p in m['patterns']:
            q = {'p': p['pattern'], 't': p['token_type']}
            if p.get('lookahead'):
                q['la'] = {'pos': p['lookahead']['is_positive'], 'p': p['lookahead']['pattern']}
            pats.append(q)
        out.append({'name': m['name'], 'patterns': pats, 'transitions': [list(t) for t in m.get('transitions', [])]})
    return out


def readme_config():
    txt = open(os.path.join(REPO, 'README.md'), encoding='utf-8').read()
    m = re.search(r'```json\n(.*?)```', txt, re.S)
    return json.loads(m.group(1)) if m else None


def repo_configs(include_veryl=False):
    """[(name, modes, input or None)]"""
    out = []
    for f in sorted(glob.glob(os.path.join(REPO, 'scnr/tests/data/*.json'))):
        if f.endswith('_tokens.json'):
            continue
        name = os.path.basename(f)[:-5]
        try:
            modes = convert(json.load(open(f, encoding='utf-8')))
        except Exception:
            continue
        inp = None
        fi = f[:-5] + '.input'
        if os.path.exists(fi):
            inp = open(fi, encoding='utf-8').read()
        out.append((name, modes, inp))
    rc = readme_config()
    if rc:
        out.append(('readme', convert(rc), '/* a * b */ c'))
    if include_veryl:
        f = os.path.join(REPO, 'scnr/benches/veryl_modes.json')
        inp = open(os.path.join(REPO, 'scnr/benches/veryl_input.veryl'), encoding='utf-8').read()
        out.append(('veryl', convert(json.load(open(f, encoding='utf-8'))), inp))
    return out
