#!/usr/bin/env python3
"""Regenerates MANIFEST.json from lib/manifest_data.py (claimed checks) and properties.jsonl."""
import json, os, sys
sys.path.insert(0, os.path.dirname(os.path.abspath(__file__)))
from manifest_data import CHECKS, NOT_APPLICABLE, HOOK_COMMITS
ROOT = os.path.dirname(os.path.dirname(os.path.abspath(__file__)))
props = [json.loads(l) for l in open(os.path.join(ROOT, 'properties.jsonl'))]
checks = []
for p in props:
    pid = p['id']
    if pid in CHECKS:
        c = CHECKS[pid]
        checks.append({
            'property_id': pid,
            'quick_cmd': './check %s quick' % pid,
            'thorough_cmd': './check %s thorough' % pid,
            'evidence_file': 'evidence/%s.json' % pid,
            'replay_cmd_template': './check %s --replay {path}' % pid,
            'engine': 'rocq-model+correspondence',
            'level_claimed': {'category': c.get('category', 'proof'), 'text': c['text'], 'design_ref': c['design_ref']},
            'level_note': c['note'],
            'technique': c['technique'],
        })
na = []
for p in props:
    if p['id'] not in CHECKS:
        na.append({'property_id': p['id'], 'reason': NOT_APPLICABLE.get(p['id'], 'check under construction; not yet claimed')})
m = {
    'version': 1,
    'setup_cmd': './setup.sh',
    'hooks': {
        'guard': 'scnr_verif',
        'enable': 'RUSTFLAGS="--cfg scnr_verif" (set in /verif/harness/.cargo/config.toml; the harness depends on /repo/scnr by path)',
        'baseline_off_cmd': 'cd /repo && cargo test --workspace --no-fail-fast --offline',
        'source_commits': HOOK_COMMITS,
        'add_only': True,
    },
    'engines': [{'name': 'rocq-model+correspondence', 'path': 'coq/, harness/, lib/, check',
                 'serves_properties': sorted(CHECKS.keys()),
                 'kind_free_text': 'Coq 8.16 model and theorems (coq/), Rust harness running the implementation with hooks (harness/), '
                                   'Python driver comparing implementation, model and specification (lib/, check)'},
                {'name': 'miri-observation', 'path': 'harness_miri/', 'serves_properties': ['C14'],
                 'kind_free_text': 'observation only (not a proof): a multi-threaded program over the real crate run under cargo +nightly miri; '
                                   'supports the part of C14 the protocol theorem cannot carry (data races, undefined behaviour)'}],
    'checks': checks,
    'not_applicable': na,
    'notes': 'See DESIGN.md. known_findings.json lists recorded defects and the fixed: entries.',
}
json.dump(m, open(os.path.join(ROOT, 'MANIFEST.json'), 'w'), indent=1)
print('checks:', [c['property_id'] for c in checks], 'not claimed:', [n['property_id'] for n in na])
