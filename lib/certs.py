"""Per-program kernel-checked certificates (C02: automaton = pattern languages; C03: minimizer
input/output pairs accept the same token types) generated from the automata the implementation
compiled."""
import json, os, re
from common import *

CERT_HEADER = ('From Scnr Require Import Base Regex Automaton FindFrom Iter IterRun Spec EquivCheck.\n'
               'Open Scope N_scope.\n')
FUEL = 'N.to_nat 200000'


class LeafOrder:
    """Leaf ids = index in the sweep's sorted leaf list."""
    def __init__(self, leaves):
        self.ids = {s: i for i, s in enumerate(leaves)}

    def get(self, s):
        return self.ids[s]


def tables(res):
    mts = res['minterms']
    ncls = len(res['dump']['classes'])
    nleaf = len(res['leaves'])
    tblc = {cc: [] for cc in range(ncls)}
    tbll = {i: [] for i in range(nleaf)}
    for m, mt in enumerate(mts):
        for cc in mt['cls']:
            tblc[cc].append(m)
        for lf in mt['leaf']:
            tbll[lf].append(m)
    return tblc, tbll, list(range(len(mts)))


def instances_of(cfg, res):
    """C02 instances of a sweep result: (name, dfa json, [(tok, ast)], nclasses)."""
    out = []
    ncls = len(res['dump']['classes'])
    for k, (m, md, asts) in enumerate(zip(cfg, res['dump']['modes'], res['asts'])):
        rs = [(p['t'], a[0]) for p, a in zip(m['patterns'], asts)]
        out.append(('m%d' % k, md['dfa'], rs, ncls))
        la_asts = {}
        for p, a in zip(m['patterns'], asts):
            if p.get('la'):
                la_asts[p['t'] % (1 << 32)] = a[1]
        for la in md['dfa'].get('las', []):
            tid, pos, ldfa = la
            if tid in la_asts and ldfa['tids']:
                out.append(('m%d_la%d' % (k, tid), ldfa, [(ldfa['tids'][0], la_asts[tid])], ncls))
    return out


def c02_module(name, dfa, rs, ncls, leaves):
    rs_t = clist(['(%d, %s)' % (t, ast_term(a, leaves)) for t, a in rs])
    s = 'Module %s.\n' % name
    s += 'Definition A : dfa := Eval vm_compute in %s.\n' % dfa_term(dfa)
    s += 'Definition rs : list (N * re) := Eval vm_compute in match mk_rs %s with Some l => l | None => [] end.\n' % rs_t
    # each fact is evaluated once, by the kernel's VM at Qed (vm_cast_no_check does not compute)
    s += 'Lemma check1 : equiv_check tbll tblc A ms rs (%s) = true.\nProof. vm_cast_no_check (eq_refl true). Qed.\n' % FUEL
    s += ('Lemma check2 : (start_not_accepting A && wf_dfa %d A && dfa_okb A && Nat.eqb (length rs) %d%%nat)%%bool = true.\n'
          'Proof. vm_cast_no_check (eq_refl true). Qed.\n' % (ncls, len(rs)))
    s += ('Theorem checks : equiv_check tbll tblc A ms rs (%s) = true /\\ start_not_accepting A = true /\\ '
          'wf_dfa %d A = true /\\ dfa_okb A = true /\\ length rs = %d%%nat.\n' % (FUEL, ncls, len(rs)))
    s += ('Proof. pose proof check2 as H. apply andb_true_iff in H as [H H4]. apply andb_true_iff in H as [H H3]. '
          'apply andb_true_iff in H as [H1 H2]. apply Nat.eqb_eq in H4. '
          'split; [exact check1|]. split; [exact H1|]. split; [exact H2|]. split; [exact H3|exact H4]. Qed.\n')
    s += ('Theorem inst : forall w, w <> [] -> Forall (fun c => In c ms) w -> forall t,\n'
          '  accepts_tok tblc A w t <-> exists r, In (t,r) rs /\\ mt tbll r w.\n')
    s += 'Proof. apply (equiv_check_sound tbll tblc A ms rs (%s)). exact check1. Qed.\n' % FUEL
    s += 'Theorem empty_word : forall t, ~ accepts_tok tblc A [] t.\n'
    s += 'Proof. intros t (q & Hq & Ha). cbn in Hq. destruct Hq as [<-|[]]. vm_compute in Ha. discriminate. Qed.\n'
    s += 'End %s.\n' % name
    return s


def c02_diag(name, dfa, rs, ncls, leaves):
    rs_t = clist(['(%d, %s)' % (t, ast_term(a, leaves)) for t, a in rs])
    s = 'Module %s.\n' % name
    s += 'Definition A : dfa := Eval vm_compute in %s.\n' % dfa_term(dfa)
    s += 'Definition rs : list (N * re) := Eval vm_compute in match mk_rs %s with Some l => l | None => [] end.\n' % rs_t
    s += ('Eval vm_compute in ([if equiv_check tbll tblc A ms rs (%s) then 1 else 0; if start_not_accepting A then 1 else 0; '
          'if wf_dfa %d A then 1 else 0; if dfa_okb A then 1 else 0; N.of_nat (length rs)],\n'
          '  match find_cex tbll tblc A ms rs (N.to_nat 3000) with Some (w, p, a) => [w; p; a] | None => [] end).\n' % (FUEL, ncls))
    s += 'End %s.\n' % name
    return s


def pair_module(name, a, b, diag=False):
    s = 'Module %s.\n' % name
    s += 'Definition A : dfa := Eval vm_compute in %s.\nDefinition B : dfa := Eval vm_compute in %s.\n' % (dfa_term(a), dfa_term(b))
    if diag:
        s += ('Eval vm_compute in ([if aut_equiv_check tblc A B ms (%s) then 1 else 0; '
              'if Nat.leb (length (trans B)) (length (trans A)) then 1 else 0],\n'
              '  match find_cex_aut tblc A B ms (N.to_nat 3000) with Some (w, p, a) => [w; p; a] | None => [] end).\n' % FUEL)
    else:
        s += 'Lemma check1 : aut_equiv_check tblc A B ms (%s) = true.\nProof. vm_cast_no_check (eq_refl true). Qed.\n' % FUEL
        s += ('Theorem checks : aut_equiv_check tblc A B ms (%s) = true /\\ Nat.leb (length (trans B)) (length (trans A)) = true /\\ '
              'Nat.eqb (length (trans B)) (length (fin B)) = true.\n' % FUEL)
        s += 'Proof. split; [exact check1|]. split; vm_cast_no_check (eq_refl true). Qed.\n'
        s += ('Theorem inst : forall w, Forall (fun c => In c ms) w -> forall t, accepts_tok tblc A w t <-> accepts_tok tblc B w t.\n'
              'Proof. apply (aut_equiv_check_sound (fun _ _ => false) tblc A B ms (%s)). exact check1. Qed.\n' % FUEL)
    s += 'End %s.\n' % name
    return s


def program_file(path, cfg, res, what, diag=False):
    """Writes the certificate file of one program. what: 'c02' or 'c03'. Returns instance names."""
    tblc, tbll, ms = tables(res)
    leaves = LeafOrder(res['leaves'])
    names = []
    with open(path, 'w') as f:
        f.write(CERT_HEADER)
        f.write('Set Printing Depth 100000.\nSet Printing Width 100000.\n')
        f.write('Definition tblc := tbl_of %s.\n' % cls_term(tblc))
        f.write('Definition tbll := tbl_of %s.\n' % cls_term(tbll))
        f.write('Definition ms : list N := %s.\n' % clist([str(m) for m in ms]))
        if what == 'c02':
            for name, dfa, rs, ncls in instances_of(cfg, res):
                f.write((c02_diag if diag else c02_module)(name, dfa, rs, ncls, leaves))
                names.append(name)
        else:
            for k, (a, b) in enumerate(res['minlog']):
                f.write(pair_module('p%d' % k, a, b, diag))
                names.append('p%d' % k)
    return names


def word_of_minterms(res, w):
    return ''.join(chr(res['minterms'][m]['rep']) for m in w)
