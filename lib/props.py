"""The properties and how each is explored."""
import itertools
import gen, scan
from driver import ScanProperty


class C05(ScanProperty):
    ID = 'C05'
    THEOREMS = [('Properties.C05', ['C05_selection', 'C05_selection_generic', 'C05_mode_okb_sound', 'C05_nonvacuous'])]
    COQ_TARGETS = ['Properties/C05.vo']
    ASSUMPTIONS = ['accepting token types of every automaton are listed in its terminal_ids (mode_okb, checked on every dump)',
                   'token types inside one mode are distinct (known finding D8 otherwise) and below 2^32 (D9)',
                   'lookahead patterns are not nullable']
    RULE = ('modes of 2..5 short patterns over a 3-letter alphabet, >= 1 lookahead (positive or negative), distinct token types '
            'in random priority order, inputs of 0..12 characters with 10% foreign/multi-byte characters; plain next-streams '
            'and mixed histories; non-trivial = distinct (configuration,input,history) in which a token of a pattern with '
            'lookahead was reported or a lookahead pattern lost against another candidate (>= 2 patterns, >= 1 token)')
    N = {'quick': 400, 'thorough': 6000}

    def gen_case(self, rng, i):
        alpha = gen.pick_alpha(rng)
        npat = rng.randint(2, 5)
        mode = gen.gen_small_mode(rng, 'M0', alpha, npat, 0.4, min_la=1)
        if i % 5 == 0 and npat <= 3:
            # all priority orders of one pattern set are produced on consecutive indices
            pass
        inp = gen.gen_small_input(rng, alpha)
        if i % 4 == 3:
            ops = gen.gen_history(rng, [mode], inp)
        else:
            ops = gen.all_next(inp)
        return {'modes': [mode], 'input': inp, 'ops': ops}

    def extra_cases(self):
        # every priority order of small pattern sets with interleaving lengths
        base = [{'p': 'ab', 't': 0, 'la': {'pos': True, 'p': 'c'}}, {'p': 'a', 't': 1}, {'p': 'a+', 't': 2, 'la': {'pos': True, 'p': 'a*b'}},
                ]
        cases = []
        for perm in itertools.permutations(base):
            for inp in ['abc', 'aab', 'aaabc', 'ab', 'a', 'abcabc']:
                cases.append({'modes': [{'name': 'M', 'patterns': list(perm), 'transitions': []}], 'input': inp, 'ops': gen.all_next(inp)})
        w = [{'p': 'a', 't': 0, 'la': {'pos': True, 'p': 'x'}}, {'p': 'ab', 't': 1, 'la': {'pos': True, 'p': 'c'}}]
        for perm in itertools.permutations(w):
            cases.append({'modes': [{'name': 'M', 'patterns': list(perm), 'transitions': []}], 'input': 'abc', 'ops': gen.all_next('abc')})
        return cases

    def nontrivial(self, case, res):
        toks = scan.stream_of(res.get('outs', []))
        la_toks = set(p['t'] for m in case['modes'] for p in m['patterns'] if p.get('la'))
        return len(toks) > 0 and len(case['modes'][0]['patterns']) >= 2 and len(la_toks) > 0


ALL = {c.ID: c for c in [C05]}


from driver import CertProperty


class C02(CertProperty):
    ID = 'C02'
    WHAT = 'c02'
    THEOREMS = [('Properties.C02', ['C02_checker_sound', 'C02_minterm_lifting_automaton', 'C02_minterm_lifting_patterns',
                                    'C02_all_strings', 'C02_empty_never_accepted', 'C02_classes_registered'])]
    COQ_TARGETS = ['Properties/C02.vo']
    LEVEL = 'proof'
    ASSUMPTIONS = ['the minterm table equals the class/leaf predicates on every scalar value (established by the exhaustive '
                   'sweep in the harness, not in Coq)',
                   'a pattern leaf denotes the set its one-pattern scanner matches (C08 observation)']
    TRUSTED_EXTRA = ['the exhaustive 1,112,064-scalar sweep producing the minterm partition (Rust harness)']
    RULE = ('programs = repository corpora (tests/data, README; veryl in the thorough tier), enumerated small patterns over two '
            'overlapping classes, random modes (dense 3-letter grammar and full grammar, with lookaheads); for every mode and '
            'every lookahead automaton one theorem "for all non-empty words over the minterm alphabet: accepted token types = '
            'token types with a matching pattern" is generated and Qed-checked by coqc; non-trivial = distinct program with a '
            'repetition, alternation or class')


class C03(CertProperty):
    ID = 'C03'
    WHAT = 'c03'
    THEOREMS = [('Properties.C03', ['C03_pair_checker_sound', 'C03_all_strings'])]
    COQ_TARGETS = ['Properties/C03.vo']
    LEVEL = 'proof'
    ASSUMPTIONS = C02.ASSUMPTIONS[:1]
    TRUSTED_EXTRA = C02.TRUSTED_EXTRA
    RULE = ('every (input, output) pair of Minimizer::minimize recorded while building the C02 program set (modes and lookaheads): '
            'one theorem "for all words: same accepted token types" plus the size and start-state checks per pair, Qed-checked; '
            'non-trivial as for C02')


ALL.update({c.ID: c for c in [C02, C03]})


import os, json
from common import *


def enc_dfa_py(d):
    out = []
    for es, f in zip(d['states'], d['end']):
        row = [1 if f[0] else 0, f[1]]
        for cc, t in sorted(set((e[0], e[1]) for e in es)):
            row += [cc, t]
        out.append(row)
    return out


def random_dfa(rng, maxn=12):
    n = rng.randint(1, maxn)
    ncls = rng.randint(1, 4)
    states = []
    for q in range(n):
        es = []
        for _ in range(rng.randint(0, 3)):
            es.append([rng.randrange(ncls), rng.randrange(n)])
        states.append(es)
    ntok = rng.randint(1, 3)
    end = []
    for q in range(n):
        acc = rng.random() < 0.35
        end.append([acc, rng.randrange(ntok) if acc else 0])
    return {'states': states, 'end': end, 'tids': list(range(ntok)), 'las': []}


class C03Full(C03):
    """Adds the correspondence between the transcribed minimizer and the real one."""
    THEOREMS = [('Properties.C03', ['C03_minimize_preserves', 'C03_minimize_preserves_N', 'C03_first_state_is_start',
                                    'C03_not_larger', 'C03_minimize_total', 'C03_minimize_none_iff',
                                    'C03_quotient_certificate', 'C03_example_merge', 'C17_wrap_miscompiles',
                                    'C03_pair_checker_sound', 'C03_all_strings'])]

    def explore(self, rng, tier, rdir, out, replay=None):
        stats = C03.explore(self, rng, tier, rdir, out, replay)
        # correspondence: Coq minimize vs Minimizer::minimize on recorded inputs and on arbitrary automata
        pairs = []
        rf = os.path.join(rdir, 'sweep.results.jsonl')
        for l in open(rf):
            r = json.loads(l)
            for a, b in r.get('minlog', []):
                pairs.append((a, b))
        pairs = pairs[:400 if tier == 'quick' else 4000]
        nrand = 150 if tier == 'quick' else 3000
        rand = [random_dfa(rng) for _ in range(nrand)]
        res = run_harness([{'kind': 'minimize', 'dfa': d} for d in rand], rdir, 'minimize')
        for d, r in zip(rand, res):
            if 'out' in r:
                pairs.append((d, r['out']))
            else:
                out.violations.append({'property': 'C03', 'what': 'Minimizer::minimize panicked on a well-formed automaton', 'dfa': d, 'panic': r.get('panic')})
        shards = [pairs[k:k + 60] for k in range(0, len(pairs), 60)]
        paths = []
        for n, sh_ in enumerate(shards):
            p = os.path.join(rdir, 'mincorr_%03d.v' % n)
            with open(p, 'w') as f:
                f.write('From Scnr Require Import Base Automaton Minimizer.\nOpen Scope N_scope.\nSet Printing Depth 1000000.\nSet Printing Width 1000000.\n')
                terms = []
                for a, _ in sh_:
                    terms.append('(minimize_enc 32 %s)' % dfa_term(a).replace('mk_dfa', 'mk_dfa_min'))
                f.write('Eval vm_compute in %s.\n' % clist(['\n ' + t for t in terms]))
            paths.append(p)
        outs = coq_eval_files(paths)
        agree = 0
        for sh_, (rc, o), p in zip(shards, outs, paths):
            if rc != 0:
                out.broken.append({'what': 'coqc failed on %s' % p, 'detail': o[-2000:]})
                continue
            vals = parse_coq_value(o)
            for (a, b), v in zip(sh_, vals):
                if v == enc_dfa_py(b):
                    agree += 1
                else:
                    out.broken.append({'what': 'correspondence: transcribed minimizer differs from Minimizer::minimize',
                                       'detail': {'input': a, 'impl': enc_dfa_py(b), 'model': v}})
        stats['minimizer_model_comparisons'] = len(pairs)
        stats['minimizer_model_agree'] = agree
        stats['random_automata'] = nrand
        return stats


ALL['C03'] = C03Full


# per-property modules delivered separately (lib/prop_cXX.py define PROPS = {id: class})
import importlib
for _m in ['prop_c08', 'prop_c13', 'prop_c14', 'prop_c15', 'prop_c16', 'prop_c17', 'prop_c18']:
    try:
        _mod = importlib.import_module(_m)
    except ModuleNotFoundError as e:
        if e.name != _m:
            raise
        continue
    ALL.update(_mod.PROPS)
