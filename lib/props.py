"""The properties and how each is explored."""
import itertools
import gen, scan
from driver import ScanProperty


class C05(ScanProperty):
    ID = 'C05'
    THEOREMS = [('Properties.C05', ['C05_selection', 'C05_selection_generic', 'C05_first_among_maximal', 'C05_find_equals_specification',
                                    'C05_mode_okb_sound', 'C05_nonvacuous', 'C05_oracle_is_the_rule', 'C05_specification_accepted_by_oracle'])]
    COQ_TARGETS = ['Properties/C05.vo']
    CAPSTONE = {'quick': 40, 'thorough': 400}      # pipeline model on modes WITH lookaheads (see C01)
    ASSUMPTIONS = ['accepting token types of every automaton are listed in its terminal_ids (mode_okb, checked on every dump)',
                   'token types inside one mode are distinct (known finding D8 otherwise) and below 2^32 (D9)',
                   'lookahead patterns are not nullable']
    RULE = ('half of the cases are ENGINEERED: several patterns are (generalised) prefixes of one word with positive lookaheads that are '
            '(generalised) following pieces, chosen so that extents (length + lookahead length) tie or interleave, often exactly at the '
            'end of the input, with token types shuffled against the listing order; the other half: '
            'modes of 2..5 short patterns over a 3-letter alphabet, >= 1 lookahead (positive or negative), distinct token types '
            'in random priority order, inputs of 0..12 characters with 10% foreign/multi-byte characters; plain next-streams '
            'and mixed histories; non-trivial = distinct (configuration,input,history) in which a token of a pattern with '
            'lookahead was reported or a lookahead pattern lost against another candidate (>= 2 patterns, >= 1 token)')
    N = {'quick': 400, 'thorough': 6000}

    def gen_case(self, rng, i):
        if i % 2 == 1:
            # engineered: prescribed (length, lookahead length) splits of one word, ties at the end of the input;
            # every third of them: lookaheads whose accepted prefix lengths have gaps (the LONGEST lookahead match counts)
            modes, inp = gen.gen_gap_lookahead_case(rng) if i % 6 == 5 else gen.gen_engineered_lookahead_case(rng)
            return {'modes': modes, 'input': inp, 'ops': gen.all_next(inp)}
        alpha = gen.pick_alpha(rng)
        npat = rng.randint(2, 5)
        mode = gen.gen_small_mode(rng, 'M0', alpha, npat, 0.4, min_la=1)
        if i % 5 == 0 and npat <= 3:
            # all priority orders of one pattern set are produced on consecutive indices
            pass
        inp = gen.gen_small_input(rng, alpha)
        if i % 4 == 3:
            ops = gen.gen_history(rng, [mode], inp)
        else:
            ops = gen.all_next(inp)
        return {'modes': [mode], 'input': inp, 'ops': ops}

    def extra_cases(self):
        # every priority order of small pattern sets with interleaving lengths
        base = [{'p': 'ab', 't': 0, 'la': {'pos': True, 'p': 'c'}}, {'p': 'a', 't': 1}, {'p': 'a+', 't': 2, 'la': {'pos': True, 'p': 'a*b'}},
                ]
        cases = []
        for perm in itertools.permutations(base):
            for inp in ['abc', 'aab', 'aaabc', 'ab', 'a', 'abcabc']:
                cases.append({'modes': [{'name': 'M', 'patterns': list(perm), 'transitions': []}], 'input': inp, 'ops': gen.all_next(inp)})
        w = [{'p': 'a', 't': 0, 'la': {'pos': True, 'p': 'x'}}, {'p': 'ab', 't': 1, 'la': {'pos': True, 'p': 'c'}}]
        for perm in itertools.permutations(w):
            cases.append({'modes': [{'name': 'M', 'patterns': list(perm), 'transitions': []}], 'input': 'abc', 'ops': gen.all_next('abc')})
        return cases

    def nontrivial(self, case, res):
        toks = scan.stream_of(res.get('outs', []))
        la_toks = set(p['t'] for m in case['modes'] for p in m['patterns'] if p.get('la'))
        return len(toks) > 0 and len(case['modes'][0]['patterns']) >= 2 and len(la_toks) > 0


ALL = {c.ID: c for c in [C05]}


from driver import CertProperty


class C02(CertProperty):
    ID = 'C02'
    WHAT = 'c02'
    THEOREMS = [('Properties.C02', ['C02_checker_sound', 'C02_minterm_lifting_automaton', 'C02_minterm_lifting_patterns',
                                    'C02_all_strings', 'C02_empty_never_accepted', 'C02_classes_registered'])]
    COQ_TARGETS = ['Properties/C02.vo']
    LEVEL = 'proof'
    ASSUMPTIONS = ['the minterm table equals the class/leaf predicates on every scalar value (established by the exhaustive '
                   'sweep in the harness, not in Coq)',
                   'a pattern leaf denotes the set its one-pattern scanner matches (C08 observation)']
    TRUSTED_EXTRA = ['the exhaustive 1,112,064-scalar sweep producing the minterm partition (Rust harness)']
    RULE = ('programs = repository corpora (tests/data, README; veryl in the thorough tier), enumerated small patterns over two '
            'overlapping classes, random modes (dense 3-letter grammar and full grammar, with lookaheads); for every mode and '
            'every lookahead automaton one theorem "for all non-empty words over the minterm alphabet: accepted token types = '
            'token types with a matching pattern" is generated and Qed-checked by coqc; non-trivial = distinct program with a '
            'repetition, alternation or class')


class C03(CertProperty):
    ID = 'C03'
    WHAT = 'c03'
    THEOREMS = [('Properties.C03', ['C03_pair_checker_sound', 'C03_all_strings'])]
    COQ_TARGETS = ['Properties/C03.vo']
    LEVEL = 'proof'
    ASSUMPTIONS = C02.ASSUMPTIONS[:1]
    TRUSTED_EXTRA = C02.TRUSTED_EXTRA
    RULE = ('every (input, output) pair of Minimizer::minimize recorded while building the C02 program set (modes and lookaheads): '
            'one theorem "for all words: same accepted token types" plus the size and start-state checks per pair, Qed-checked; '
            'non-trivial as for C02')


ALL.update({c.ID: c for c in [C02, C03]})


import os, json
from common import *


def enc_dfa_py(d):
    out = []
    for es, f in zip(d['states'], d['end']):
        row = [1 if f[0] else 0, f[1]]
        for cc, t in sorted(set((e[0], e[1]) for e in es)):
            row += [cc, t]
        out.append(row)
    return out


def random_dfa(rng, maxn=12):
    n = rng.randint(1, maxn)
    ncls = rng.randint(1, 4)
    states = []
    for q in range(n):
        es = []
        for _ in range(rng.randint(0, 3)):
            es.append([rng.randrange(ncls), rng.randrange(n)])
        states.append(es)
    ntok = rng.randint(1, 3)
    end = []
    for q in range(n):
        acc = rng.random() < 0.35
        end.append([acc, rng.randrange(ntok) if acc else 0])
    return {'states': states, 'end': end, 'tids': list(range(ntok)), 'las': []}


class C03Full(C03):
    """Adds the correspondence between the transcribed minimizer and the real one."""
    THEOREMS = [('Properties.C03', ['C03_minimize_preserves', 'C03_minimize_preserves_N', 'C03_first_state_is_start',
                                    'C03_not_larger', 'C03_minimize_total', 'C03_minimize_none_iff',
                                    'C03_quotient_certificate', 'C03_example_merge', 'C17_wrap_miscompiles',
                                    'C03_pair_checker_sound', 'C03_all_strings'])]

    def explore(self, rng, tier, rdir, out, replay=None):
        stats = C03.explore(self, rng, tier, rdir, out, replay)
        # correspondence: Coq minimize vs Minimizer::minimize on recorded inputs and on arbitrary automata
        pairs = []
        rf = os.path.join(rdir, 'sweep.results.jsonl')
        for l in open(rf):
            r = json.loads(l)
            for a, b in r.get('minlog', []):
                pairs.append((a, b))
        pairs = pairs[:400 if tier == 'quick' else 4000]
        nrand = 150 if tier == 'quick' else 3000
        rand = [random_dfa(rng) for _ in range(nrand)]
        res = run_harness([{'kind': 'minimize', 'dfa': d} for d in rand], rdir, 'minimize')
        for d, r in zip(rand, res):
            if 'out' in r:
                pairs.append((d, r['out']))
            else:
                out.violations.append({'property': 'C03', 'what': 'Minimizer::minimize panicked on a well-formed automaton', 'dfa': d, 'panic': r.get('panic')})
        shards = [pairs[k:k + 60] for k in range(0, len(pairs), 60)]
        paths = []
        for n, sh_ in enumerate(shards):
            p = os.path.join(rdir, 'mincorr_%03d.v' % n)
            with open(p, 'w') as f:
                f.write('From Scnr Require Import Base Automaton Minimizer.\nOpen Scope N_scope.\nSet Printing Depth 1000000.\nSet Printing Width 1000000.\n')
                terms = []
                for a, _ in sh_:
                    terms.append('(minimize_enc 32 %s)' % dfa_term(a).replace('mk_dfa', 'mk_dfa_min'))
                f.write('Eval vm_compute in %s.\n' % clist(['\n ' + t for t in terms]))
            paths.append(p)
        outs = coq_eval_files(paths)
        agree = 0
        disagreements = []
        for sh_, (rc, o), p in zip(shards, outs, paths):
            if rc != 0:
                out.broken.append({'what': 'coqc failed on %s' % p, 'detail': o[-2000:]})
                continue
            vals = parse_coq_value(o)
            for (a, b), v in zip(sh_, vals):
                if v == enc_dfa_py(b):
                    agree += 1
                else:
                    disagreements.append((a, b, v))
        # a disagreement between the transcription and the real minimizer: is the real output still
        # equivalent to its input? (classes interpreted as pairwise disjoint symbols, one per class id)
        for k, (a, b, v) in enumerate(disagreements[:5]):
            ncls = 1 + max([e[0] for s_ in a['states'] for e in s_] + [e[0] for s_ in b['states'] for e in s_] + [0])
            path = os.path.join(rdir, 'mindis_%d.v' % k)
            with open(path, 'w') as f:
                f.write('From Scnr Require Import Base Regex Automaton FindFrom Iter IterRun Spec EquivCheck.\nOpen Scope N_scope.\n'
                        'Set Printing Depth 100000.\nSet Printing Width 100000.\n')
                f.write('Definition tblc := tbl_of %s.\n' % cls_term({c: [c] for c in range(ncls)}))
                f.write('Definition ms : list N := %s.\n' % clist([str(c) for c in range(ncls)]))
                f.write('Definition A := %s.\nDefinition B := %s.\n' % (dfa_term(a), dfa_term(b)))
                f.write('Eval vm_compute in ([if aut_equiv_check tblc A B ms (N.to_nat 100000) then 1 else 0],\n'
                        '  match find_cex_aut tblc A B ms (N.to_nat 5000) with Some (w, p, q) => [w; p; q] | None => [] end).\n')
            rc, o = coqc_file(path)
            verdict = None
            if rc == 0:
                try:
                    verdict = parse_coq_value(o)
                except Exception:
                    verdict = None
            if verdict and verdict[0] == [0] and verdict[1]:
                w, before, after = verdict[1]
                out.violations.append({'property': 'C03', 'what': 'Minimizer::minimize changed the accepted token types of an automaton '
                                       '(automaton handed to the minimizer through the hook; classes are pairwise disjoint symbols)',
                                       'dfa': a, 'minimized_by_implementation': b, 'word_of_class_ids': w,
                                       'token_types_before': before, 'token_types_after': after})
            else:
                out.broken.append({'what': 'correspondence: transcribed minimizer differs from Minimizer::minimize (the real output is '
                                           'still equivalent to its input on this automaton)',
                                   'detail': {'input': a, 'impl': enc_dfa_py(b), 'model': v}})
        stats['minimizer_model_comparisons'] = len(pairs)
        stats['minimizer_model_agree'] = agree
        stats['random_automata'] = nrand
        return stats


ALL['C03'] = C03Full


# per-property modules delivered separately (lib/prop_cXX.py define PROPS = {id: class})
import importlib
for _m in ['prop_c08', 'prop_c13', 'prop_c14', 'prop_c15', 'prop_c16', 'prop_c17', 'prop_c18']:
    try:
        _mod = importlib.import_module(_m)
    except ModuleNotFoundError as e:
        if e.name != _m:
            raise
        continue
    ALL.update(_mod.PROPS)


# ----------------------------------------------------------------------------------------------
# iterator properties (scan engine)

import scan as _scan


def dense_config(rng, nmodes, la_prob=0.2, trans=True, npat=(1, 4)):
    alpha = gen.pick_alpha(rng)
    modes = [gen.gen_small_mode(rng, 'M%d' % k, alpha, rng.randint(*npat), la_prob) for k in range(nmodes)]
    if trans:
        gen.add_transitions(rng, modes)
    return modes, alpha


class C06(ScanProperty):
    ID = 'C06'
    THEOREMS = [('Properties.C06', ['C06_has_transition_is_lookup', 'C06_mode_after_next', 'C06_peek_keeps_state', 'C06_set_mode',
                                    'C06_fresh_iterator_mode0', 'C06_compiled_modes_ok', 'C06_built_transitions_are_configured'])]
    COQ_TARGETS = ['Properties/C06.vo']
    CAPSTONE = {'quick': 40, 'thorough': 400}      # pipeline model on several modes with transitions (see C01)
    ASSUMPTIONS = ['at least one mode; transitions strictly sorted by token type and leading to existing modes; set_mode to existing modes',
                   'distinct token types inside a mode (D8), token types < 2^32 (D9)']
    RULE = ('mode graphs of 1..4 modes with 0..3 strictly sorted transitions per mode (self transitions, transitions on token types '
            'that also exist in the target mode or in no mode, token types shared between modes), set_mode on the Scanner before '
            'find_iter; histories of next / peek_n / set_mode / current_mode; non-trivial = distinct case in which the mode changed '
            'at least once (by a transition or set_mode) and a token was delivered afterwards')
    N = {'quick': 400, 'thorough': 8000}

    def gen_shared_vocabulary_case(self, rng):
        """All modes tokenize with the SAME token types (single letters, runs), but their transition tables
        differ (none, self, on some types only); the history interleaves next with set_mode after nearly
        every token, over inputs with long runs of one token type: what happens after a token must depend
        on the table of the mode the iterator is in NOW, not on anything remembered from earlier tokens."""
        nm = rng.randint(2, 4)
        letters = ['a', 'b', 'c'][:rng.randint(2, 3)]
        vocab = [{'p': l if rng.random() < 0.7 else l + '+', 't': 1 + k} for k, l in enumerate(letters)]
        modes = []
        for m in range(nm):
            pats = [dict(p) for p in vocab]
            if rng.random() < 0.3:
                rng.shuffle(pats)
            types = sorted(p['t'] for p in pats)
            tr = [[t, rng.choice([x for x in range(nm) if x != m] + [m])] for t in types if rng.random() < 0.45]
            if m > 0 and rng.random() < 0.3:
                tr = []
            modes.append({'name': 'V%d' % m, 'patterns': pats, 'transitions': tr})
        inp = ''.join(rng.choice(letters) * rng.randint(1, 3) for _ in range(rng.randint(2, 6)))[:14]
        ops = []
        for _ in range(rng.randint(4, 16)):
            r = rng.random()
            if r < 0.55:
                ops.append(['next'])
                if rng.random() < 0.7:
                    ops.append(['current_mode'])      # the tokens are the same in every mode: observe the mode itself
            elif r < 0.78:
                ops.append(['set_mode', rng.randrange(nm)])
            elif r < 0.86:
                # re-positioning is neither a transition token nor set_mode: the mode stays
                ops.append(['set_offset', rng.choice(gen.boundaries(inp))])
                ops.append(['current_mode'])
            elif r < 0.93:
                ops.append(['peek', rng.randint(1, 3)])
            else:
                ops.append(['current_mode'])
        c = {'modes': modes, 'input': inp, 'ops': ops}
        if rng.random() < 0.5:
            # the same mode names and patterns with OTHER transition tables were built through the cache before
            # (in this process): the scanner under test must still switch by its own tables
            pre = []
            for _ in range(rng.randint(1, 2)):
                v = json.loads(json.dumps(modes))
                for m in v:
                    types = sorted(p['t'] for p in m['patterns'])
                    m['transitions'] = [[t, rng.randrange(nm)] for t in types if rng.random() < 0.5]
                pre.append(v)
            c['prebuild'] = pre
            c['cached'] = True
        return c

    def gen_case(self, rng, i):
        if i % 3 == 2:
            return self.gen_shared_vocabulary_case(rng)
        nm = rng.randint(1, 4)
        modes, alpha = dense_config(rng, nm, la_prob=0.1, npat=(1, 6) if i % 3 == 0 else (1, 4))
        inp = gen.gen_small_input(rng, alpha, maxlen=14)
        ops = gen.gen_history(rng, modes, inp, n=rng.randint(3, 14),
                              kinds=['next'] * 6 + ['peek'] * 2 + ['set_mode', 'current_mode', 'current_mode', 'set_offset'])
        c = {'modes': modes, 'input': inp, 'ops': ops}
        if rng.random() < 0.3:
            c['scanner_mode'] = rng.randrange(nm)
        return c

    def nontrivial(self, case, res):
        outs = res.get('outs', [])
        modes_seen = set()
        cur = 0
        changed = False
        tok_after = False
        for o, out in zip(case['ops'], outs):
            if o[0] == 'set_mode' and o[1] != cur:
                cur = o[1]
                changed = True
            if o[0] == 'next' and out and out[0] == 1:
                if changed:
                    tok_after = True
                tr = dict((t, m) for t, m in case['modes'][cur]['transitions'])
                if out[1] in tr and tr[out[1]] != cur:
                    cur = tr[out[1]]
                    changed = True
        return changed and tok_after


class C07(ScanProperty):
    ID = 'C07'
    THEOREMS = [('Properties.C07', ['C07_find_from_nonempty', 'C07_stream_wf', 'C07_none_is_sticky', 'C07_scan_never_panics',
                                    'C07_compiled_never_panics', 'C07_built_scanner_never_panics'])]
    COQ_TARGETS = ['Properties/C07.vo']
    ASSUMPTIONS = ['valid configuration: at least one mode, transitions to existing modes; set_offset on character boundaries or beyond',
                   'build-time panic freedom is property C15 (Nfa model) and C03 (minimizer totality); the closure construction is observed',
                   'distinct token types inside a mode (D8), token types < 2^32 (D9)']
    RULE = ('all generators of C01/C04/C05/C06 mixed (nullable patterns, lookaheads, 1-4 byte characters, mode graphs) with every '
            'call under catch_unwind in a build with debug assertions and overflow checks; histories include next after '
            'exhaustion, advance_to and position with arbitrary arguments; non-trivial = distinct case with at least one token '
            'and at least one None from next')
    N = {'quick': 400, 'thorough': 8000}

    def gen_case(self, rng, i):
        k = i % 4
        gen.NULLABLE_LA = True          # C07 includes lookahead patterns that can match the empty string
        try:
            return self.gen_case_(rng, i, k)
        finally:
            gen.NULLABLE_LA = False

    def gen_case_(self, rng, i, k):
        if k == 0:
            modes = gen.gen_config(rng, nmodes=rng.randint(1, 3), la_prob=0.3, trans=True)
            inp = gen.gen_input(rng, modes)
        else:
            modes, alpha = dense_config(rng, rng.randint(1, 3), la_prob=0.3)
            inp = gen.gen_small_input(rng, alpha, maxlen=12, noise=0.25)
        if k == 1:
            ops = gen.all_next(inp) + [['next']] * 2
        else:
            ops = gen.gen_history(rng, modes, inp, n=rng.randint(4, 16))
        return {'modes': modes, 'input': inp, 'ops': ops}

    def nontrivial(self, case, res):
        outs = res.get('outs', [])
        return any(o and o[0] == 1 for o in outs) and any(o == [0] for o in outs)


class C10(ScanProperty):
    ID = 'C10'
    THEOREMS = [('Properties.C10', ['C10_set_offset', 'C10_tokens_after_reset', 'C10_independent_of_history', 'C10_advance_lands',
                                    'C10_advance_not_beyond_noop', 'C10_next_cursor_is_token_end'])]
    COQ_TARGETS = ['Properties/C10.vo']
    ASSUMPTIONS = C06.ASSUMPTIONS + ['offsets handed to set_offset/with_offset lie on a character boundary or beyond the end']
    RULE = ('inputs with multi-byte characters; set_offset/with_offset to every kind of boundary (0, forwards, backwards, input length, '
            'beyond), interleaved with next / peek_n / advance_to(end of a peeked match, also arbitrary positions) / set_mode; '
            'non-trivial = distinct case with a reset to a position > 0 followed by a delivered token, or advance_to after a peek '
            'followed by a delivered token')
    N = {'quick': 400, 'thorough': 8000}

    def gen_case(self, rng, i):
        modes, alpha = dense_config(rng, rng.randint(1, 2), la_prob=0.25)
        inp = gen.gen_small_input(rng, alpha, maxlen=14, noise=0.2)
        bs = gen.boundaries(inp)
        ops = []
        for _ in range(rng.randint(3, 12)):
            r = rng.random()
            if r < 0.3:
                ops.append(['set_offset', rng.choice(bs) if rng.random() < 0.85 else bs[-1] + rng.choice([1, 5])])
            elif r < 0.6:
                ops.append(['next'])
            elif r < 0.75:
                ops.append(['peek', rng.randint(1, 4)])
                if rng.random() < 0.8:
                    ops.append(['advance_to_peeked', rng.randint(0, 3)])
            elif r < 0.82:
                ops.append(['advance_to', rng.randint(0, bs[-1] + 2)])
            elif r < 0.9:
                ops.append(['set_mode', rng.randrange(len(modes))])
            else:
                ops.append(['offset'])
        ops += [['next']] * rng.randint(1, 3)
        return {'modes': modes, 'input': inp, 'ops': ops}

    def nontrivial(self, case, res):
        outs = res.get('outs', [])
        armed = False
        for o, out in zip(case['ops'], outs):
            if (o[0] == 'set_offset' and o[1] > 0) or o[0] == 'advance_to_peeked':
                armed = True
            if armed and o[0] == 'next' and out and out[0] == 1:
                return True
        return False


class C11(ScanProperty):
    ID = 'C11'
    THEOREMS = [('Properties.C11', ['C11_peek_is_iterated_next', 'C11_classification', 'C11_peek_total', 'C11_peek_pure'])]
    COQ_TARGETS = ['Properties/C11.vo']
    ASSUMPTIONS = C06.ASSUMPTIONS
    RULE = ('n in 0..6, inputs with characters no pattern matches, mode graphs of C06; peek_n at every point of histories followed by '
            'the next calls it predicts, also after resets; non-trivial = distinct case whose peek_n returned at least two matches '
            'or stopped at a mode switch or at the end after skipping an unmatched character')
    N = {'quick': 400, 'thorough': 8000}

    def gen_case(self, rng, i):
        modes, alpha = dense_config(rng, rng.randint(1, 3), la_prob=0.15)
        inp = gen.gen_small_input(rng, alpha, maxlen=14, noise=0.25)
        bs = gen.boundaries(inp)
        ops = []
        for _ in range(rng.randint(2, 6)):
            n = rng.randint(0, 6)
            if rng.random() < 0.25:
                ops.append(['set_offset', rng.choice(bs)])
            if rng.random() < 0.15:
                ops.append(['set_mode', rng.randrange(len(modes))])
            ops.append(['peek', n])
            ops.append(['current_mode'])
            if rng.random() < 0.4:
                # a peek changes nothing about ANY later call, a later peek included: the same peek again, directly or
                # after the only things that may change its answer (mode, position), must be computed afresh
                r = rng.random()
                if r < 0.45 and len(modes) > 1:
                    ops.append(['set_mode', rng.randrange(len(modes))])
                elif r < 0.7:
                    ops.append(['set_offset', rng.choice(bs)])
                ops.append(['peek', n if rng.random() < 0.8 else rng.randint(0, 6)])
            ops += [['next']] * rng.randint(0, n)
        return {'modes': modes, 'input': inp, 'ops': ops}

    def nontrivial(self, case, res):
        for o, out in zip(case['ops'], res.get('outs', [])):
            if o[0] == 'peek' and out and ((out[0] in (1, 2) and out[1] >= 2) or out[0] == 3):
                return True
        return False


class C12(ScanProperty):
    """Isolation: interleavings of several iterators; every iterator's outputs are compared with the
    model run of its own projection."""
    ID = 'C12'
    THEOREMS = [('Properties.C12', ['C12_isolation', 'C12_scratch_irrelevant', 'C12_calls_independent', 'C12_without_clearing_refuted',
                                    'C12_source_premises', 'C12_fresh_iterator', 'C12_independent_of_past'])]
    COQ_TARGETS = ['Properties/C12.vo']

    def regen(self, out):
        import c12_facts
        c12_facts.regen(out)
    ASSUMPTIONS = ['partial: in the functional model iterators share nothing by construction; the scratch vectors are modelled and '
                   'proved irrelevant; that an iterator owns all its state (clone per find_iter, only the immutable registry and predicate '
                   'shared, no interior mutability, fields = modelled state) is read off the source on every run (Gen/IsolationFacts.v) and '
                   'observed by the correspondence; exclusion of aliasing by &mut is the type system\'s guarantee, not proved']
    RULE = ('worlds of 2..3 iterators over 1..2 inputs created from one Scanner or from two scanners obtained through the cache for '
            'equal configurations, with set_mode on the Scanner, partially consumed and dropped iterators, interleaved next / peek_n '
            '/ set_offset / set_mode / advance_to; in 30% of the worlds the inputs are slices of ONE buffer with the same start and different ends (aliased inputs, harness option shared_storage); each iterator\'s outputs are compared with the Coq model run on its own '
            'projection; non-trivial = distinct world in which at least two iterators delivered tokens in an interleaved order')
    N = {'quick': 250, 'thorough': 5000}

    def explore(self, rng, tier, rdir, out, replay=None):
        if replay:
            payload = json.load(open(replay))
            worlds = [payload['world']] if 'world' in payload else []
        else:
            worlds = [self.gen_world(rng) for _ in range(self.N[tier])]
        jobs = []
        for i, w in enumerate(worlds):
            j = dict(w)
            j.update({'id': i, 'kind': 'world'})
            jobs.append(j)
        # cached worlds share the process-wide cache: configurations are generated fresh per world
        results = run_harness(jobs, rdir, 'world')
        entries = []
        for wi, (w, r) in enumerate(zip(worlds, results)):
            if r.get('build') != 'ok':
                out.violations.append({'property': 'C12', 'what': 'supported configuration does not build: %s' % r.get('error'), 'world': w})
                continue
            if r.get('world_panic'):
                out.violations.append({'property': 'C12', 'what': 'panic outside an iterator operation', 'world': w})
                continue
            per = {}
            inp_of = {}
            for st in w['steps']:
                if st[0] == 'new':
                    per[st[1]] = []
                    inp_of[st[1]] = w['inputs'][st[3]]
                elif st[0] == 'op' and st[1] in per:
                    per[st[1]].append(st[2:])
                elif st[0] == 'drop':
                    pass
            # ops after a drop are not executed by the harness: cut the projection
            dropped = set()
            per = {}
            for st in w['steps']:
                if st[0] == 'new':
                    per[st[1]] = []
                    dropped.discard(st[1])
                elif st[0] == 'drop':
                    dropped.add(st[1])
                elif st[0] == 'op' and st[1] in per and st[1] not in dropped:
                    per[st[1]].append(st[2:])
            impl = dict((k, v) for k, v in r['outs'])
            for it, ops in per.items():
                modes_t = clist([mode_term(m) for m in r['dump']['modes']])
                term = '(run_case %s %s 0 %s %s)' % (cls_term(r['cls']), modes_t, input_term(inp_of[it]), ops_term(ops))
                entries.append((wi, it, term, impl.get(it, [])))
        shards = [entries[k:k + 40] for k in range(0, len(entries), 40)]
        paths = []
        for n, sh_ in enumerate(shards):
            p = os.path.join(rdir, 'world_%03d.v' % n)
            with open(p, 'w') as f:
                f.write(HEADER)
                f.write('Eval vm_compute in %s.\n' % clist(['\n ' + e[2] for e in sh_]))
            paths.append(p)
        outs = coq_eval_files(paths)
        nt = 0
        for sh_, (rc, o), p in zip(shards, outs, paths):
            if rc != 0:
                out.broken.append({'what': 'coqc failed on %s' % p, 'detail': o[-2000:]})
                continue
            vals = parse_coq_value(o)
            for (wi, it, _, impl), v in zip(sh_, vals):
                # the model stops at a panic; the harness too
                if v != impl:
                    out.violations.append({'property': 'C12', 'what': 'iterator %d: outputs differ from the run of its own operations alone' % it,
                                           'world': worlds[wi], 'impl': impl, 'model_alone': v})
        seen = set()
        for w, r in zip(worlds, results):
            h = canon_hash(w)
            if h in seen or r.get('build') != 'ok':
                continue
            seen.add(h)
            active = [k for k, v in r['outs'] if any(o and o[0] == 1 for o in v)]
            if len(active) >= 2:
                nt += 1
        return {'evaluations': len(worlds), 'distinct_nontrivial': nt, 'rule': self.RULE,
                'samples': worlds[:2], 'iterator_projections_compared': len(entries),
                'cached_worlds': sum(1 for w in worlds if w.get('cached'))}

    def gen_world(self, rng):
        modes, alpha = dense_config(rng, rng.randint(1, 3), la_prob=0.15)
        inputs = [gen.gen_small_input(rng, alpha, maxlen=10, noise=0.15) for _ in range(rng.randint(1, 2))]
        cached = rng.random() < 0.4
        nsc = 2 if rng.random() < 0.4 else 1
        if rng.random() < 0.3:
            # engineered: the Scanner's own mode is moved around (to modes of every kind: with and without
            # transitions) BEFORE iterators are created; every new iterator must start in mode 0 and switch
            # exactly as a fresh scanner's iterator does; complete scans so that transitions are exercised
            modes, alpha = dense_config(rng, rng.randint(2, 3), la_prob=0.1)
            if not modes[0]['transitions']:
                modes[0]['transitions'] = [[modes[0]['patterns'][0]['t'], rng.randrange(1, len(modes))]]
            k = rng.randrange(1, len(modes))
            if rng.random() < 0.6:
                modes[k]['transitions'] = []
            inputs = [gen.gen_small_input(rng, alpha, maxlen=10, noise=0.1) for _ in range(2)]
            steps = []
            nid = 0
            for rnd in range(rng.randint(1, 3)):
                steps.append(['scanner_set_mode', rng.randrange(nsc), k if rnd == 0 else rng.randrange(len(modes))])
                sc_i = steps[-1][1]
                ii = rng.randrange(len(inputs))
                steps.append(['new', nid, sc_i, ii])
                for _ in range(len(inputs[ii]) + 1):
                    steps.append(['op', nid, 'next'])
                    if rng.random() < 0.15:
                        steps.append(['op', nid, 'current_mode'])
                nid += 1
            return {'modes': modes, 'inputs': inputs, 'cached': cached, 'nscanners': nsc, 'steps': steps}
        steps = []
        nit = rng.randint(2, 3)
        live = []
        nextid = 0
        shared = False
        if rng.random() < 0.3:
            # aliased inputs: slices of ONE buffer with the same start and different ends (`&text[..n]` and `text`; a
            # refilled line buffer). What an iterator yields depends on ITS input, not on the address of its bytes: the
            # first iterators are created on the shorter slices, deliver/peek one token, then the longer ones start
            base = gen.gen_small_input(rng, alpha, maxlen=10, noise=0.1) or 'ab'
            cuts = sorted(set(rng.randint(1, len(base)) for _ in range(rng.randint(1, 2))))
            inputs = [base[:c] for c in cuts] + [base]
            shared = True
            for ii in range(len(inputs)):
                steps.append(['new', nextid, rng.randrange(nsc), ii])
                live.append((nextid, ii))
                steps.append(['op', nextid, 'next'] if rng.random() < 0.7 else ['op', nextid, 'peek', 1])
                if rng.random() < 0.3:
                    steps.append(['drop', nextid])
                    live.pop()
                nextid += 1
            nit = nextid
        for _ in range(rng.randint(6, 24)):
            r = rng.random()
            if (r < 0.15 or not live) and nextid < nit + 2:
                steps.append(['new', nextid, rng.randrange(nsc), rng.randrange(len(inputs))])
                live.append((nextid, steps[-1][3]))
                nextid += 1
            elif r < 0.2 and live:
                it = rng.choice(live)
                live.remove(it)
                steps.append(['drop', it[0]])
            elif r < 0.27:
                steps.append(['scanner_set_mode', rng.randrange(nsc), rng.randrange(len(modes))])
            elif live:
                it, ii = rng.choice(live)
                bs = gen.boundaries(inputs[ii])
                k = rng.random()
                if k < 0.55:
                    steps.append(['op', it, 'next'])
                elif k < 0.7:
                    steps.append(['op', it, 'peek', rng.randint(0, 3)])
                    if rng.random() < 0.5:
                        # "unaffected by peeks": a peek directly followed by a change of what the next call must
                        # compute (mode, position) and the next call itself
                        if rng.random() < 0.7:
                            steps.append(['op', it, 'set_mode', rng.randrange(len(modes))])
                        else:
                            steps.append(['op', it, 'set_offset', rng.choice(bs)])
                        steps.append(['op', it, 'next'])
                elif k < 0.8:
                    steps.append(['op', it, 'set_offset', rng.choice(bs)])
                elif k < 0.88:
                    steps.append(['op', it, 'set_mode', rng.randrange(len(modes))])
                elif k < 0.95:
                    steps.append(['op', it, 'advance_to', rng.randint(0, bs[-1] + 1)])
                else:
                    steps.append(['op', it, 'current_mode'])
        w = {'modes': modes, 'inputs': inputs, 'cached': cached, 'nscanners': nsc, 'steps': steps}
        if shared:
            w['shared_storage'] = True
        return w


ALL.update({c.ID: c for c in [C06, C07, C10, C11, C12]})


import itertools as _it


def certify_subset(prop, rdir, out, stats, limit):
    """Discharges the lang_equiv hypothesis of the rule theorems for a subset of the explored
    configurations: their compiled automata get C02 certificates (Qed-checked)."""
    jf = os.path.join(rdir, 'scan.json')
    if not os.path.exists(jf):
        return
    jobs = json.load(open(jf))['jobs']
    seen, progs = set(), []
    for j in jobs:
        h = canon_hash(j['modes'])
        if h in seen or j.get('simple'):
            continue
        # outside the theorems' domain (known findings D8, D9): duplicate token types in a mode, types >= 2^32
        if any(len(set(q['t'] for q in m['patterns'])) != len(m['patterns']) or any(q['t'] >= 2 ** 32 for q in m['patterns'])
               for m in j['modes']):
            continue
        seen.add(h)
        progs.append({'name': 'p%d' % len(progs), 'modes': j['modes'], 'inputs': []})
        if len(progs) >= limit:
            break
    cert = C02()
    cert.ID = prop.ID
    cdir = os.path.join(rdir, 'certs')
    os.makedirs(cdir, exist_ok=True)
    cs = cert.explore(None, 'quick', cdir, out, programs=progs)
    stats['lang_equiv_certificates_generated'] = cs.get('certificates_generated', 0)
    stats['lang_equiv_certificates_checked_by_kernel'] = cs.get('certificates_checked_by_kernel', 0)
    stats['lang_equiv_programs'] = cs.get('programs', 0)


class C01(ScanProperty):
    ID = 'C01'
    THEOREMS = [('Properties.C01', ['C01_longest_match_first_pattern', 'C01_priority_is_pattern_index', 'C01_stream_is_iterated_rule',
                                    'C01_skip_one_character', 'C01_lang_equiv_from_certificate', 'C01_find_equals_specification',
                                    'C01_specification_is_maximal_candidate', 'C01_simple_builder_types', 'C01_nonvacuous',
                                    'C01_judge_accepts_specification_stream']),
                ('Properties.C01c', ['C01_compiled_mode_finds_specified_token', 'C01_compiled_scanner_is_specification',
                                     'C01_terminal_ids_are_pattern_order', 'C01_capstone_nonvacuous', 'C01_capstone_check_sound', 'C01_built_mode_ok', 'C01_source_rule',
                                     'C01_specification_patterns_are_the_source_patterns', 'C01_scanner_from_source_is_specification',
                                     'C01_specification_is_semantic', 'C01_from_source_nonvacuous'])]
    COQ_TARGETS = ['Properties/C01.vo', 'Properties/C01c.vo']
    CERTS = {'quick': 40, 'thorough': 600}
    # the capstone's boolean hypotheses and its pipeline model are evaluated on explored configurations here (and only
    # here: the other iterator properties do not depend on how the automata are numbered)
    CAPSTONE = {'quick': 60, 'thorough': 600}

    def explore(self, rng, tier, rdir, out, replay=None):
        stats = ScanProperty.explore(self, rng, tier, rdir, out, replay)
        if not replay:
            certify_subset(self, rdir, out, stats, self.CERTS[tier])
        return stats

    ASSUMPTIONS = ['distinct token types inside the mode (D8), token types < 2^32 (D9)',
                   'a pattern leaf denotes the set its one-pattern scanner matches (C08)']
    RULE = ('modes WITHOUT lookaheads: 1..6 patterns from the dense 3-letter grammar and from the full grammar (overlapping '
            'languages and classes, nullable patterns, multi-byte characters), every priority order for <= 3 patterns, arbitrary '
            'token-type numbers, add_patterns (token type = index) in every 5th case; inputs of 0..16 characters incl. characters no '
            'pattern matches; plain token streams (also from a start offset) are judged by the declarative rule on the parsed ASTs '
            '(check_stream / spec_tokens), histories by the specification-driven iterator; non-trivial = distinct case with >= 2 '
            'patterns and >= 2 tokens')
    N = {'quick': 400, 'thorough': 8000}

    def __init__(self):
        self.pending = []

    def gen_case(self, rng, i):
        if self.pending:
            return self.pending.pop()
        if i % 8 == 7:
            # a token that begins inside a run of the character at which the previous attempt failed
            modes, inp = gen.gen_run_retry_case(rng)
        elif i % 8 == 3:
            # ties at several lengths inside one token
            modes, inp = gen.gen_tie_ladder_case(rng)
        elif i % 3 == 0:
            modes = gen.gen_config(rng, nmodes=1, la_prob=0.0, trans=False, depth=rng.randint(1, 3), max_pat=6)
            inp = gen.gen_input(rng, modes)
        else:
            alpha = gen.pick_alpha(rng)
            modes = [gen.gen_small_mode(rng, 'M0', alpha, rng.randint(1, 6), 0.0)]
            inp = gen.gen_small_input(rng, alpha, maxlen=16, noise=0.15)
        ops = gen.all_next(inp)
        if rng.random() < 0.2:
            ops = [['set_offset', rng.choice(gen.boundaries(inp))]] + ops
        case = {'modes': modes, 'input': inp, 'ops': ops}
        # patterns at the edge of the grammar, in any position of the list: the empty pattern, patterns that match only
        # the empty string, a pattern that matches nothing longer than one character
        if rng.random() < 0.25:
            modes[0]['patterns'].insert(rng.randrange(len(modes[0]['patterns']) + 1),
                                        {'p': rng.choice(['', '', '()', 'a{0}', '(|)', 'x?']), 't': 90 + rng.randint(0, 5)})
        if i % 5 == 4:
            if rng.random() < 0.5:
                # add_patterns: the token type is the INDEX in the list, also behind patterns that never yield a token
                modes[0]['patterns'].insert(rng.randrange(len(modes[0]['patterns'])), {'p': rng.choice(['', '', '()']), 't': 0})
            for k, p in enumerate(modes[0]['patterns']):
                p['t'] = k
            case['simple'] = True
            if rng.random() < 0.4:
                # modes added to the builder BEFORE add_patterns are ignored (documented)
                case['simple_pre'] = [gen.gen_small_mode(rng, 'PRE%d' % k, ('a', 'b', 'c'), rng.randint(1, 3), 0.2) for k in range(rng.randint(1, 2))]
        pats = modes[0]['patterns']
        if 2 <= len(pats) <= 3 and not case.get('simple') and i % 4 == 1:
            # all priority orders of this pattern set on the same input
            for perm in list(_it.permutations(pats))[1:]:
                self.pending.append({'modes': [{'name': 'M0', 'patterns': list(perm), 'transitions': []}], 'input': inp, 'ops': ops})
        return case

    def nontrivial(self, case, res):
        return len(case['modes'][0]['patterns']) >= 2 and len(_scan.stream_of(res.get('outs', []))) >= 2


class C04(ScanProperty):
    ID = 'C04'
    THEOREMS = [('Properties.C04', ['C04_reported_token_is_gated', 'C04_completeness', 'C04_end_of_input', 'C04_rest_is_rescanned',
                                    'C04_any_offset'])]
    COQ_TARGETS = ['Properties/C04.vo']
    CERTS = {'quick': 40, 'thorough': 600}

    def explore(self, rng, tier, rdir, out, replay=None):
        stats = ScanProperty.explore(self, rng, tier, rdir, out, replay)
        if not replay:
            certify_subset(self, rdir, out, stats, self.CERTS[tier])
        return stats

    ASSUMPTIONS = C01.ASSUMPTIONS + ['lookahead patterns cannot match the empty string']
    RULE = ('modes mixing patterns with positive, negative and no lookahead (non-nullable lookahead patterns), 1..5 patterns, mode '
            'graphs with transitions in a third of the cases; every scan start offset on a character boundary via '
            'with_offset/set_offset; plain streams judged by check_stream on the parsed ASTs (every token a candidate with '
            'satisfied lookahead of maximal extent, no candidate at skipped positions); non-trivial = distinct case where a '
            'pattern with lookahead was reported or its lookahead rejected a match (the stream differs from the stream of the '
            'same mode without lookaheads is not measured; counted: >= 1 lookahead and >= 1 token)')
    N = {'quick': 400, 'thorough': 8000}

    def gen_case(self, rng, i):
        if i % 4 == 1:
            modes, inp = gen.gen_engineered_lookahead_case(rng)
            ops = gen.all_next(inp)
            if rng.random() < 0.4:
                ops = [['set_offset', rng.choice(gen.boundaries(inp))]] + ops
            return {'modes': modes, 'input': inp, 'ops': ops}
        alpha = gen.pick_alpha(rng)
        nm = 1 if i % 3 else rng.randint(1, 3)
        modes = [gen.gen_small_mode(rng, 'M%d' % k, alpha, rng.randint(1, 5), 0.5, min_la=1) for k in range(nm)]
        if rng.random() < 0.3:
            # the same lookahead TEXT with the opposite polarity on another pattern of the mode ("X followed by S" /
            # "X not followed by S"), and the same text on a pattern of another mode
            m = rng.choice(modes)
            las = [p for p in m['patterns'] if p.get('la')]
            if las:
                src = rng.choice(las)
                used = set(p['t'] for p in m['patterns'])
                t = rng.choice([x for x in range(20, 40) if x not in used])
                twin = {'p': src['p'] if rng.random() < 0.6 else gen.gen_small_re(rng, alpha), 't': t,
                        'la': {'pos': not src['la']['pos'], 'p': src['la']['p']}}
                m['patterns'].insert(rng.randrange(len(m['patterns']) + 1), twin)
        if nm > 1:
            gen.add_transitions(rng, modes)
        inp = gen.gen_small_input(rng, alpha, maxlen=14, noise=0.15)
        ops = gen.all_next(inp)
        bs = gen.boundaries(inp)
        r = rng.random()
        if r < 0.6:
            ops = [['set_offset', rng.choice(bs)]] + ops
        elif r < 0.7:
            ops = [['set_offset', bs[-1] + 3]] + ops
        return {'modes': modes, 'input': inp, 'ops': ops}

    def extra_cases(self):
        # end-of-input rule: positive lookahead fails, negative holds
        cs = []
        for pos in (True, False):
            m = [{'name': 'M', 'patterns': [{'p': 'a', 't': 1, 'la': {'pos': pos, 'p': 'b'}}, {'p': 'b', 't': 2}], 'transitions': []}]
            for inp in ['a', 'ab', 'aab', 'ba', 'aé', 'éa']:
                cs.append({'modes': m, 'input': inp, 'ops': gen.all_next(inp)})
        return cs

    def nontrivial(self, case, res):
        has_la = any(p.get('la') for m in case['modes'] for p in m['patterns'])
        return has_la and len(_scan.stream_of(res.get('outs', []))) >= 1


def pos_spec(data, o):
    o = min(o, len(data))
    line = 1 + data[:o].count(b'\n')
    ls = data.rfind(b'\n', 0, o) + 1
    return [line, o - ls + 1]


def pos_allowed(data, o):
    al = [pos_spec(data, o)]
    if 0 < o <= len(data) and data[o - 1:o] == b'\n':
        # the column after the line break, on the line of the break
        prev = pos_spec(data, o - 1)
        al.append([prev[0], prev[1] + 1])
    return al


# only U+000A starts a line: characters that are line breaks elsewhere (CR, VT, FF, NEL, LS, PS) and characters whose code
# point or encoding contains the byte 0x0A / 0x0D when truncated (U+010A, U+040A, U+4E0A, U+0A0A, U+1000A, U+010D, U+0A00)
LINE_LOOKALIKES = ['\r', '\x0b', '\x0c', '\u0085', '\u2028', '\u2029', '\u010a', '\u040a', '\u4e0a', '\u0a0a', '\U0001000a',
                   '\u010d', '\u0a00', '\u0a0d']


class C09(ScanProperty):
    ID = 'C09'
    THEOREMS = [('Properties.C09', ['C09_spec_unfold', 'C09_spec_line_start', 'C09_spec_line', 'C09_spec_line_of_boundary', 'C09_spec_column', 'C09_spec_after_break', 'C09_invariant_init', 'C09_invariant_step', 'C09_invariant_history', 'C09_history_total', 'C09_bookkeeping_step', 'C09_position_of_scanned_offset', 'C09_position_of_recorded_offset', 'C09_position_at_unrecorded_frontier', 'C09_position_cases', 'C09_match_positions', 'C09_next_pos_output', 'C09_exhausted_positions', 'C09_ex_starts', 'C09_ex_spec', 'C09_ex_run', 'C09_ex_history_scanned', 'C09_ex_frontier', 'C09_ex_applies', 'C09_ex_forward_reset'])]
    COQ_TARGETS = ['Properties/C09.vo']
    ASSUMPTIONS = ['set_offset only to already scanned offsets (the property\'s quantifier); histories that reset beyond the frontier '
                   'are still compared with the model but not judged by the position oracle']
    RULE = ('inputs with empty lines, trailing newline, \\r\\n, multi-byte and unmatched characters; WithPositions histories of '
            'next / set_offset (mostly to already scanned boundaries) / exhaustion / position queries; every delivered start/end '
            'position and every position(o) for o below the frontier is judged by an independent oracle (1 + number of \\n before o, '
            'byte column) computed from the input text; non-trivial = distinct in-domain case with >= 2 lines touched and >= 1 '
            'reset or exhaustion followed by a position check')
    N = {'quick': 400, 'thorough': 8000}

    def gen_rescan_case(self, rng):
        """Many short lines, tokens that span line breaks, and the history the property names: scan (to the
        end or part of the way), then any number of rounds of {reset to an already scanned offset (inside
        tokens, inside lines, at line starts), a PARTIAL re-scan, position queries for every boundary}."""
        pats = rng.choice([
            [{'p': '(a|b|\\n)+', 't': 1}, {'p': ';', 't': 2}],
            [{'p': '[ab]+\\n?', 't': 1}, {'p': '\\n', 't': 2}, {'p': ';', 't': 3}],
            [{'p': 'a+', 't': 1}, {'p': 'b+', 't': 2}, {'p': '\\n+', 't': 3}],
            [{'p': '[ab]', 't': 1}, {'p': '(\\n|;)(\\n|;)?', 't': 2}],
            [{'p': '[^;]+', 't': 1}],
            [{'p': 'a', 't': 1}],                      # most characters unmatched: the skip path records the lines
            # delimited multi-line tokens: where a scan starts decides how the text is cut into tokens, so a reset
            # into a token makes ONE later token cover known and new line starts
            [{'p': '[ab]+', 't': 1}, {'p': '\\n', 't': 2}, {'p': ';[^;]*;', 't': 3}, {'p': ';', 't': 4}],
            [{'p': '[ab]+', 't': 1}, {'p': '\\n', 't': 2}, {'p': ';[^;]*;', 't': 3}, {'p': ';', 't': 4}],
            [{'p': '[ab\\n]', 't': 1}, {'p': ';([ab]|\\n)*;?', 't': 3}],
        ])
        if rng.random() < 0.35:
            # constructed: the first pass cuts `;w;` and then the words and line breaks of `mid` one by one and stops
            # inside mid; the reset goes to the SECOND delimiter, from where ONE token `;mid;` covers line starts
            # recorded in the first pass and line starts never seen before
            pats = [{'p': '[ab]+', 't': 1}, {'p': '\\n', 't': 2}, {'p': ';[^;]*;', 't': 3}, {'p': ';', 't': 4}]
            w = ''.join(rng.choice('ab') for _ in range(rng.randint(0, 2)))
            pieces = []
            for _ in range(rng.randint(2, 4)):
                pieces.append('\n')
                if rng.random() < 0.7:
                    pieces.append(''.join(rng.choice('ab') for _ in range(rng.randint(1, 2))))
            mid = ''.join(pieces)
            tail = rng.choice(['', 'a', '\nb', '\n', 'a\n;b'])
            inp = ';' + w + ';' + mid + ';' + tail
            k = 1 + rng.randint(1, max(1, len(pieces) - 1))
            ops = [['nextpos']] * k + [['set_offset', 1 + len(w)]] + [['nextpos']] * rng.randint(1, 2)
            bs = gen.boundaries(inp)
            ops += [['position', b] for b in bs if b <= len(';' + w + ';' + mid + ';')]
            if rng.random() < 0.6:
                ops += [['nextpos']] * (len(inp) + 1) + [['position', b] for b in bs]
            return {'modes': [{'name': 'M0', 'patterns': pats, 'transitions': []}], 'input': inp, 'ops': ops, 'with_positions': True}
        modes = [{'name': 'M0', 'patterns': pats, 'transitions': []}]
        nl = rng.randint(2, 6)
        lines = [''.join(rng.choice(['a', 'b', 'a', 'b', ';', ';', '\u00e9']) for _ in range(rng.randint(0, 3))) for _ in range(nl)]
        inp = '\n'.join(lines) + ('\n' if rng.random() < 0.5 else '')
        bs = gen.boundaries(inp)
        ops = []
        if rng.random() < 0.45:
            ops += [['nextpos']] * (len(inp) + 1)          # exhausted: every offset is an already scanned one
            low = bs
        else:
            k = rng.randint(2, 6)
            ops += [['nextpos']] * k
            # k tokens cover at least k characters: offsets up to there are already scanned (later ones may or may
            # not be; the judge drops a case from the first reset beyond the frontier on)
            low = [b for b in bs if b <= len(''.join(list(inp)[:k]).encode('utf-8')) + (rng.randint(0, 2) if rng.random() < 0.3 else 0)] or [0]
        for _ in range(rng.randint(1, 3)):
            ops.append(['set_offset', rng.choice(low)])
            ops += [['nextpos']] * rng.randint(0, 3)
            qs = list(bs)
            rng.shuffle(qs)
            for b in qs[:rng.randint(2, len(qs))]:
                ops.append(['position', b])
        if rng.random() < 0.5:
            ops += [['nextpos']] * (len(inp) + 1) + [['position', b] for b in bs]
        return {'modes': modes, 'input': inp, 'ops': ops, 'with_positions': True}

    def gen_case(self, rng, i):
        if i % 3 == 1:
            return self.gen_rescan_case(rng)
        alpha = rng.choice([('a', 'b', '\n'), ('a', '\n', 'é'), ('a', 'b', '\n'), ('\r', '\n', 'a'), ('a', '\n', rng.choice(LINE_LOOKALIKES))])
        modes = [gen.gen_small_mode(rng, 'M0', alpha, rng.randint(1, 4), 0.15)]
        if rng.random() < 0.5:
            modes[0]['patterns'].append({'p': '\\n', 't': 55})
        n = rng.randint(0, 14)
        inp = ''.join(rng.choice(alpha + ('\n',)) if rng.random() > 0.15 else rng.choice(['-', '€', '😀'] + LINE_LOOKALIKES) for _ in range(n))
        if rng.random() < 0.3:
            inp += '\n'
        bs = gen.boundaries(inp)
        ops = []
        for _ in range(rng.randint(3, 16)):
            r = rng.random()
            if r < 0.55:
                ops.append(['nextpos'])
            elif r < 0.7:
                ops.append(['set_offset', rng.choice(bs)])
            elif r < 0.95:
                ops.append(['position', rng.choice(bs) if rng.random() < 0.9 else rng.randint(0, bs[-1] + 2)])
            else:
                ops.append(['current_mode'])
        if rng.random() < 0.5:
            ops += [['nextpos']] * (len(inp) + 1) + [['position', rng.choice(bs)], ['position', bs[-1]]]
        return {'modes': modes, 'input': inp, 'ops': ops, 'with_positions': True}

    def judge(self, case, res):
        """Returns (in_domain, violation text or None, interesting)."""
        data = case['input'].encode('utf-8')
        F = 0
        ok_domain = True
        checks = 0
        reset_or_end = False
        for o, out in zip(case['ops'], res.get('outs', [])):
            if out == [PANIC]:
                return ok_domain, 'panic', False
            if o[0] == 'nextpos':
                if out and out[0] == 1:
                    t, s, e, l1, c1, l2, c2 = out[1:8]
                    F = max(F, e)
                    if ok_domain:
                        if [l1, c1] != pos_spec(data, s):
                            return True, 'start position of token %s is %s, expected %s' % ([t, s, e], [l1, c1], pos_spec(data, s)), False
                        if [l2, c2] not in pos_allowed(data, e):
                            return True, 'end position of token %s is %s, expected one of %s' % ([t, s, e], [l2, c2], pos_allowed(data, e)), False
                        checks += 1
                else:
                    F = len(data)
                    reset_or_end = True
            elif o[0] == 'set_offset':
                tgt = min(o[1], len(data))
                if tgt > F:
                    ok_domain = False
                reset_or_end = True
            elif o[0] == 'position':
                if ok_domain and o[1] <= F:
                    if out not in pos_allowed(data, o[1]) or (o[1] < F and out != pos_spec(data, o[1]) and not (data[o[1] - 1:o[1]] == b'\n')):
                        return True, 'position(%d) is %s, expected %s' % (o[1], out, pos_allowed(data, o[1])), False
                    checks += 1
        return ok_domain, None, (ok_domain and checks > 0 and reset_or_end and data.count(b'\n') >= 1)

    def nontrivial(self, case, res):
        return self.judge(case, res)[2]

    def explore(self, rng, tier, rdir, out, replay=None):
        stats = ScanProperty.explore(self, rng, tier, rdir, out, replay)
        # the independent position oracle on the implementation's outputs
        jf = os.path.join(rdir, 'scan.json')
        rf = os.path.join(rdir, 'scan.results.jsonl')
        jobs = json.load(open(jf))['jobs']
        results = [json.loads(l) for l in open(rf)]
        judged = indom = 0
        for j, r in zip(jobs, results):
            if r.get('build') != 'ok' or not j.get('with_positions'):
                continue
            case = {'modes': j['modes'], 'input': j['input'], 'ops': j['ops'], 'with_positions': True}
            dom, viol, _ = self.judge(case, r)
            judged += 1
            indom += 1 if dom else 0
            if viol:
                out.violations.append({'property': 'C09', 'what': 'position oracle: ' + viol, 'case': case, 'impl': r['outs']})
        stats['position_oracle_cases'] = judged
        stats['in_domain_cases'] = indom
        return stats


ALL.update({c.ID: c for c in [C01, C04, C09]})


class ClassIds:
    """Leaf ids = class ids of the registry: index of the leaf text in dump.classes."""
    def __init__(self, classes):
        self.ids = {s: i for i, s in enumerate(classes)}

    def get(self, s):
        return self.ids[s]


class C02Full(C02):
    """Adds the correspondence of the end-to-end compile model (Thompson construction, multi-pattern
    closure construction, minimizer) with the automata the implementation compiled."""
    THEOREMS = C02.THEOREMS + [('Properties.C02b', ['C02_mp_build_wf', 'C02_shift_preserves_language', 'C02_compile_mp_total',
                                                    'C02_compile_mp_no_panic', 'C02_compile_mp_correct', 'C02_compile_mp_build_correct',
                                                    'C02_compile_mp_facts', 'C02_empty_word_never_accepted_by_construction',
                                                    'C02_compile_single_total', 'C02_compile_single_no_panic', 'C02_compile_single_correct',
                                                    'C02_compile_single_facts', 'C02_compile_mode_unmin_correct', 'C02_compile_mode_correct',
                                                    'C02_compile_mode_size', 'C02_compile_mode_empty_word', 'C02_compile_mode_no_panic',
                                                    'C02_compile_mode_supported', 'C02_compile_la_correct', 'C02_compile_la_no_panic',
                                                    'C02_example_mode']),
                               ('Properties.C02c', ['C02_registry_assign_denotes', 'C02_registry_assign_spec', 'C02_registry_distinct',
                                                    'C02_relabelled_pattern_matches_the_same']),
                               ('Properties.C15', ['C02_thompson_correct', 'C02_nfa_matchb_spec', 'C02_built_matchb_spec'])]
    COQ_TARGETS = ['Properties/C02.vo', 'Properties/C02b.vo', 'Properties/C02c.vo', 'Properties/C15.vo']

    def explore(self, rng, tier, rdir, out, replay=None, programs=None):
        stats = C02.explore(self, rng, tier, rdir, out, replay, programs)
        if programs is not None:
            return stats
        jobs = json.load(open(os.path.join(rdir, 'sweep.json')))['jobs']
        results = [json.loads(l) for l in open(os.path.join(rdir, 'sweep.results.jsonl'))]
        entries = []
        maxstates = 60 if tier == 'quick' else 700
        for j, r in zip(jobs, results):
            if r.get('build') != 'ok':
                continue
            ids = ClassIds(r['dump']['classes'])
            for k, (m, md, asts) in enumerate(zip(j['modes'], r['dump']['modes'], r['asts'])):
                if len(md['dfa']['states']) > maxstates:
                    continue
                if len(set(p['t'] for p in m['patterns'])) != len(m['patterns']) or any(p['t'] >= 2 ** 32 for p in m['patterns']):
                    continue
                try:
                    pats = clist(['(%d, %s)' % (p['t'], ast_term(a[0], ids)) for p, a in zip(m['patterns'], asts)])
                except KeyError:
                    continue
                entries.append(('(compile_mode_enc %s)' % pats, enc_dfa_py(md['dfa']), j['modes'], 'mode %d' % k))
                la_asts = {p['t']: a[1] for p, a in zip(m['patterns'], asts) if p.get('la')}
                for tid, pos, ldfa in md['dfa'].get('las', []):
                    if tid in la_asts:
                        entries.append(('(compile_la_enc %s)' % ast_term(la_asts[tid], ids), enc_dfa_py(ldfa), j['modes'], 'lookahead of %d' % tid))
        shards = [entries[k:k + 50] for k in range(0, len(entries), 50)]
        paths = []
        for n, sh_ in enumerate(shards):
            p = os.path.join(rdir, 'compile_%03d.v' % n)
            with open(p, 'w') as f:
                f.write('From Scnr Require Import Base Regex Automaton Spec Nfa Minimizer Compile.\nOpen Scope N_scope.\n'
                        'Set Printing Depth 1000000.\nSet Printing Width 1000000.\n')
                f.write('Eval vm_compute in %s.\n' % clist(['\n ' + e[0] for e in sh_]))
            paths.append(p)
        outs = coq_eval_files(paths, timeout=1500)
        agree = 0
        for sh_, (rc, o), p in zip(shards, outs, paths):
            if rc != 0:
                out.broken.append({'what': 'coqc failed on %s' % p, 'detail': o[-2000:]})
                continue
            vals = parse_coq_value(o)
            for (term, impl, modes, what), v in zip(sh_, vals):
                if v == impl:
                    agree += 1
                else:
                    out.broken.append({'what': 'correspondence: the compile model (Thompson + closure construction + minimizer) differs from '
                                               'the automaton the implementation compiled (%s)' % what,
                                       'detail': {'modes': modes, 'impl': impl, 'model': v}})
        stats['compile_model_comparisons'] = len(entries)
        stats['compile_model_agree'] = agree
        self.registry_correspondence(jobs, results, rdir, out, stats, 60 if tier == 'quick' else 600)
        return stats

    @staticmethod
    def leaves_of(a, acc):
        k = a['k']
        if k in ('lit', 'dot', 'cls_unicode', 'cls_perl', 'cls_bracketed'):
            acc.append(a['s'])
        elif k in ('rep', 'group'):
            C02Full.leaves_of(a['a'], acc)
        elif k in ('alt', 'concat'):
            for x in a['as']:
                C02Full.leaves_of(x, acc)

    def registry_correspondence(self, jobs, results, rdir, out, stats, limit):
        """The implementation's class registry (dump.classes) against Registry.assign evaluated in Coq on the
        parser's leaves in pipeline order (per mode: the pattern ASTs depth first in pattern order, then the
        lookahead ASTs), with equality of the printed form."""
        entries = []
        for j, r in zip(jobs, results):
            if r.get('build') != 'ok' or 'asts' not in r:
                continue
            occ = []
            for ma in r['asts']:
                for pa, la in ma:
                    self.leaves_of(pa, occ)
                for pa, la in ma:
                    if la:
                        self.leaves_of(la, occ)
            entries.append((occ, r['dump']['classes'], j['modes']))
            if len(entries) >= limit:
                break
        shards = [entries[k:k + 30] for k in range(0, len(entries), 30)]
        paths = []
        for n, sh_ in enumerate(shards):
            p = os.path.join(rdir, 'registry_%03d.v' % n)
            with open(p, 'w') as f:
                f.write('From Scnr Require Import Base Registry.\nOpen Scope N_scope.\nSet Printing Depth 1000000.\nSet Printing Width 1000000.\n')
                terms = []
                for occ, _, _ in sh_:
                    t = clist([clist([str(ord(ch)) for ch in s_]) for s_ in occ])
                    terms.append('\n (let (ids, reg) := assign (list N) nlist_eqb [] %s in (map N.of_nat ids, reg))' % t)
                f.write('Eval vm_compute in %s.\n' % clist(terms))
            paths.append(p)
        outs = coq_eval_files(paths)
        agree = 0
        for sh_, (rc, o), p in zip(shards, outs, paths):
            if rc != 0:
                out.broken.append({'what': 'coqc failed on %s' % p, 'detail': o[-2000:]})
                continue
            for (occ, classes, modes), v in zip(sh_, parse_coq_value(o)):
                ids, reg = v
                impl = [[ord(ch) for ch in s_] for s_ in classes]
                want_ids = [classes.index(s_) if s_ in classes else -1 for s_ in occ]
                if reg == impl and list(ids) == want_ids:
                    agree += 1
                else:
                    out.broken.append({'what': 'correspondence: the class registry of the implementation differs from Registry.assign on the '
                                               'parsed leaves (order of registration or equality of classes)',
                                       'detail': {'modes': modes, 'impl_classes': classes,
                                                  'model_classes': [''.join(chr(c) for c in x) for x in reg], 'leaves_in_order': occ}})
        stats['registry_comparisons'] = len(entries)
        stats['registry_agree'] = agree


ALL['C02'] = C02Full
