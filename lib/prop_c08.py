"""C08 - character classes are the set algebra of their parts, for every character.

Proof: Properties/C08.v (eval_leaf = transcription of match_function.rs, denote_leaf = textbook
set algebra, equal for every class, every named-set assignment and every character).

Correspondence (exhaustive in the character domain): for every class expression (generated
pattern text, hand-written corner cases, every class leaf of the repository corpora)
  * the implementation's parser gives the AST (job c08_parse / c08_class), which is translated to
    a Coq `leaf` term;
  * the implementation's set is observed on ALL 1,112,064 scalar values (job c08_class: the
    one-pattern scanner scans one haystack containing every scalar value once);
  * every named item occurring in it (\\d, [:alpha:], \\pL, ...) is observed alone in the same way;
  * the scalar values are partitioned into blocks by (membership vector in the named items,
    equality with every literal, membership in every range, being \\n/\\r when a dot occurs); the
    partition is computed on intervals and covers every scalar value; one representative per
    (block, implementation verdict) is evaluated in Coq (`eval_leaf (named_of_tbl tbl) l`), which
    by C08_eval_congr_bool / C08_eval_named_ext decides every scalar value of the block.
A character on which implementation and model differ is a VIOLATION (class text + witness)."""
import json, os, re
from common import *
import corpus

NSCAL = 1112064          # number of Unicode scalar values
MATCH_FUNCTION = os.path.join(REPO, 'scnr/src/internal/match_function.rs')


def idx(c):
    """scalar value -> position in the ascending enumeration of all scalar values"""
    return c if c < 0xD800 else c - 0x800


def unidx(i):
    return i if i < 0xD800 else i + 0x800


def to_idx_ranges(ranges):
    return [(idx(lo), idx(hi)) for lo, hi in ranges]


def complement(rl):
    out = []
    p = 0
    for lo, hi in rl:
        if lo > p:
            out.append((p, lo - 1))
        p = hi + 1
    if p < NSCAL:
        out.append((p, NSCAL - 1))
    return out


def first_difference(a, b):
    """smallest index that belongs to exactly one of the two sorted disjoint range lists, or None"""
    pts = sorted(set([0] + [p for rl in (a, b) for lo, hi in rl for p in (lo, hi + 1)]))
    ia = ib = 0
    for p in pts:
        if p >= NSCAL:
            break
        while ia < len(a) and a[ia][1] < p:
            ia += 1
        while ib < len(b) and b[ib][1] < p:
            ib += 1
        ina = ia < len(a) and a[ia][0] <= p
        inb = ib < len(b) and b[ib][0] <= p
        if ina != inb:
            return p
    return None


DOT_RANGES = [(0, 9), (11, 12), (14, NSCAL - 1)]

PERL = {'d': ('PDigit', 0), 's': ('PSpace', 1), 'w': ('PWord', 2)}
ASCII_KINDS = ['alnum', 'alpha', 'ascii', 'blank', 'cntrl', 'digit', 'graph', 'lower', 'print', 'punct',
               'space', 'upper', 'word', 'xdigit']
ASCII = {k: ('A' + k.capitalize(), 10 + i) for i, k in enumerate(ASCII_KINDS)}

FALLBACK_ONE = ['L', 'N', 'Z', 'P', 'C']
FALLBACK_NAMED = ['Alphabetic', 'Lowercase', 'Uppercase', 'White_Space', 'Math', 'XID_Start', 'XID_Continue',
                  'Hex_Digit', 'Dash', 'Emoji']


def supported_unicode_names():
    """The one-letter and long \\p names match_function.rs implements, read off the source."""
    try:
        src = open(MATCH_FUNCTION, encoding='utf-8').read()
        one = re.findall(r"'([A-Za-z])'\s*=>\s*MatchFn::new", src)
        named = re.findall(r'"([A-Za-z_]+)"\s*=>\s*MatchFn::new', src)
        if one and named:
            return sorted(set(one)), sorted(set(named))
    except OSError:
        pass
    return FALLBACK_ONE, FALLBACK_NAMED


class Unsupported(Exception):
    pass


class NamedRegistry:
    """Numbers the \\p items of a run; gives the Coq key and the stand-alone pattern of a named item."""

    def __init__(self):
        self.uids = {}

    def uid(self, kind, name):
        k = (kind, name)
        if k not in self.uids:
            self.uids[k] = len(self.uids)
        return self.uids[k]

    def named(self, item):
        """(coq key, alone pattern, label) of a perl/ascii/unicode item"""
        t = item['t']
        if t == 'perl':
            return PERL[item['kind']][1], '\\' + item['kind'], 'perl:' + item['kind']
        if t == 'ascii':
            return ASCII[item['kind']][1], '[[:%s:]]' % item['kind'], 'posix:' + item['kind']
        if t == 'unicode':
            if item['kind'] == 'one':
                return 100 + self.uid('one', item['name']), '\\p' + item['name'], 'unicode:' + item['name']
            if item['kind'] == 'named':
                return 100 + self.uid('named', item['name']), '\\p{%s}' % item['name'], 'unicode:' + item['name']
            raise Unsupported('name=value unicode class')
        raise ValueError(t)


# ----------------------------------------------------------------------------------------------
# AST JSON -> Coq term, atoms (mirror of atoms_of_leaf), statistics

def item_term(i, reg):
    t = i['t']
    if t == 'empty':
        return 'IEmpty'
    if t == 'lit':
        return '(ILit %d %s)' % (i['c'], cbool(i['verb']))
    if t == 'range':
        return '(IRange %d %d)' % (i['s'], i['e'])
    if t == 'ascii':
        return '(IAscii %s %s)' % (ASCII[i['kind']][0], cbool(i['neg']))
    if t == 'unicode':
        return '(IUnicode %d %s)' % (reg.named(i)[0] - 100, cbool(i['neg']))
    if t == 'perl':
        return '(IPerl %s %s)' % (PERL[i['kind']][0], cbool(i['neg']))
    if t == 'bracketed':
        return '(IBracketed %s %s)' % (cbool(i['neg']), set_term(i['set'], reg))
    if t == 'union':
        return '(IUnion %s)' % clist([item_term(x, reg) for x in i['items']])
    raise ValueError('class item ' + t)


def set_term(s, reg):
    if s['t'] == 'item':
        return '(CItem %s)' % item_term(s['i'], reg)
    op = {'and': 'OAnd', 'diff': 'ODiff', 'sym': 'OSym'}[s['op']]
    return '(COp %s %s %s)' % (op, set_term(s['l'], reg), set_term(s['r'], reg))


def leaf_term(a, reg):
    k = a['k']
    if k == 'lit':
        return '(LLit %d %s)' % (a['c'], cbool(a['verb']))
    if k == 'dot':
        return 'LDot'
    if k == 'cls_perl':
        return '(LPerl %s %s)' % (PERL[a['cls']['kind']][0], cbool(a['cls']['neg']))
    if k == 'cls_unicode':
        return '(LUnicode %d %s)' % (reg.named(a['cls'])[0] - 100, cbool(a['cls']['neg']))
    if k == 'cls_bracketed':
        return '(LBracketed %s %s)' % (cbool(a['cls']['neg']), set_term(a['cls']['set'], reg))
    raise ValueError('not a class leaf: ' + k)


def lit_atoms(c, verb):
    return [('dot',)] if (c == 46 and verb) else [('lit', c)]


def item_atoms(i, reg, out):
    t = i['t']
    if t == 'lit':
        out += lit_atoms(i['c'], i['verb'])
    elif t == 'range':
        out.append(('range', i['s'], i['e']))
    elif t in ('ascii', 'unicode', 'perl'):
        key, alone, label = reg.named(i)
        out.append(('named', key, alone, label))
    elif t == 'bracketed':
        set_atoms(i['set'], reg, out)
    elif t == 'union':
        for x in i['items']:
            item_atoms(x, reg, out)


def set_atoms(s, reg, out):
    if s['t'] == 'item':
        item_atoms(s['i'], reg, out)
    else:
        set_atoms(s['l'], reg, out)
        set_atoms(s['r'], reg, out)


def leaf_atoms(a, reg):
    """the atoms in the order of ClassAlg.atoms_of_leaf"""
    out = []
    k = a['k']
    if k == 'lit':
        out += lit_atoms(a['c'], a['verb'])
    elif k == 'dot':
        out.append(('dot',))
    elif k in ('cls_perl', 'cls_unicode'):
        key, alone, label = reg.named(a['cls'])
        out.append(('named', key, alone, label))
    elif k == 'cls_bracketed':
        set_atoms(a['cls']['set'], reg, out)
    return out


def leaf_stats(a):
    """(nesting depth, {operator: n}, {item kind: n}, negations, nested brackets)"""
    ops, kinds = {}, {}
    st = {'neg': 0, 'nested': 0}

    def bump(d, k):
        d[k] = d.get(k, 0) + 1

    def item(i, depth):
        t = i['t']
        bump(kinds, t)
        if t in ('ascii', 'unicode', 'perl') and i['neg']:
            st['neg'] += 1
        if t == 'bracketed':
            st['nested'] += 1
            if i['neg']:
                st['neg'] += 1
            return cset(i['set'], depth + 1)
        if t == 'union':
            return max([item(x, depth) for x in i['items']] + [depth])
        return depth

    def cset(s, depth):
        if s['t'] == 'item':
            return item(s['i'], depth)
        bump(ops, s['op'])
        return max(cset(s['l'], depth), cset(s['r'], depth))

    k = a['k']
    if k == 'cls_bracketed':
        if a['cls']['neg']:
            st['neg'] += 1
        depth = cset(a['cls']['set'], 1)
    else:
        depth = 0
        bump(kinds, 'top_' + k)
        if k in ('cls_perl', 'cls_unicode') and a['cls']['neg']:
            st['neg'] += 1
    return depth, ops, kinds, st['neg'], st['nested']


def strip_s(a):
    """AST without the printed text (identity of a class up to spelling)"""
    if isinstance(a, dict):
        return {k: strip_s(v) for k, v in a.items() if k != 's'}
    if isinstance(a, list):
        return [strip_s(x) for x in a]
    return a


# ----------------------------------------------------------------------------------------------
# the partition of all scalar values

def partition(atom_ranges, impl_ranges):
    """atom_ranges: one sorted disjoint index-range list per distinct atom; impl_ranges: the same for
    the implementation's set. Sweeps all 1,112,064 positions by intervals.
    Returns ({signature: [first index, count]}, covered) where bit i of the signature is atom i and the
    highest bit (len(atom_ranges)) is the implementation's verdict."""
    ev = {}
    for bit, rl in enumerate(atom_ranges + [impl_ranges]):
        m = 1 << bit
        for lo, hi in rl:
            if lo > hi:
                continue
            ev[lo] = ev.get(lo, 0) ^ m
            ev[hi + 1] = ev.get(hi + 1, 0) ^ m
    sigs = {}
    cur = 0
    prev = 0
    covered = 0
    for p in sorted(ev):
        if p > prev:
            e = sigs.get(cur)
            if e is None:
                sigs[cur] = [prev, p - prev]
            else:
                e[1] += p - prev
            covered += p - prev
        cur ^= ev[p]
        prev = p
    if prev < NSCAL:
        e = sigs.get(cur)
        if e is None:
            sigs[cur] = [prev, NSCAL - prev]
        else:
            e[1] += NSCAL - prev
        covered += NSCAL - prev
    return sigs, covered


# ----------------------------------------------------------------------------------------------
# class expressions

LIT_SMALL = list('abcdexyz')
LIT_PLAIN = list('abcdexyzAMZ059_ ,;=!"') + ["'", '#', '@', '/', ':', '<', '>', '(', ')', '{', '}', '|', '?', '+', '*', '$']
LIT_ESC = ['\\]', '\\[', '\\\\', '\\^', '\\-', '\\&', '\\~', '\\.', '\\n', '\\r', '\\t', '\\f', '\\v', '\\x41', '\\x7F',
           '\\x00', '\\u{E9}', '\\u{10FFFF}', '\\u{D7FF}', '\\u{E000}', '\\*', '\\$', '\\|', '\\(', '\\)', '\\{', '\\}',
           '\\?', '\\+', '\\#', '\\x{1F600}', '\\u00DF', '\\U0001F64F', '\\x0A', '\\x0D', '\\x2E', '\\ ']
LIT_MB = ['\u00e9', '\u00df', '\u03bb', '\u4e2d', '\u20ac', '\U0001F600', '\u00a0', '\u2028', '\ud7ff', '\ue000',
          '\U0010FFFF', '\u0301', '\u0660', '\u3000', '\u200d', '\n', '\r', '\t', '\x7f', '\x80']
RANGES = [('a', 'a'), ('a', 'b'), ('a', 'e'), ('c', 'x'), ('b', 'y'), ('a', 'z'), ('x', 'z'), ('0', '9'), ('A', 'Z'), ('A', 'z'),
          ('\\x00', '\\x1F'), ('\\x00', '\\u{10FFFF}'), ('\\u{10000}', '\\u{10FFFF}'), ('\U0001F600', '\U0001F64F'),
          ('\\u{D7FF}', '\\u{E000}'), ('\u03b1', '\u03c9'), ('\\u{FFFF}', '\\u{10000}'), ('\\u{10FFFE}', '\\u{10FFFF}'),
          ('\\t', '\\r'), (' ', '~'), ('\\x7F', '\\u{80}'), ('\u00e9', '\u00e9'), ('\\n', '\\n'), ('\\x09', '\\x0A'),
          ('\\x0A', '\\x0D'), ('\\r', '\\x0E'), ('!', '/'), ('\\x2D', '\\x2E'), ('\\.', '\\.'), ('\\-', '\\.'), ('\\x00', '\\x00'),
          ('\\u{10FFFF}', '\\u{10FFFF}'), ('\u4e00', '\u9fff'), ('\\u{80}', '\\u{7FF}'), ('\\u{800}', '\\u{FFFF}')]
POOL = [0, 9, 10, 11, 13, 14, 32, 45, 46, 47, 48, 57, 65, 90, 97, 122, 127, 128, 255, 0x300, 0x3b1, 0x7ff, 0x800, 0x2028,
        0xd7ff, 0xe000, 0xffff, 0x10000, 0x1f600, 0x10fffe, 0x10ffff]

FIXED = [
    # the examples of README / match_function.rs tests
    '[a-z]', '[a-y&&xyz]', '[0-9a-z]', '[^a-z]', '[a-z&&[^aeiou]]', '[[:alpha:]]', '[^[:alpha:]]', '[x[^xyz]]', '[0-9&&[^4]]',
    '[0-9--4]', '[a-g~~b-h]', '[\\[\\]]', '[a&&b]', '[^a--b]', '[.\\r\\n]',
    # literal corner cases of the bracket syntax
    '[a-]', '[-a]', '[]a]', '[^]a]', '[a&b]', '[a&&&b]', '[a~b]', '[a^]', '[\\^a]', '[^^]', '[a\\-z]', '[+--]', '[--/]',
    # the dot inside brackets
    '[.]', '[^.]', '[\\.]', '[^\\.]', '[.a]', '[\\n.]', '[.&&\\n]', '[.--a]', '[.~~\\x00-\\u{10FFFF}]', '[^.\\n]', '[[.]\\r]',
    '[\\x2E]', '[,-.]', '[.-.]', '[.-/]',
    # empty operands, empty / full sets
    '[a&&]', '[&&a]', '[^a&&]', '[a--]', '[--a]', '[~~a]', '[a~~]', '[^&&a]', '[a~~a]', '[^a~~a]', '[a--a]', '[\\d&&\\D]',
    '[\\d\\D]', '[^\\d\\D]', '[\\x00-\\u{10FFFF}]', '[^\\x00-\\u{10FFFF}]', '[\\w--\\w]', '[\\s~~\\S]',
    # negation at every level
    '[^[^a]]', '[[^[^[^a]]]]', '[^[^[^[^a-c]]]]', '[^a[^b]]', '[^[^a]&&[^b]]', '[^[^a-y]--[^b-z]]', '[^[^a-e]~~[^c-x]]',
    '[^\\D]', '[^\\S\\W]', '[[:^digit:]]', '[^[:^digit:]]', '[^[:^alpha:][:^lower:]]', '[\\PL]', '[^\\PL]', '[^\\P{Lowercase}\\PN]',
    '[^[\\D]]', '[[^\\d]&&[^\\D]]', '[^[^[:^space:]]]',
    # operator chains (left associative) and unions as operands
    '[a-e&&c-x--d]', '[a-e--c-x~~a-z]', '[a-z~~b-y~~c-x]', '[a-z--b-y--c]', '[abc&&bcd&&cde]', '[ab[cd]&&b-d[a]]',
    '[a-c\\d--1-3b]', '[\\w&&[^\\d_]]', '[\\w--[:alpha:]]', '[\\pL~~[:alpha:]]', '[[:alnum:]--[:alpha:]--[:digit:]]',
    '[\\s--[:blank:]]', '[[:print:]~~[:graph:]]', '[[:punct:]&&\\W]', '[[:xdigit:]--\\d]', '[[:cntrl:]&&\\s]', '[[:ascii:]--[:cntrl:]]',
    '[[:upper:][:lower:]--\\p{Alphabetic}]', '[[:word:]~~\\w]', '[[:space:]~~\\s]', '[[:digit:]~~\\d]',
    # ranges: equal, adjacent, astral bounds, across the surrogate gap
    '[a-a]', '[a-b]', '[a-ac-c]', '[a-bc-d]', '[\\u{D7FF}-\\u{E000}]', '[^\\u{D7FF}-\\u{E000}]', '[\\u{10000}-\\u{10FFFF}]',
    '[\\u{FFFF}-\\u{10000}]', '[\\u{10FFFF}-\\u{10FFFF}]', '[\\x00-\\x00]', '[\\x00-\\t\\x0B-\\u{10FFFF}]', '[\U0001F600-\U0001F64F--\U0001F610]',
    '[a-z&&\\x00-m]', '[^\\x00-`{-\\u{10FFFF}]', '[\\x7F-\\u{80}]',
    # literals: multi-byte, escapes
    '[\u00e9]', '[\u4e2d\u20ac]', '[\U0001F600]', '[\\u{1F600}\\x41\\n]', '[\n]', '[^\n\r]', '[\\\\]', '[\\]\\[]', '[\\&\\&]', '[\\~\\~a]', '[\\-\\-a]',
    '[\\u0301-\\u036F]', '[\u200d]',
]

TOP_LITS = [('a', 97), ('Z', 90), ('_', 95), (' ', 32), ('\\.', 46), ('\\n', 10), ('\\r', 13), ('\\t', 9), ('\\x00', 0), ('\\x41', 65),
            ('\\\\', 92), ('\\[', 91), ('\\*', 42), ('\u00e9', 0xe9), ('\u4e2d', 0x4e2d), ('\U0001F600', 0x1f600), ('\\u{10FFFF}', 0x10ffff),
            ('\\u{D7FF}', 0xd7ff), ('\\u{E000}', 0xe000), ('\n', 10), ('\\x7F', 127), ('\\u{80}', 128), ('-', 45), (']', 93), ('&', 38),
            # meta characters written as hex / unicode escapes are literals, not operators
            ('\\x2e', 46), ('\\x2E', 46), ('\\x{2e}', 46), ('\\u{2e}', 46), ('\\u002e', 46), ('\\U0000002e', 46), ('\\x28', 40), ('\\x29', 41),
            ('\\x2a', 42), ('\\x2b', 43), ('\\x3f', 63), ('\\x5b', 91), ('\\x5c', 92), ('\\x5d', 93), ('\\x5e', 94), ('\\x24', 36),
            ('\\x7c', 124), ('\\x7b', 123), ('\\x0a', 10), ('\\x0d', 13)]


def esc_cp(cp):
    return '\\u{%X}' % cp


class Gen:
    def __init__(self, rng, one, named):
        self.rng = rng
        self.one = one
        self.named = named

    def literal(self):
        r = self.rng.random()
        if r < 0.45:
            return self.rng.choice(LIT_SMALL)
        if r < 0.62:
            return self.rng.choice(LIT_PLAIN)
        if r < 0.82:
            return self.rng.choice(LIT_ESC)
        return self.rng.choice(LIT_MB)

    def range(self):
        r = self.rng.random()
        if r < 0.7:
            lo, hi = self.rng.choice(RANGES)
            return lo + '-' + hi
        a, b = self.rng.choice(POOL), self.rng.choice(POOL)
        if r < 0.85:
            b = a + self.rng.choice([0, 1, 2]) if a + 2 <= 0x10ffff and not (0xd7fd <= a <= 0xdfff) else a
        lo, hi = min(a, b), max(a, b)
        return esc_cp(lo) + '-' + esc_cp(hi)

    def perl(self):
        return self.rng.choice(['\\d', '\\s', '\\w', '\\D', '\\S', '\\W'])

    def posix(self):
        return '[:%s%s:]' % ('^' if self.rng.random() < 0.3 else '', self.rng.choice(ASCII_KINDS))

    def unicode(self):
        p = 'P' if self.rng.random() < 0.3 else 'p'
        if self.rng.random() < 0.5:
            return '\\' + p + self.rng.choice(self.one)
        return '\\%s{%s}' % (p, self.rng.choice(self.named))

    def item(self, d):
        rng = self.rng
        if d > 1 and rng.random() < 0.22:
            return self.bracket(d - 1, False)
        r = rng.random()
        if r < 0.38:
            return self.literal()
        if r < 0.66:
            return self.range()
        if r < 0.76:
            return self.perl()
        if r < 0.86:
            return self.posix()
        if r < 0.95:
            return self.unicode()
        return '.'

    def union(self, d, force):
        n = self.rng.choice([1, 1, 2, 2, 3, 4])
        items = [self.item(d) for _ in range(n)]
        if force and d > 1:
            items[self.rng.randrange(n)] = self.bracket(d - 1, True)
        return ''.join(items)

    def bracket(self, d, force):
        """a bracketed class of nesting depth <= d (exactly d when force)"""
        rng = self.rng
        neg = rng.random() < 0.3
        if rng.random() < 0.42:
            nops = rng.choice([1, 1, 1, 2, 2, 3])
            forced = rng.randrange(nops + 1) if force else -1
            parts = []
            for k in range(nops + 1):
                if k != forced and rng.random() < 0.04:
                    parts.append('')
                else:
                    parts.append(self.union(d, k == forced))
            body = parts[0]
            for p in parts[1:]:
                body += rng.choice(['&&', '--', '~~']) + p
        else:
            body = self.union(d, force)
        return '[' + ('^' if neg else '') + body + ']'

    def toplevel(self):
        r = self.rng.random()
        if r < 0.25:
            return self.perl()
        if r < 0.6:
            return self.unicode()
        if r < 0.7:
            return '.'
        return self.rng.choice(TOP_LITS)[0]


def walk_leaves(a, out):
    if not isinstance(a, dict):
        return
    k = a.get('k')
    if k in ('lit', 'dot', 'cls_unicode', 'cls_perl', 'cls_bracketed'):
        out.append(a)
    elif k in ('rep', 'group'):
        walk_leaves(a.get('a'), out)
    elif k in ('alt', 'concat'):
        for x in a.get('as', []):
            walk_leaves(x, out)


def chunks(xs, n):
    return [xs[i:i + n] for i in range(0, len(xs), n)]


COQ_HEADER = ('From Scnr Require Import Base ClassAlg.\nOpen Scope N_scope.\n'
              'Set Printing Depth 1000000.\nSet Printing Width 1000000.\n')


ANCHORED = ['\\s', '\\d', '\\w', '\\p{White_Space}']
ANCHORED_ASCII = {'\\s': {9, 10, 11, 12, 13, 32}, '\\d': set(range(48, 58)),
                  '\\w': set(range(48, 58)) | set(range(65, 91)) | set(range(97, 123)) | {95}}


class C08:
    ID = 'C08'
    THEOREMS = [('Properties.C08', [
        'C08_eval_is_set_algebra', 'C08_eval_set_is_set_algebra', 'C08_eval_item_is_set_algebra', 'C08_literal',
        'C08_literal_verbatim_dot', 'C08_dot', 'C08_empty', 'C08_range_inclusive', 'C08_range_inclusive_iff',
        'C08_bracketed_negation_is_complement', 'C08_set_negation_is_complement', 'C08_item_negation_is_complement',
        'C08_negation_involutive', 'C08_nested_bracket_transparent', 'C08_perl_negation_is_complement',
        'C08_unicode_negation_is_complement', 'C08_union_is_exists', 'C08_binop', 'C08_eval_congr', 'C08_eval_congr_bool',
        'C08_eval_named_ext', 'C08_named_key_injective', 'C08_named_of_tbl', 'C08_example'])]
    COQ_TARGETS = ['Properties/C08.vo']
    LEVEL = 'proof'
    ASSUMPTIONS = [
        'a named item (\\d \\s \\w, [:alpha:], \\p{..}) denotes the set its stand-alone pattern matches (observed on all '
        '1,112,064 scalar values on every run; the Unicode tables of std/seshat are not modelled); anchored independently of '
        'any table version: the ASCII parts of \\d \\s \\w are those regex-syntax documents, and \\s alone = \\p{White_Space} alone',
        'modelling decisions, not findings: an unescaped . inside brackets denotes the dot set; POSIX classes are Unicode-wide; '
        '[:blank:] = is_ascii_whitespace; [:print:] = is_ascii_graphic (each is "the set the item denotes when used alone")',
        'membership is observed as: the one-pattern scanner of the class reports a token covering the character '
        '(one haystack with every scalar value; cross-checked against one-character haystacks for the ASCII claims)',
        'pattern text -> AST is the implementation\'s parser (regex_syntax), outside the model']
    TRUSTED_EXTRA = ['the interval partition of the scalar values into blocks and the choice of representatives (lib/prop_c08.py); '
                     'the atom lists it uses are compared with ClassAlg.atoms_of_leaf evaluated in Coq for every class']
    RULE = ('class expressions = hand-written corner cases of the bracket syntax + pattern text generated from a grammar (nesting depth '
            '<= 3 quick / <= 5 thorough; literals incl. multi-byte and escaped ones; ranges with equal/adjacent/astral bounds and across '
            'the surrogate gap; \\d\\s\\w\\D\\S\\W; [:kind:] and [:^kind:]; \\pX \\PX \\p{Name} \\P{Name} for the names match_function.rs '
            'implements; nested and negated brackets; && -- ~~ chains; empty operands; an unescaped . inside brackets) + every '
            'literal/dot/class leaf of the repository corpora (tests/data, README, veryl); each class is compared with the Coq model on '
            'ALL 1,112,064 scalar values via the block partition; non-trivial = distinct class AST (up to spelling) that is bracketed '
            'and contains a binary operator, a negation at any level or a nested bracket')
    N = {'quick': 300, 'thorough': 5300}
    MAXDEPTH = {'quick': 3, 'thorough': 5}

    # ------------------------------------------------------------------------------------------
    def class_texts(self, rng, tier, rdir, out, stats):
        one, named = supported_unicode_names()
        stats['unicode_names_supported'] = len(one) + len(named)
        texts = []          # (text, origin, expected corpus leaf or None)
        for t in FIXED:
            texts.append((t, 'fixed', None))
        for t, _ in TOP_LITS:
            texts.append((t, 'toplevel', None))
        for t in ['.', '\\d', '\\s', '\\w', '\\D', '\\S', '\\W']:
            texts.append((t, 'toplevel', None))
        for x in one:
            texts.append(('\\p' + x, 'toplevel', None))
            texts.append(('\\P' + x, 'toplevel', None))
        # enumerated: every sequence of up to 4 nested bracket levels, each negated or not, around a few bases, alone
        # and next to a sibling item (redundant nesting must not change the set, a negation at any level must)
        bases = ['b-d', '\\d', '[:alpha:]', '\\pL', 'x', 'a-c\\n']
        for depth in range(1, 5):
            for mask in range(1 << depth):
                for bi, b in enumerate(bases):
                    if depth >= 3 and (mask + bi) % (2 if tier == 'thorough' else 5) != 0:
                        continue
                    t = b
                    for lvl in range(depth):
                        t = '[' + ('^' if (mask >> lvl) & 1 else '') + t + ']'
                    texts.append((t, 'fixed', None))
                    if depth >= 2 and (mask + bi) % 3 == 0:
                        inner = t[1:-1] if not t.startswith('[^') else t[2:-1]
                        texts.append(('[' + ('^' if t.startswith('[^') else '') + 'q' + inner + ']', 'fixed', None))
        for k in ASCII_KINDS:
            texts.append(('[[:%s:]]' % k, 'fixed', None))
            texts.append(('[[:^%s:]]' % k, 'fixed', None))
        for x in (named if tier == 'thorough' else named[:8]):
            texts.append(('\\p{%s}' % x, 'toplevel', None))
            texts.append(('[^\\P{%s}a]' % x, 'fixed', None))
        # corpora
        pats = []
        for name, modes, _ in corpus.repo_configs(include_veryl=True):
            for m in modes:
                for p in m['patterns']:
                    pats.append(p['p'])
                    if p.get('la'):
                        pats.append(p['la']['p'])
        pats = sorted(set(pats))
        res = run_harness([{'kind': 'c08_parse', 'patterns': c} for c in chunks(pats, 40)], rdir, 'c08_corpus_parse')
        leaves = []
        for r in res:
            for a in r.get('asts', []):
                walk_leaves(a, leaves)
        seen = set()
        ncl = 0
        for a in leaves:
            if a['s'] in seen:
                continue
            seen.add(a['s'])
            texts.append((a['s'], 'corpus', a))
            ncl += 1
        stats['corpus_patterns'] = len(pats)
        stats['corpus_leaves'] = ncl
        # generated
        g = Gen(rng, one, named)
        n = self.N[tier]
        maxd = self.MAXDEPTH[tier]
        for i in range(n):
            if i % 12 == 11:
                texts.append((g.toplevel(), 'generated', None))
            else:
                d = 1 + (i % maxd)
                texts.append((g.bracket(d, True), 'generated', None))
        # dedupe by text
        outl, seen = [], set()
        for t in texts:
            if t[0] in seen:
                continue
            seen.add(t[0])
            outl.append(t)
        return outl

    # ------------------------------------------------------------------------------------------
    def observe(self, patterns, rdir, name):
        """{pattern: result of c08_class}"""
        jobs = [{'kind': 'c08_class', 'patterns': c} for c in chunks(patterns, 8)]
        res = run_harness(jobs, rdir, name, timeout=3000)
        obs = {}
        for r in res:
            if r.get('harness_panic'):
                raise RuntimeError('harness panic: %s' % r['harness_panic'])
            for x in r['res']:
                obs[x['p']] = x
        return obs

    # ------------------------------------------------------------------------------------------
    def explore(self, rng, tier, rdir, out, replay=None):
        stats = {}
        if replay:
            payload = json.load(open(replay))
            if payload.get('kind') == 'ascii':
                n = self.ascii_claims(rdir, out)
                return {'evaluations': n, 'distinct_nontrivial': 0, 'rule': self.RULE, 'samples': [{'replayed': 'ascii claims'}]}
            texts = [(payload['pattern'], 'replay', None)] if 'pattern' in payload else []
        else:
            texts = self.class_texts(rng, tier, rdir, out, stats)
        reg = NamedRegistry()
        obs = self.observe([t[0] for t in texts], rdir, 'c08_classes')
        cases = []
        skipped = {'rejected_by_parser': 0, 'not_a_single_leaf': 0, 'unsupported': 0, 'corpus_leaf_reparse_differs': 0}
        alone_needed = {}
        for text, origin, expect in texts:
            o = obs[text]
            a = o['ast']
            k = a.get('k')
            if k in ('syntax_error', 'parse_panic', 'bad_json'):
                skipped['rejected_by_parser'] += 1
                if origin in ('fixed', 'toplevel', 'corpus'):
                    out.notes.append('class %r is rejected by the parser: %s' % (text, a.get('s', k)))
                continue
            if k not in ('lit', 'dot', 'cls_unicode', 'cls_perl', 'cls_bracketed'):
                skipped['not_a_single_leaf'] += 1
                continue
            if expect is not None and strip_s(expect) != strip_s(a):
                skipped['corpus_leaf_reparse_differs'] += 1
                out.notes.append('corpus leaf %r does not re-parse to the same class' % text)
                continue
            try:
                term = leaf_term(a, reg)
                atoms = leaf_atoms(a, reg)
            except Unsupported:
                skipped['unsupported'] += 1
                continue
            if o.get('build') != 'ok':
                if o.get('build') == 'unsupported' and origin != 'corpus' and any(
                        at[0] == 'named' and at[3].startswith('unicode:') for at in atoms):
                    # a \p name the source no longer implements: outside the domain of the model (C15's business)
                    skipped['unsupported'] += 1
                    if origin != 'generated':
                        out.notes.append('class %r is rejected as unsupported: %s' % (text, o.get('error')))
                    continue
                out.broken.append({'what': 'a class made of supported items does not build as a one-pattern scanner',
                                   'detail': {'pattern': text, 'build': o.get('build'), 'error': o.get('error')}})
                continue
            if o.get('ranges') is None:
                out.violations.append({'property': 'C08', 'what': 'scanning all scalar values with the one-pattern scanner of a class panicked',
                                       'pattern': text, 'panic': o.get('scan_panic')})
                continue
            if o.get('anomalies'):
                out.violations.append({'property': 'C08', 'what': 'the one-pattern scanner of a class reported a token that is not exactly one character',
                                       'pattern': text, 'tokens': o['anomalies']})
                continue
            for at in atoms:
                if at[0] == 'named':
                    alone_needed[at[2]] = at[3]
            cases.append({'pattern': text, 'origin': origin, 'ast': a, 'term': term, 'atoms': atoms,
                          'impl': to_idx_ranges(o['ranges'])})
        # the named items alone
        for p in ANCHORED:
            alone_needed.setdefault(p, p)
        need = [p for p in sorted(alone_needed) if p not in obs or obs[p].get('ranges') is None]
        if need:
            obs.update(self.observe(need, rdir, 'c08_named'))
        alone = {}
        for p in alone_needed:
            o = obs[p]
            if o.get('build') != 'ok' or o.get('ranges') is None or o.get('anomalies'):
                out.broken.append({'what': 'a named item used alone does not build or scan as a one-pattern scanner',
                                   'detail': {'pattern': p, 'build': o.get('build'), 'error': o.get('error')}})
                continue
            alone[p] = to_idx_ranges(o['ranges'])
        # anchors of the Perl classes: what a named item denotes is taken from its stand-alone scanner, but two facts about
        # \\d \\s \\w do not depend on any Unicode table version: their ASCII part, and that \\s is the Unicode property
        # White_Space (regex-syntax's definition of \\s in Unicode mode), which the library also offers as \\p{White_Space}
        def ascii_part(rl):
            return set(i for lo, hi in rl for i in range(lo, min(hi, 127) + 1) if lo <= 127)
        for p, want in ANCHORED_ASCII.items():
            if p in alone and ascii_part(alone[p]) != want:
                out.violations.append({'property': 'C08', 'what': 'the ASCII part of %s used alone is %s, expected %s' % (
                    p, sorted(ascii_part(alone[p]) ^ want), 'the set regex-syntax documents'), 'pattern': p})
        if '\\s' in alone and '\\p{White_Space}' in alone:
            d = first_difference(alone['\\s'], alone['\\p{White_Space}'])
            if d is not None:
                out.violations.append({'property': 'C08', 'what': '\\s and \\p{White_Space} used alone denote different sets: first difference at '
                                       'U+%04X' % unidx(d), 'pattern': '\\s'})
        # blocks and representatives
        ready = []
        blocks_total = reps_total = 0
        nonconstant = 0
        for c in cases:
            datoms = []
            for at in c['atoms']:
                if at not in datoms:
                    datoms.append(at)
            if any(at[0] == 'named' and at[2] not in alone for at in datoms):
                continue
            ar = []
            for at in datoms:
                if at[0] == 'named':
                    ar.append(alone[at[2]])
                elif at[0] == 'lit':
                    ar.append([(idx(at[1]), idx(at[1]))])
                elif at[0] == 'range':
                    ar.append([(idx(at[1]), idx(at[2]))])
                else:
                    ar.append(DOT_RANGES)
            sigs, covered = partition(ar, c['impl'])
            if covered != NSCAL:
                out.broken.append({'what': 'internal: the block partition does not cover every scalar value', 'detail': c['pattern']})
                continue
            ib = 1 << len(datoms)
            blocks = {}
            for s, (first, cnt) in sigs.items():
                blocks.setdefault(s & (ib - 1), []).append(s)
            c['blocks'] = len(blocks)
            c['nonconstant'] = sum(1 for v in blocks.values() if len(v) > 1)
            nonconstant += c['nonconstant']
            reps = sorted((first, s, cnt) for s, (first, cnt) in sigs.items())
            c['reps'] = [unidx(f) for f, _, _ in reps]
            c['rep_impl'] = [bool(s & ib) for _, s, _ in reps]
            c['rep_count'] = [cnt for _, _, cnt in reps]
            tbl = {}
            for bit, at in enumerate(datoms):
                if at[0] == 'named':
                    tbl[at[1]] = [unidx(f) for f, s, _ in reps if s & (1 << bit)]
            c['tbl'] = tbl
            c['size'] = sum(cnt for s, (first, cnt) in sigs.items() if s & ib)
            blocks_total += c['blocks']
            reps_total += len(reps)
            ready.append(c)
        # Coq evaluation
        shards = chunks(ready, 100)
        paths = []
        for n, sh_ in enumerate(shards):
            p = os.path.join(rdir, 'c08_cases_%03d.v' % n)
            with open(p, 'w') as f:
                f.write(COQ_HEADER)
                terms = []
                for c in sh_:
                    tbl = clist(['(%d, %s)' % (k, clist([str(x) for x in v])) for k, v in sorted(c['tbl'].items())])
                    reps = clist([str(x) for x in c['reps']])
                    terms.append('\n (let nm := named_of_tbl %s in let l := %s in let cs := %s in\n'
                                 '  (eval_leaf_on nm l cs, map (denote_leaf nm l) cs,\n'
                                 '   (map named_key (named_of_leaf l), lits_of_leaf l, ranges_of_leaf l, has_dot_leaf l)))'
                                 % (tbl, c['term'], reps))
                f.write('Eval vm_compute in %s.\n' % clist(terms))
            paths.append(p)
        outs = coq_eval_files(paths)
        evaluated = 0
        agree_classes = 0
        for sh_, (rc, o), p in zip(shards, outs, paths):
            if rc != 0:
                out.broken.append({'what': 'coqc failed on generated case file %s' % p, 'detail': o[-2000:]})
                continue
            vals = parse_coq_value(o)
            if len(vals) != len(sh_):
                out.broken.append({'what': 'unexpected number of results in %s' % p, 'detail': o[-500:]})
                continue
            for c, v in zip(sh_, vals):
                evaluated += 1
                ev, den, (keys, lits, ranges, hasdot) = v
                my = c['atoms']
                mine = ([a[1] for a in my if a[0] == 'named'], [a[1] for a in my if a[0] == 'lit'],
                        [(a[1], a[2]) for a in my if a[0] == 'range'], any(a[0] == 'dot' for a in my))
                if (keys, lits, [tuple(r) for r in ranges], hasdot) != mine:
                    out.broken.append({'what': 'translator: the atoms used for the partition differ from ClassAlg.atoms_of_leaf',
                                       'detail': {'pattern': c['pattern'], 'coq': [keys, lits, ranges, hasdot], 'python': mine}})
                    continue
                if ev != den:
                    out.broken.append({'what': 'eval_leaf and denote_leaf differ on a generated class although C08_eval_is_set_algebra is proved',
                                       'detail': {'pattern': c['pattern'], 'term': c['term']}})
                bad = [i for i in range(len(ev)) if ev[i] != c['rep_impl'][i]]
                if not bad:
                    agree_classes += 1
                    continue
                i = bad[0]
                w = c['reps'][i]
                out.violations.append({
                    'property': 'C08', 'what': 'class membership differs from the set algebra of its parts',
                    'pattern': c['pattern'], 'origin': c['origin'], 'ast': c['ast'], 'coq_leaf': c['term'],
                    'witness': w, 'witness_char': chr(w), 'implementation_matches': c['rep_impl'][i], 'set_algebra_says': ev[i],
                    'characters_in_the_same_block_with_the_same_verdict': c['rep_count'][i],
                    'all_disagreeing_representatives': [[c['reps'][j], c['rep_count'][j]] for j in bad[:20]],
                    'named_sets_at_representatives': {str(k): v for k, v in c['tbl'].items()},
                    'replay_hint': 'scan the one-character string chr(witness) with the single pattern'})
        nascii = 0
        nctx = 0
        if not replay:
            nascii = self.ascii_claims(rdir, out, obs)
            nctx = self.context_stage(rng, tier, rdir, out, ready)
        elif payload.get('kind') == 'context':
            nctx = self.context_stage(rng, tier, rdir, out, ready, pairs=[(payload['context'], payload['pattern'])])
        # evidence
        seen = set()
        nt = 0
        ops_h, kinds_h, depth_h, origin_h, named_h = {}, {}, {}, {}, {}
        shape = {'empty': 0, 'all': 0, 'proper': 0}
        for c in ready:
            depth, ops, kinds, neg, nested = leaf_stats(c['ast'])
            for k, v in ops.items():
                ops_h[k] = ops_h.get(k, 0) + v
            for k, v in kinds.items():
                kinds_h[k] = kinds_h.get(k, 0) + v
            depth_h[str(depth)] = depth_h.get(str(depth), 0) + 1
            origin_h[c['origin']] = origin_h.get(c['origin'], 0) + 1
            for at in set(a for a in c['atoms'] if a[0] == 'named'):
                named_h[at[3]] = named_h.get(at[3], 0) + 1
            shape['empty' if c['size'] == 0 else 'all' if c['size'] == NSCAL else 'proper'] += 1
            h = canon_hash(strip_s(c['ast']))
            if h in seen:
                continue
            seen.add(h)
            if c['ast']['k'] == 'cls_bracketed' and (ops or neg or nested):
                nt += 1
        samples = []
        for c in [c for c in ready if c['origin'] == 'generated' and c['blocks'] >= 4][:3] or ready[:3]:
            samples.append({'pattern': c['pattern'], 'coq_leaf': c['term'], 'blocks': c['blocks'],
                            'representatives': c['reps'], 'implementation_at_representatives': c['rep_impl'],
                            'set_size': c['size']})
        stats.update({
            'evaluations': evaluated, 'distinct_nontrivial': nt, 'rule': self.RULE, 'samples': samples or [{'note': 'none'}],
            'classes_evaluated': evaluated, 'classes_agreeing_on_every_scalar_value': agree_classes,
            'distinct_classes': len(seen), 'blocks_total': blocks_total, 'representatives_evaluated_in_coq': reps_total,
            'blocks_on_which_the_implementation_is_not_constant': nonconstant,
            'scalar_values_per_class': NSCAL, 'exhaustive': True, 'scalar_value_verdicts_decided': evaluated * NSCAL,
            'named_items_observed_alone': len(alone), 'ascii_claims_checked': nascii,
            'classes_observed_again_next_to_a_related_class_in_one_scanner': nctx,
            'operator_distribution': ops_h, 'item_kind_distribution': kinds_h, 'nesting_depth_hist': depth_h,
            'origin_distribution': origin_h, 'named_item_distribution': named_h, 'set_shape': shape, 'skipped': skipped,
            'max_blocks_in_a_class': max([c['blocks'] for c in ready] + [0])})
        return stats

    # ------------------------------------------------------------------------------------------
    CONTEXTS = {'quick': 120, 'thorough': 1500}

    @staticmethod
    def twin(text):
        """a class related to `text` (its complement spelled the obvious way, or the same set in brackets)"""
        m = re.fullmatch(r'\\([pP])(\{[^}]*\}|.)', text)
        if m:
            return '\\' + ('P' if m.group(1) == 'p' else 'p') + m.group(2)
        m = re.fullmatch(r'\\([dswDSW])', text)
        if m:
            return '\\' + m.group(1).swapcase()
        m = re.fullmatch(r'\[\[:(\^?)(\w+):\]\]', text)
        if m:
            return '[[:%s%s:]]' % ('' if m.group(1) else '^', m.group(2))
        if text.startswith('[^'):
            return '[' + text[2:]
        if text.startswith('['):
            return '[^' + text[1:]
        return None

    def context_stage(self, rng, tier, rdir, out, ready, pairs=None):
        """The class registry is scanner-wide: a class must denote the same set when a related class
        (its complement, the same items in brackets, another class of the run) was registered before
        it in the same scanner. The set observed alone (already compared with the set algebra above)
        is the reference."""
        alone = {c['pattern']: c['impl'] for c in ready}
        if pairs is None:
            pairs = []
            texts = sorted(alone)
            # systematic: every class that has an obvious complement twin is observed behind that twin
            for t in texts:
                tw = self.twin(t)
                if tw is not None and (t.startswith('\\') or t.startswith('[[:')):
                    pairs.append((tw, t))
            order = texts[:]
            rng.shuffle(order)
            for t in order:
                tw = self.twin(t)
                if tw is not None:
                    pairs.append((tw, t))
                if not t.startswith('['):
                    pairs.append(('[%s]' % t, t))
                    pairs.append(('[^%s]' % t, t))
                pairs.append((rng.choice(texts), t))
                if len(pairs) >= self.CONTEXTS[tier] + 120:
                    break
        jobs = [{'kind': 'c08_ctx', 'pairs': [list(x) for x in c]} for c in chunks(pairs, 8)]
        res = run_harness(jobs, rdir, 'c08_ctx', timeout=3000)
        n = 0
        for r in res:
            if r.get('harness_panic'):
                raise RuntimeError('harness panic: %s' % r['harness_panic'])
            for x in r['res']:
                if x.get('build') != 'ok' or x.get('ranges') is None or x['p'] not in alone:
                    continue          # the context does not parse/build: nothing observed
                n += 1
                got = to_idx_ranges(x['ranges'])
                d = first_difference(got, alone[x['p']])
                if d is not None or x.get('anomalies'):
                    w = unidx(d) if d is not None else None
                    out.violations.append({
                        'property': 'C08', 'kind': 'context',
                        'what': 'a class denotes a different set when a related class is registered before it in the same scanner '
                                '(alone it is the set algebra of its parts)',
                        'pattern': x['p'], 'context': x['ctx'], 'witness': w, 'witness_char': chr(w) if w is not None else None,
                        'matches_next_to_context': bool(d is not None and any(lo <= d <= hi for lo, hi in got)),
                        'anomalies': x.get('anomalies'),
                        'replay_hint': 'modes [C: context#7], [L: pattern#0]; set_mode(1); scan chr(witness)'})
        return n

    # ------------------------------------------------------------------------------------------
    def ascii_claims(self, rdir, out, stream_obs=None):
        """The explicit claims of the property, on one-character haystacks (job class_sweep): \\d \\s \\w restricted to
        ASCII (all 128 values enumerated), \\D \\S \\W their complements over all scalar values, a literal matches only
        itself, . matches everything except \\n and \\r."""
        perl = {'d': set(range(48, 58)), 's': {9, 10, 11, 12, 13, 32},
                'w': set(range(48, 58)) | set(range(65, 91)) | set(range(97, 123)) | {95}}
        pats = ['\\d', '\\s', '\\w', '\\D', '\\S', '\\W', '.'] + [t for t, _ in TOP_LITS]
        res = run_harness([{'kind': 'class_sweep', 'patterns': [p]} for p in pats], rdir, 'c08_ascii')
        sw = {}
        for r in res:
            for p, v in r['ranges'].items():
                sw[p] = v
        n = 0

        def viol(p, claim, w, impl):
            out.violations.append({'property': 'C08', 'kind': 'ascii', 'what': claim, 'pattern': p, 'witness': w,
                                   'witness_char': chr(w), 'implementation_matches': impl})

        for p in pats:
            if sw.get(p) is None:
                out.broken.append({'what': 'pattern of an explicit C08 claim does not build', 'detail': p})
                return n
        if stream_obs:
            for p in pats:
                o = stream_obs.get(p)
                if o and o.get('ranges') is not None and [list(r) for r in o['ranges']] != [list(r) for r in sw[p]]:
                    d = first_difference(to_idx_ranges(o['ranges']), to_idx_ranges(sw[p]))
                    out.broken.append({'what': 'observation: scanning one haystack with all scalar values and scanning one-character '
                                               'haystacks give different sets', 'detail': {'pattern': p, 'first_difference': unidx(d) if d is not None else None}})
        for k, expect in perl.items():
            r = to_idx_ranges(sw['\\' + k])
            member = set()
            for lo, hi in r:
                for c in range(lo, min(hi, 127) + 1):
                    member.add(c)
            for c in range(128):
                n += 1
                if (c in member) != (c in expect):
                    viol('\\' + k, '\\%s restricted to ASCII is not the documented set' % k, c, c in member)
                    break
            rn = to_idx_ranges(sw['\\' + k.upper()])
            n += 1
            d = first_difference(rn, complement(r))
            if d is not None:
                w = unidx(d)
                viol('\\' + k.upper(), '\\%s is not the complement of \\%s' % (k.upper(), k), w,
                     any(lo <= d <= hi for lo, hi in rn))
        n += 1
        d = first_difference(to_idx_ranges(sw['.']), DOT_RANGES)
        if d is not None:
            viol('.', '. does not match exactly the characters other than \\n and \\r', unidx(d),
                 any(lo <= d <= hi for lo, hi in to_idx_ranges(sw['.'])))
        for t, c in TOP_LITS:
            n += 1
            r = to_idx_ranges(sw[t])
            d = first_difference(r, [(idx(c), idx(c))])
            if d is not None:
                viol(t, 'a literal does not match exactly itself', unidx(d), any(lo <= d <= hi for lo, hi in r))
        return n


PROPS = {'C08': C08}
