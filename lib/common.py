"""Shared plumbing of the /verif checks: building, running the harness, evaluating the Coq
model, parsing, evidence."""
import json, os, re, subprocess, sys, time, hashlib, shutil
from concurrent.futures import ThreadPoolExecutor

ROOT = os.path.dirname(os.path.dirname(os.path.abspath(__file__)))
COQ = os.path.join(ROOT, 'coq')
HARNESS = os.path.join(ROOT, 'harness')
REPO = '/repo'
PANIC = 999999
NCPU = 16

ENV = dict(os.environ)
ENV.update({'CARGO_NET_OFFLINE': 'true', 'RUSTFLAGS': '--cfg scnr_verif'})


def sh(cmd, cwd=None, timeout=None, env=None):
    p = subprocess.run(cmd, cwd=cwd, shell=isinstance(cmd, str), stdout=subprocess.PIPE,
                       stderr=subprocess.STDOUT, text=True, timeout=timeout, env=env or ENV)
    return p.returncode, p.stdout


def run_dir(name):
    d = os.path.join(ROOT, 'run', name)
    shutil.rmtree(d, ignore_errors=True)
    os.makedirs(d, exist_ok=True)
    return d


# ----------------------------------------------------------------------------------------------
# harness

def build_harness(release=False):
    """Rebuilds the harness (and scnr from /repo's working tree, hooks on). (ok, log)"""
    cmd = ['cargo', 'build', '--offline'] + (['--release'] if release else [])
    rc, out = sh(cmd, cwd=HARNESS, timeout=1500)
    return rc == 0, out


def harness_bin(release=False):
    return os.path.join(HARNESS, 'target', 'release' if release else 'debug', 'scnr_verif_harness')


def run_harness(jobs, rdir, name='jobs', threads=NCPU, release=False, timeout=1500):
    jf = os.path.join(rdir, name + '.json')
    rf = os.path.join(rdir, name + '.results.jsonl')
    with open(jf, 'w') as f:
        json.dump({'jobs': jobs}, f)
    rc, out = sh([harness_bin(release), jf, rf, str(threads)], timeout=timeout)
    if rc != 0:
        raise RuntimeError('harness failed rc=%s: %s' % (rc, out[-2000:]))
    res = [json.loads(l) for l in open(rf)]
    assert len(res) == len(jobs)
    return res


# ----------------------------------------------------------------------------------------------
# Coq

def coq_make(targets=None, timeout=1700):
    """(Re)builds the Coq development. Returns (ok, log)."""
    if not os.path.exists(os.path.join(COQ, 'Makefile')):
        rc, out = sh('coq_makefile -f _CoqProject -o Makefile', cwd=COQ)
        if rc != 0:
            return False, out
    cmd = ['make', '-j%d' % NCPU] + (targets or [])
    # checks of different properties may run at the same time: one make at a time in coq/
    import fcntl
    with open(os.path.join(COQ, '.build.lock'), 'w') as lk:
        fcntl.flock(lk, fcntl.LOCK_EX)
        try:
            rc, out = sh(cmd, cwd=COQ, timeout=timeout)
        finally:
            fcntl.flock(lk, fcntl.LOCK_UN)
    return rc == 0, out


def coqc_file(path, timeout=900):
    rc, out = sh(['coqc', '-noglob', '-Q', COQ, 'Scnr', path], cwd=os.path.dirname(path), timeout=timeout)
    return rc, out


def coq_eval_files(paths, timeout=900):
    """Runs coqc on each file in parallel; returns list of (rc, stdout)."""
    with ThreadPoolExecutor(max_workers=NCPU) as ex:
        return list(ex.map(lambda p: coqc_file(p, timeout), paths))


_tok = re.compile(r'\[|\]|;|\(|\)|,|true|false|\d+')


def parse_coq_value(text):
    """Parses the value printed by `Eval vm_compute in X.`: nested lists/tuples of numbers/bools."""
    i = text.index('=')
    body = text[i + 1:]
    # cut the trailing type annotation ("     : type")
    m = re.search(r'\n\s*:\s', body)
    if m:
        body = body[:m.start()]
    body = body.replace('%N', '').replace('%nat', '')
    toks = _tok.findall(body)
    pos = [0]

    def parse():
        t = toks[pos[0]]
        pos[0] += 1
        if t == '[':
            items = []
            if toks[pos[0]] == ']':
                pos[0] += 1
                return items
            while True:
                items.append(parse())
                t2 = toks[pos[0]]
                pos[0] += 1
                if t2 == ']':
                    return items
                assert t2 == ';', t2
        if t == '(':
            items = [parse()]
            while True:
                t2 = toks[pos[0]]
                pos[0] += 1
                if t2 == ')':
                    return tuple(items)
                assert t2 == ',', t2
                items.append(parse())
        if t == 'true':
            return True
        if t == 'false':
            return False
        return int(t)
    return parse()


def split_evals(out):
    """Splits coqc output into the blocks printed by successive Eval commands."""
    parts = re.split(r'(?m)^\s{5}= ', out)
    return ['= ' + p for p in parts[1:]]


# ----------------------------------------------------------------------------------------------
# Coq term printing (everything in N_scope)

def cbool(b):
    return 'true' if b else 'false'


def clist(items):
    return '[' + '; '.join(items) + ']'


def dfa_term(d):
    tr = clist([clist(['(%d, %d)' % (e[0], e[1]) for e in s]) for s in d['states']])
    fi = clist(['(%s, %d)' % (cbool(e[0]), e[1]) for e in d['end']])
    ti = clist([str(t) for t in d['tids']])
    return '(mk_dfa %s %s %s)' % (tr, fi, ti)


def mode_term(m):
    d = m['dfa']
    las = clist(['(%d, (%s, %s))' % (l[0], cbool(l[1]), dfa_term(l[2])) for l in d.get('las', [])])
    tr = clist(['(%d, %d)' % (t[0], t[1]) for t in m['transitions']])
    return '(mk_mode %s %s %s)' % (dfa_term(d), las, tr)


def cls_term(cls):
    """cls: {class id (str or int): [chars]}"""
    return clist(['(%d, %s)' % (int(k), clist([str(c) for c in v])) for k, v in sorted(cls.items(), key=lambda kv: int(kv[0]))])


def input_term(s):
    return clist([str(ord(c)) for c in s])


OPS = {'next': 'NNext', 'nextpos': 'NNextPos', 'peek': 'NPeek', 'set_offset': 'NSetOffset',
       'advance_to': 'NAdvanceTo', 'set_mode': 'NSetMode', 'position': 'NPosition',
       'current_mode': 'NCurrentMode', 'offset': 'NOffset'}


def ops_term(ops):
    out = []
    for o in ops:
        if len(o) > 1:
            out.append('%s %d' % (OPS[o[0]], o[1]))
        else:
            out.append(OPS[o[0]])
    return clist(out)


class LeafIds:
    """Numbers the distinct leaf strings of a case."""
    def __init__(self):
        self.ids = {}

    def get(self, s):
        if s not in self.ids:
            self.ids[s] = len(self.ids)
        return self.ids[s]


def ast_term(a, leaves):
    k = a['k']
    if k == 'empty':
        return 'AEmpty'
    if k in ('lit', 'dot', 'cls_unicode', 'cls_perl', 'cls_bracketed'):
        return '(ALeaf %d)' % leaves.get(a['s'])
    if k == 'flags':
        return 'AFlags'
    if k == 'assertion':
        return 'AAssertion'
    if k == 'rep':
        op = a['op']
        rk = {'?': 'RZeroOrOne', '*': 'RZeroOrMore', '+': 'ROneOrMore'}.get(op)
        if rk is None:
            if op == 'exactly':
                rk = '(RExactly %d%%nat)' % a['m']
            elif op == 'atleast':
                rk = '(RAtLeast %d%%nat)' % a['m']
            else:
                rk = '(RBounded %d%%nat %d%%nat)' % (a['m'], a['n'])
        return '(ARep %s %s %s)' % (rk, cbool(a['greedy']), ast_term(a['a'], leaves))
    if k == 'group':
        return '(AGroup %s %s)' % (cbool(a['flags']), ast_term(a['a'], leaves))
    if k == 'alt':
        return '(AAlt %s)' % clist([ast_term(x, leaves) for x in a['as']])
    if k == 'concat':
        return '(AConcat %s)' % clist([ast_term(x, leaves) for x in a['as']])
    raise ValueError('ast kind ' + k)


def smodes_term(modes_cfg, asts, leaves):
    """Spec modes from the configuration (token types, transitions) and the parsed ASTs."""
    ms = []
    for m, ma in zip(modes_cfg, asts):
        ps = []
        for p, (pa, la) in zip(m['patterns'], ma):
            la_t = 'None'
            if p.get('la'):
                la_t = '(Some (%s, %s))' % (cbool(p['la']['pos']), ast_term(la, leaves))
            ps.append('(mk_spat %d %s %s)' % (p['t'], ast_term(pa, leaves), la_t))
        tr = clist(['(%d, %d)' % (t[0], t[1]) for t in m.get('transitions', [])])
        ms.append('(mk_smode %s %s)' % (clist(ps), tr))
    return clist(ms)


def leaf_tbl_term(leaf_tbl, leaves):
    """leaf_tbl: {leaf string: [chars]} -> [(leaf id, [chars])]"""
    items = []
    for s, i in sorted(leaves.ids.items(), key=lambda kv: kv[1]):
        items.append('(%d, %s)' % (i, clist([str(c) for c in (leaf_tbl.get(s) or [])])))
    return clist(items)


HEADER = ('From Scnr Require Import Base Regex Automaton FindFrom Iter IterRun Spec SpecRun.\n'
          'Open Scope N_scope.\nSet Printing Depth 1000000.\nSet Printing Width 1000000.\n')


# ----------------------------------------------------------------------------------------------
# assumptions of property theorems

def print_assumptions(module, theorems, rdir):
    """Compiles a tiny file printing the assumptions of the given theorems. {thm: text}"""
    path = os.path.join(rdir, 'Assumptions_%s.v' % module.replace('.', '_'))
    with open(path, 'w') as f:
        f.write('From Scnr Require Import %s.\n' % module)
        for t in theorems:
            f.write('Print Assumptions %s.\n' % t)
    rc, out = coqc_file(path)
    res = {}
    if rc != 0:
        return None, out
    blocks = re.split(r'(?m)^(?=Closed under the global context|Axioms:)', out)
    blocks = [b for b in blocks if b.strip()]
    for t, b in zip(theorems, blocks):
        res[t] = b.strip()
    return res, out


FORBIDDEN = re.compile(r'\b(Admitted|admit|Axiom|Axioms|Parameter|Parameters|Conjecture|Hypothesis\s|Hypotheses\s|Variable\s|Variables\s|Admit Obligations)\b|Unset Guard|bypass_check|type-in-type|impredicative-set|Unset Positivity|Unset Universe')


def strip_comments(text):
    """Removes (nested) Coq comments, keeping line structure; string literals are respected."""
    out = []
    depth = 0
    i = 0
    instr = False
    while i < len(text):
        c = text[i]
        if depth == 0 and c == '"':
            instr = not instr
            out.append(c)
            i += 1
            continue
        if not instr and text.startswith('(*', i):
            depth += 1
            i += 2
            continue
        if not instr and depth > 0 and text.startswith('*)', i):
            depth -= 1
            i += 2
            continue
        if depth > 0:
            if c == '\n':
                out.append(c)
        else:
            out.append(c)
        i += 1
    return ''.join(out)


def scan_forbidden():
    """Greps the development for forbidden vernacular (Variable/Hypothesis only outside sections)."""
    hits = []
    for dp, dn, fn in os.walk(COQ):
        for f in fn:
            if not f.endswith('.v'):
                continue
            depth = 0
            code_text = strip_comments(open(os.path.join(dp, f)).read())
            for n, code in enumerate(code_text.split('\n'), 1):
                if re.match(r'\s*Section\b', code):
                    depth += 1
                if re.match(r'\s*End\b', code) and depth > 0:
                    depth -= 1
                for m in FORBIDDEN.finditer(code):
                    w = m.group(0).strip()
                    if w in ('Hypothesis', 'Hypotheses', 'Variable', 'Variables') and depth > 0:
                        continue
                    hits.append('%s:%d: %s' % (os.path.relpath(os.path.join(dp, f), COQ), n, code.strip()))
    return hits


# ----------------------------------------------------------------------------------------------
# evidence

def write_evidence(pid, tier, seed, coverage, wall, violations, assumptions, level='proof'):
    os.makedirs(os.path.join(ROOT, 'evidence'), exist_ok=True)
    ev = {'property_id': pid, 'tier': tier, 'seed': seed, 'level': level, 'coverage': coverage,
          'assumptions': assumptions, 'wall_s': round(wall, 2), 'violations': violations}
    with open(os.path.join(ROOT, 'evidence', pid + '.json'), 'w') as f:
        json.dump(ev, f, indent=1, ensure_ascii=False)


def canon_hash(obj):
    return hashlib.sha256(json.dumps(obj, sort_keys=True, ensure_ascii=False).encode()).hexdigest()
