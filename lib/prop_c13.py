"""C13 — the scanner cache is transparent.

Three parts:
 * `regen`: a small source translator. It reads scanner_cache.rs, scanner_builder.rs,
   scanner_mode.rs and pattern.rs of the CURRENT /repo tree and writes the premises the Coq cache
   model relies on as boolean definitions to coq/Gen/CacheFacts.v (key facts: C13 and C14) and
   coq/Gen/CacheLockFacts.v (lock facts: C14 only), each closed by a lemma proved by reflexivity,
   so a source change that breaks a premise breaks a proof obligation.
 * proof obligations: Properties/C13.v (Cache.v, CacheProofs.v).
 * `explore`: histories of builds, ONE harness process per history (the cache is process-global),
   cached vs uncached on every step, the Coq model run on the same history.
prop_c14.py reuses the generators and the translator."""
import json, os, re
from concurrent.futures import ThreadPoolExecutor
from common import *
import gen

SRC = os.path.join(REPO, 'scnr', 'src')
GEN_DIR = os.path.join(COQ, 'Gen')

# ----------------------------------------------------------------------------------------------
# source translator

def strip_rust(text):
    """Removes comments (line, nested block) and blanks out the CONTENTS of string/char literals,
    so that the regexes below only ever see code."""
    out = []
    i, n = 0, len(text)
    while i < n:
        c = text[i]
        if text.startswith('//', i):
            j = text.find('\n', i)
            i = n if j < 0 else j
            continue
        if text.startswith('/*', i):
            depth, i = 1, i + 2
            while i < n and depth:
                if text.startswith('/*', i):
                    depth, i = depth + 1, i + 2
                elif text.startswith('*/', i):
                    depth, i = depth - 1, i + 2
                else:
                    if text[i] == '\n':
                        out.append('\n')
                    i += 1
            continue
        m = re.compile(r'b?r(#*)"').match(text, i)
        if m and (i == 0 or not (text[i - 1].isalnum() or text[i - 1] == '_')):
            close = '"' + m.group(1)
            j = text.find(close, m.end())
            j = n if j < 0 else j + len(close)
            out.append('""' + '\n' * text.count('\n', i, j))
            i = j
            continue
        if c == '"':
            j = i + 1
            while j < n and text[j] != '"':
                j += 2 if text[j] == '\\' else 1
            out.append('""' + '\n' * text.count('\n', i, min(j + 1, n)))
            i = j + 1
            continue
        if c == "'":
            m = re.compile(r"'(\\.[^']*|[^\\'])'").match(text, i)
            if m:
                out.append("' '")
                i = m.end()
                continue
        out.append(c)
        i += 1
    return ''.join(out)


def cut_tests(code):
    """Drops `#[cfg(test)] mod ... { ... }` blocks."""
    while True:
        m = re.search(r'#\s*\[\s*cfg\s*\(\s*test\s*\)\s*\]\s*(?:pub\s+)?mod\s+\w+\s*\{', code)
        if not m:
            return code
        end = match_brace(code, m.end() - 1)
        code = code[:m.start()] + code[end:]


def match_brace(code, i, open_='{', close='}'):
    """Index just after the bracket matching the one at code[i]."""
    depth = 0
    for j in range(i, len(code)):
        if code[j] == open_:
            depth += 1
        elif code[j] == close:
            depth -= 1
            if depth == 0:
                return j + 1
    return len(code)


def read_code(path):
    return cut_tests(strip_rust(open(path, encoding='utf-8').read()))


ATTR = r'#\s*\[(?:[^\[\]]|\[[^\[\]]*\])*\]'


def find_struct(code, name):
    """(attribute text, [field names]) of `struct name { .. }`, or None."""
    m = re.search(r'((?:' + ATTR + r'\s*)*)(?:pub(?:\s*\([^)]*\))?\s+)?struct\s+' + name + r'\b[^{;(]*\{', code)
    if not m:
        return None
    end = match_brace(code, m.end() - 1)
    body = re.sub(ATTR, ' ', code[m.end():end - 1])
    fields, depth, cur = [], 0, ''
    for ch in body + ',':
        if ch in '<([{':
            depth += 1
        elif ch in '>)]}':
            depth -= 1
        if ch == ',' and depth == 0:
            fm = re.match(r'\s*(?:pub(?:\s*\([^)]*\))?\s+)?(?:r#)?(\w+)\s*:', cur)
            if fm:
                fields.append(fm.group(1))
            elif cur.strip():
                fields.append('?' + cur.strip())
            cur = ''
        else:
            cur += ch
    return m.group(1), fields


def derives_of(attrs):
    """Traits derived unconditionally (cfg_attr derives do not count)."""
    got = set()
    for a in re.finditer(ATTR, attrs):
        m = re.match(r'#\s*\[\s*derive\s*\((.*)\)\s*\]\s*$', a.group(0), re.S)
        if m:
            for t in m.group(1).split(','):
                t = t.strip()
                if t:
                    got.add(t.split('::')[-1].strip())
    return got


def manual_impls(all_code, name):
    """Hand-written impls of PartialEq / Eq / Hash for the type."""
    hits = []
    for f, code in all_code.items():
        for m in re.finditer(r'\bimpl\b[^{;]*?\b(PartialEq|Eq|Hash)\b[^{;]*?\bfor\s+(?:\w+\s*::\s*)*' + name + r'\b', code):
            hits.append('%s: %s' % (os.path.basename(f), ' '.join(m.group(0).split())))
    return hits


def functions_mentioning(code, ident):
    """[(fn name, body)] of the functions whose body mentions the identifier."""
    res = []
    for m in re.finditer(r'\bfn\s+(\w+)\b[^{;]*\{', code):
        end = match_brace(code, m.end() - 1)
        body = code[m.end():end - 1]
        if re.search(r'\b' + ident + r'\b', body):
            res.append((m.group(1), body))
    return res


UNWRAP = r'(?:\s*\.\s*(?:unwrap|expect|unwrap_or_else)\s*\((?:[^()]|\([^()]*\))*\)|\s*\?)?'


def atomic_use(body, lock_kind):
    """Is the cache locked exclusively and `.get(..)` called while that lock is held, with no other
    use of the cache in the function? Accepts the single expression
    `SCANNER_CACHE.write().unwrap().get(..)` and the guard-in-a-let form."""
    if len(re.findall(r'\bSCANNER_CACHE\b', body)) != 1:
        return False
    excl = r'(?:write|lock)' if lock_kind != 'RwLock' else r'write'
    if re.search(r'\bSCANNER_CACHE\s*\.\s*' + excl + r'\s*\(\s*\)' + UNWRAP + r'\s*\.\s*get\s*\(', body):
        return True
    m = re.search(r'\blet\s+(?:mut\s+)?(\w+)\s*(?::[^=;]+)?=\s*SCANNER_CACHE\s*\.\s*' + excl + r'\s*\(\s*\)' + UNWRAP + r'\s*;', body)
    if m:
        g = m.group(1)
        rest = body[m.end():]
        u = re.search(r'\b' + g + r'\s*\.\s*get\s*\(', rest)
        if u and not re.search(r'\bdrop\s*\(\s*' + g + r'\s*\)', rest[:u.start()]) \
                and not re.search(r'\blet\s+(?:mut\s+)?' + g + r'\b', rest[:u.start()]):
            return True
    return False


MODEL_FIELDS = {'ScannerMode': ['name', 'patterns', 'transitions'],
                'Pattern': ['pattern', 'token_type', 'lookahead'],
                'Lookahead': ['is_positive', 'pattern']}
STRUCT_FILE = {'ScannerMode': 'scanner_mode.rs', 'Pattern': 'pattern.rs', 'Lookahead': 'pattern.rs'}


def read_facts():
    """([(coq name, bool, explanation)] key facts, [...] lock facts)."""
    all_code = {}
    for dp, dn, fn in os.walk(SRC):
        for f in fn:
            if f.endswith('.rs') and f != 'verif.rs':
                p = os.path.join(dp, f)
                all_code[p] = read_code(p)
    key, lock = [], []
    for name, want in MODEL_FIELDS.items():
        low = {'ScannerMode': 'scanner_mode', 'Pattern': 'pattern', 'Lookahead': 'lookahead'}[name]
        found = None
        pref = os.path.join(SRC, STRUCT_FILE[name])
        for p in [pref] + sorted(all_code):
            if p in all_code:
                found = find_struct(all_code[p], name)
                if found:
                    break
        if not found:
            for suffix in ('derives_eq_hash', 'no_manual_eq_hash', 'fields_match_model'):
                key.append(('%s_%s' % (low, suffix), False, 'struct %s not found in %s (structure not recognised)' % (name, SRC)))
            continue
        attrs, fields = found
        d = derives_of(attrs)
        key.append(('%s_derives_eq_hash' % low, {'PartialEq', 'Eq', 'Hash'} <= d,
                    '%s must derive PartialEq, Eq and Hash unconditionally; derives found: %s' % (name, sorted(d))))
        mi = manual_impls(all_code, name)
        key.append(('%s_no_manual_eq_hash' % low, not mi,
                    '%s must not have a hand-written PartialEq/Eq/Hash impl; found: %s' % (name, mi)))
        key.append(('%s_fields_match_model' % low, sorted(fields) == sorted(want),
                    'fields of %s are %s, the model (Json.v records, config_eqb) has %s' % (name, fields, want)))
    cache_p = os.path.join(SRC, 'internal', 'scanner_cache.rs')
    cache_code = all_code.get(cache_p, '')
    sc = find_struct(cache_code, 'ScannerCache')
    key_ok = bool(re.search(r'\b\w*Map\s*<\s*Vec\s*<\s*(?:\w+\s*::\s*)*ScannerMode\s*>\s*,', cache_code))
    key.append(('cache_key_is_whole_mode_vector', bool(sc) and key_ok,
                'the map inside ScannerCache must be keyed by Vec<ScannerMode> (scanner_cache.rs)'))
    # lock facts
    kind = None
    for code in all_code.values():
        m = re.search(r'\bstatic\s+(?:ref\s+)?SCANNER_CACHE\s*:\s*([^=;]+)[=;]', code)
        if m:
            k = re.search(r'\b(RwLock|Mutex)\s*<\s*(?:\w+\s*::\s*)*ScannerCache\s*>', m.group(1))
            kind = k.group(1) if k else None
            break
    lock.append(('cache_static_is_rwlock_or_mutex', kind is not None,
                 'static SCANNER_CACHE must be a (Lazy) RwLock<ScannerCache> or Mutex<ScannerCache>'))
    lock.append(('cache_get_takes_mut_self', bool(re.search(r'\bfn\s+get\s*(?:<[^>]*>)?\s*\(\s*&\s*mut\s+self\b', cache_code)),
                 'ScannerCache::get must take &mut self (lookup and insert in one exclusive call)'))
    users = []
    for p, code in all_code.items():
        for fname, body in functions_mentioning(code, 'SCANNER_CACHE'):
            users.append((os.path.basename(p), fname, body))
    builder = [(f, n, b) for f, n, b in users if f == 'scanner_builder.rs' and n == 'build']
    lock.append(('build_found_in_scanner_builder', len(builder) >= 1,
                 'a `fn build` using SCANNER_CACHE must exist in scanner_builder.rs (otherwise the structure is not recognised); found %d' % len(builder)))
    bad = ['%s::%s' % (f, n) for f, n, b in users if not atomic_use(b, kind)]
    lock.append(('every_cache_use_is_exclusive_lock_with_get', bool(users) and not bad,
                 'every function using SCANNER_CACHE must take the exclusive lock and call .get(..) while holding it '
                 '(`SCANNER_CACHE.write().unwrap().get(..)` in one expression, or a guard bound by let and used for .get); '
                 'users: %s; not so in: %s' % (['%s::%s' % (f, n) for f, n, b in users] or 'NONE FOUND (structure not recognised)', bad or 'none')))
    shared = []
    for p, code in all_code.items():
        if re.search(r'\bSCANNER_CACHE\s*\.\s*(?:read|try_read|try_write|try_lock)\s*\(', code):
            shared.append(os.path.basename(p))
    lock.append(('no_shared_or_try_lock_on_cache', not shared,
                 'SCANNER_CACHE must not be accessed through read()/try_*(): %s' % shared))
    return key, lock


def facts_files(key, lock):
    head = ('(* GENERATED on every run by lib/prop_c13.py (regen) from the current /repo/scnr/src text.\n'
            '   Do not edit. Each definition is a premise of the cache model (Cache.v) read off the source. *)\n')
    a = [head, 'From Coq Require Import Bool.\n']
    for n, v, why in key:
        a.append('(* %s *)\nDefinition %s : bool := %s.\n' % (why.replace('(*', '( *').replace('*)', '* )'), n, cbool(v)))
    a.append('Definition key_facts : bool :=\n  %s.\n' % ' && '.join(n for n, _, _ in key))
    a.append('Lemma key_facts_ok : key_facts = true.\nProof. reflexivity. Qed.\n')
    b = [head, 'From Coq Require Import Bool.\nFrom Scnr Require Import Gen.CacheFacts.\n']
    for n, v, why in lock:
        b.append('(* %s *)\nDefinition %s : bool := %s.\n' % (why.replace('(*', '( *').replace('*)', '* )'), n, cbool(v)))
    b.append('Definition lock_facts : bool :=\n  %s.\n' % ' && '.join(n for n, _, _ in lock))
    b.append('Definition all_facts : bool := key_facts && lock_facts.\n')
    b.append('Lemma cache_facts_ok : all_facts = true.\nProof. reflexivity. Qed.\n')
    return ''.join(a), ''.join(b)


def write_if_changed(path, text):
    os.makedirs(os.path.dirname(path), exist_ok=True)
    if os.path.exists(path) and open(path).read() == text:
        return
    with open(path, 'w') as f:
        f.write(text)


def regen_facts(out, with_lock):
    key, lock = read_facts()
    a, b = facts_files(key, lock)
    write_if_changed(os.path.join(GEN_DIR, 'CacheFacts.v'), a)
    write_if_changed(os.path.join(GEN_DIR, 'CacheLockFacts.v'), b)
    for n, v, why in key + (lock if with_lock else []):
        if not v:
            out.broken.append({'what': 'source premise of the cache model no longer holds: %s' % n, 'detail': why})
    return key, lock


# ----------------------------------------------------------------------------------------------
# configurations: generation, one-field variants, failing variants, Coq terms

SYNTAX_ERR = ['a(', '[a', 'a{2,1}', '*a', '\\', '(?=a)', 'a{,3}', '[z-a]', '\\8', 'a)']
UNSUPPORTED = ['^a', 'a$', '\\bfoo', '(?i)a', 'a*?', '\\p{Greek}', '\\A', '(?s).']
KINDS = ['token_type', 'pattern_order', 'la_presence', 'la_polarity', 'la_pattern', 'transition',
         'mode_name', 'pattern_text', 'mode_order', 'mode_count', 'mode_twin', 'pattern_count']
FILLER = ['a', 'b', 'x', '\u00e9', '\u20ac', '\U0001F600', '\u00df', '\u4e2d']


def long_bad(rng, bad):
    """an unsupported/ill-formed pattern made long by literal filler (multi-byte characters at every
    byte alignment): the error paths (message formatting under the cache lock) see long texts"""
    n = rng.randint(1, 70)
    fill = ''.join(rng.choice(FILLER) for _ in range(n))
    return fill + bad if (rng.random() < 0.6 and not bad.startswith('*')) else bad + fill


def add_twin_mode(rng, c):
    """appends a mode with the same (pattern, token type) list as an existing one that differs in ONE
    lookahead (presence, polarity or pattern), in the transitions, or only in the name"""
    m = clone(rng.choice(c))
    m['name'] = m['name'] + 'T'
    how = rng.choice(['la_presence', 'la_polarity', 'la_pattern', 'transitions', 'name'])
    las = [p for p in m['patterns'] if p.get('la')]
    if how == 'la_presence' or (how in ('la_polarity', 'la_pattern') and not las):
        p = rng.choice(m['patterns'])
        if p.get('la'):
            del p['la']
        else:
            p['la'] = {'pos': rng.random() < 0.5, 'p': gen.gen_small_la(rng)}
    elif how == 'la_polarity':
        p = rng.choice(las)
        p['la']['pos'] = not p['la']['pos']
    elif how == 'la_pattern':
        p = rng.choice(las)
        p['la']['p'] = p['la']['p'] + rng.choice(['a', 'b', '+', 'c?'])
    elif how == 'transitions':
        m['transitions'] = []
    c.append(m)
    # make the twin reachable
    src = rng.choice(c[:-1])
    used = set(t for t, _ in src['transitions'])
    cand = [p['t'] for p in src['patterns'] if p['t'] not in used]
    if cand:
        src['transitions'].append([rng.choice(cand), len(c) - 1])
        src['transitions'].sort()


def clone(x):
    return json.loads(json.dumps(x))


def key_of(cfg):
    return json.dumps(cfg, sort_keys=True, ensure_ascii=False)


def gen_base(rng):
    """A supported configuration in which every one-field change is applicable: >= 2 patterns in
    mode 0, a lookahead, a pattern without one, a transition."""
    nm = rng.choice([1, 1, 2, 2, 3])
    modes = []
    for k in range(nm):
        if rng.random() < 0.6:
            m = gen.gen_small_mode(rng, 'M%d' % k, gen.pick_alpha(rng), rng.randint(2, 4), 0.35)
        else:
            m = gen.gen_mode(rng, 'M%d' % k, npat=rng.randint(2, 4), la_prob=0.3, depth=rng.randint(1, 2))
        modes.append(m)
    m0 = modes[0]
    if not any(p.get('la') for p in m0['patterns']):
        m0['patterns'][0]['la'] = {'pos': rng.random() < 0.5, 'p': gen.gen_small_la(rng)}
    if all(p.get('la') for p in m0['patterns']):
        del m0['patterns'][-1]['la']
    gen.add_transitions(rng, modes)
    if not m0['transitions']:
        m0['transitions'] = [[m0['patterns'][0]['t'], rng.randrange(nm)]]
    if rng.random() < 0.3:
        add_twin_mode(rng, modes)
    return modes


def one_field_variant(rng, cfg, kind):
    """A copy of cfg with exactly one field changed; None if the kind does not apply."""
    c = clone(cfg)
    mi = rng.randrange(len(c))
    m = c[mi]
    pats = m['patterns']
    if kind == 'token_type':
        p = rng.choice(pats)
        used = set(q['t'] for q in pats) | set(t for t, _ in m['transitions'])
        p['t'] = rng.choice([t for t in range(0, 40) if t not in used])
    elif kind == 'pattern_order':
        cand = [x for x in c if len(x['patterns']) >= 2]
        if not cand:
            return None
        ps = rng.choice(cand)['patterns']
        i, j = rng.sample(range(len(ps)), 2)
        ps[i], ps[j] = ps[j], ps[i]
    elif kind == 'la_presence':
        p = rng.choice(pats)
        if p.get('la'):
            del p['la']
        else:
            p['la'] = {'pos': rng.random() < 0.5, 'p': gen.gen_small_la(rng)}
    elif kind in ('la_polarity', 'la_pattern'):
        cand = [p for x in c for p in x['patterns'] if p.get('la')]
        if not cand:
            return None
        p = rng.choice(cand)
        if kind == 'la_polarity':
            p['la']['pos'] = not p['la']['pos']
        else:
            p['la']['p'] = p['la']['p'] + rng.choice(['a', 'b', '+', 'c?'])
    elif kind == 'transition':
        r = rng.random()
        tr = m['transitions']
        if tr and r < 0.35:
            t = rng.choice(tr)
            if len(c) > 1:
                t[1] = rng.choice([x for x in range(len(c)) if x != t[1]])
            else:
                del tr[tr.index(t)]
        elif tr and r < 0.6:
            del tr[rng.randrange(len(tr))]
        elif tr and r < 0.8:
            # another token type at the same place of the sorted list
            i = rng.randrange(len(tr))
            lo = tr[i - 1][0] + 1 if i > 0 else 0
            hi = tr[i + 1][0] - 1 if i + 1 < len(tr) else tr[i][0] + 5
            cand = [t for t in range(lo, hi + 1) if t != tr[i][0]]
            if not cand:
                return None
            tr[i][0] = rng.choice(cand)
        else:
            used = set(t for t, _ in tr)
            cand = [t for t in range(0, 45) if t not in used]
            tr.append([rng.choice(cand), rng.randrange(len(c))])
            tr.sort()
    elif kind == 'mode_name':
        m['name'] = m['name'] + rng.choice(['x', '_', '2', 'é'])
    elif kind == 'pattern_text':
        p = rng.choice(pats)
        p['p'] = p['p'] + rng.choice(['a', 'b', 'x', '[ab]', 'c+'])
    elif kind == 'mode_order':
        if len(c) < 2:
            return None
        i, j = rng.sample(range(len(c)), 2)
        c[i], c[j] = c[j], c[i]
    elif kind == 'mode_twin':
        add_twin_mode(rng, c)
    elif kind == 'pattern_count':
        # the same mode with trailing patterns appended or removed: one list is a strict prefix of the other
        if len(pats) >= 2 and rng.random() < 0.4:
            del pats[-rng.randint(1, min(2, len(pats) - 1)):]
        else:
            used = set(q['t'] for q in pats) | set(t for t, _ in m['transitions'])
            for _ in range(rng.randint(1, 2)):
                t = rng.choice([t for t in range(0, 40) if t not in used])
                used.add(t)
                pats.append({'p': rng.choice(['a', 'b', 'c', '[abc]', 'x', '-', '[a-z]+', '.']), 't': t})
    elif kind == 'mode_count':
        if len(c) >= 2 and rng.random() < 0.4:
            c.pop()
            for x in c:
                x['transitions'] = [t for t in x['transitions'] if t[1] < len(c)]
        else:
            c.append(gen.gen_small_mode(rng, 'X%d' % len(c), ('a', 'b', 'c'), rng.randint(1, 2), 0.2))
    if key_of(c) == key_of(cfg):
        return None
    return c


def failing_variant(rng, cfg):
    """(kind, configuration that does not build): a pattern or lookahead replaced by an ill-formed
    or unsupported one, or a bad extra mode after the (good) modes of cfg."""
    c = clone(cfg)
    bad = rng.choice(SYNTAX_ERR + UNSUPPORTED)
    if rng.random() < 0.35:
        bad = long_bad(rng, bad)
    kind = rng.choice(['bad_pattern', 'bad_lookahead', 'bad_lookahead', 'bad_extra_mode', 'bad_extra_mode', 'bad_first_mode'])
    if kind == 'bad_lookahead' and rng.random() < 0.7 and not bad.startswith(tuple(UNSUPPORTED)):
        bad = rng.choice(UNSUPPORTED)            # an unsupported construct is detected later than a syntax error
    if kind == 'bad_pattern':
        rng.choice(rng.choice(c)['patterns'])['p'] = bad
    elif kind == 'bad_lookahead':
        rng.choice(rng.choice(c)['patterns'])['la'] = {'pos': rng.random() < 0.5, 'p': bad}
    elif kind == 'bad_extra_mode':
        c.append({'name': 'BAD', 'patterns': [{'p': 'a', 't': 0}, {'p': bad, 't': 1}], 'transitions': []})
    else:
        c[0]['patterns'].insert(0, {'p': bad, 't': 77})
    return kind, c


def inputs_for(rng, cfgs, n=2):
    """Inputs over the alphabet of all the given configurations."""
    modes = [m for c in cfgs for m in c]
    return [gen.gen_input(rng, modes, maxlen=14) for _ in range(n)]


def text_term(s):
    return clist([str(ord(ch)) for ch in s])


def config_term(cfg):
    ms = []
    for m in cfg:
        ps = []
        for p in m['patterns']:
            la = 'None'
            if p.get('la'):
                la = '(Some (%s, %s))' % (cbool(p['la']['pos']), text_term(p['la']['p']))
            ps.append('(mk_pattern %s %d %s)' % (text_term(p['p']), p['t'], la))
        tr = clist(['(%d, %d)' % (t[0], t[1]) for t in m.get('transitions', [])])
        ms.append('(mk_mode %s %s %s)' % (text_term(m['name']), clist(ps), tr))
    return clist(ms)


COQ_HEADER = ('From Scnr Require Import Base Json Cache.\nOpen Scope N_scope.\n'
              'Set Printing Depth 1000000.\nSet Printing Width 1000000.\n')

# ----------------------------------------------------------------------------------------------
# histories

def gen_history(rng, idx):
    """A history: steps {'modes','inputs','role',...}; roles say how the step's configuration is
    related to the others (base / one-field variant kind / failing kind)."""
    length = rng.randint(5, 40)
    nbase = 1 if length < 10 else rng.randint(1, 3)
    pool = []                      # (role, base index, cfg)
    budget = max(3, int(length * 0.6))
    for b in range(nbase):
        base = gen_base(rng)
        pool.append(('base', b, base))
        kinds = rng.sample(KINDS, rng.randint(2, 5))
        for k in kinds:
            v = one_field_variant(rng, base, k)
            if v is not None:
                pool.append(('variant:' + k, b, v))
        for _ in range(rng.randint(1, 2)):
            fk, f = failing_variant(rng, base)
            pool.append(('failing:' + fk, b, f))
    # keep the bases and a sample of the rest
    bases = [p for p in pool if p[0] == 'base']
    rest = [p for p in pool if p[0] != 'base']
    rng.shuffle(rest)
    pool = bases + rest[:max(2, budget - len(bases))]
    # one failing and one variant at least
    if not any(p[0].startswith('failing') for p in pool):
        fk, f = failing_variant(rng, bases[0][2])
        pool.append(('failing:' + fk, 0, f))
    seq = list(range(len(pool)))
    rng.shuffle(seq)
    seq = seq[:length]
    while len(seq) < length:
        seq.insert(rng.randrange(len(seq) + 1), rng.randrange(len(pool)))
    # inputs per distinct configuration; variants and failing ones share the inputs of their base
    base_inputs = {}
    for role, b, cfg in pool:
        if role == 'base':
            fam = [c for r, bb, c in pool if bb == b and not r.startswith('failing')]
            base_inputs[b] = inputs_for(rng, fam, 3)
    steps = []
    for k in seq:
        role, b, cfg = pool[k]
        st = {'modes': cfg, 'inputs': base_inputs[b], 'role': role, 'family': b,
              'uncached_first': rng.random() < 0.3}
        if rng.random() < 0.4:
            st['poke'] = {'set_mode': rng.randrange(len(cfg)), 'scan': rng.choice(base_inputs[b]),
                          'iter_mode': rng.randrange(len(cfg))}
        steps.append(st)
    return {'name': 'h%04d' % idx, 'steps': steps}


def P(p, t, la=None):
    d = {'p': p, 't': t}
    if la:
        d['la'] = {'pos': la[0], 'p': la[1]}
    return d


def fixed_histories():
    """Hand-written histories: the configurations of the Coq example (ex_base and its one-field
    variants) in both orders, failing builds repeated and sharing a prefix with good ones."""
    def M(name, pats, tr):
        return {'name': name, 'patterns': pats, 'transitions': tr}
    base = [M('M', [P('a', 1, (True, 'b')), P('c', 2)], [[1, 0]])]
    variants = {
        'token_type': [M('M', [P('a', 3, (True, 'b')), P('c', 2)], [[1, 0]])],
        'pattern_order': [M('M', [P('c', 2), P('a', 1, (True, 'b'))], [[1, 0]])],
        'la_presence': [M('M', [P('a', 1), P('c', 2)], [[1, 0]])],
        'la_polarity': [M('M', [P('a', 1, (False, 'b')), P('c', 2)], [[1, 0]])],
        'la_pattern': [M('M', [P('a', 1, (True, 'c')), P('c', 2)], [[1, 0]])],
        'transition': [M('M', [P('a', 1, (True, 'b')), P('c', 2)], [[2, 0]])],
        'mode_name': [M('N', [P('a', 1, (True, 'b')), P('c', 2)], [[1, 0]])],
        'pattern_text': [M('M', [P('aa', 1, (True, 'b')), P('c', 2)], [[1, 0]])],
    }
    two = base + [M('S', [P('b+', 4), P('c', 2)], [[2, 0]])]
    two_tr = [M('M', [P('a', 1, (True, 'b')), P('c', 2)], [[1, 1]]), M('S', [P('b+', 4), P('c', 2)], [[2, 0]])]
    bad_tail = base + [M('BAD', [P('a', 0), P('a(', 1)], [])]
    bad_uns = base + [M('BAD', [P('^a', 0)], [])]
    bad_la = [M('M', [P('a', 1, (True, '[b')), P('c', 2)], [[1, 0]])]
    inputs = ['abacab', 'aabcc', 'cab ab']
    hs = []

    def hist(name, seq):
        steps = []
        for i, (role, cfg) in enumerate(seq):
            st = {'modes': cfg, 'inputs': inputs, 'role': role, 'family': 0, 'uncached_first': i % 3 == 2}
            if i % 2 == 0:
                st['poke'] = {'set_mode': len(cfg) - 1, 'scan': inputs[0], 'iter_mode': 0}
            steps.append(st)
        hs.append({'name': name, 'steps': steps})
    fwd = [('base', base)]
    for k, v in variants.items():
        fwd += [('variant:' + k, v), ('base', base)]
    hist('fixed_base_first', fwd)
    bwd = []
    for k, v in variants.items():
        bwd += [('variant:' + k, v)]
    bwd += [('base', base)] + [('variant:' + k, v) for k, v in variants.items()]
    hist('fixed_variants_first', bwd)
    hist('fixed_failing', [('failing:bad_extra_mode', bad_tail), ('base', base), ('failing:bad_extra_mode', bad_tail),
                           ('failing:bad_extra_mode', bad_uns), ('variant:mode_count', two), ('failing:bad_extra_mode', bad_uns),
                           ('failing:bad_lookahead', bad_la), ('base', base), ('failing:bad_lookahead', bad_la),
                           ('variant:transition', two_tr), ('variant:mode_count', two), ('failing:bad_extra_mode', bad_tail)])
    # every way a build can FAIL (syntax error / unsupported construct; in a pattern, in a positive and in a negative
    # lookahead, in the first and in a later mode), each followed by good builds (hit and miss) and repeated; and
    # configurations at the edge of the id types (token types >= 2^32 are truncated alike by both build paths: D9)
    fails = []
    for bad in ['a(', '[z-a]', '^x', '\\bfoo', 'a*?', '(?i)a', '\\p{Greek}', 'a$']:
        fails.append([M('M', [P('a', 1), P(bad, 2)], [])])
        fails.append([M('M', [P('a', 1, (True, bad)), P('c', 2)], [[1, 0]])])
        fails.append([M('M', [P('[0-9]+', 1, (False, bad))], [])])
        fails.append(base + [M('LATE', [P('q', 5, (True, bad))], [])])
    seq = [('base', base)]
    for k, f in enumerate(fails):
        seq += [('failing:bad_any', f), ('base', base) if k % 2 else ('variant:mode_count', two)]
        if k % 5 == 4:
            seq.append(('failing:bad_any', f))
    wide = [M('W', [P('a', 4294967296 + 6), P('b', 3)], [])]
    seq += [('base', wide), ('base', base), ('variant:mode_count', two), ('base', wide)]
    hist('fixed_every_failure', seq)
    # growing and shrinking pattern lists: every list is a strict prefix of the next one (a key that looks at a
    # bounded number of patterns, or an equality that stops at the shorter list, confuses them), in one mode and in
    # the second of two modes
    def prefix_cfg(n, second):
        pats = [P('k%d;' % i, i + 1) for i in range(n)]
        if second:
            return [M('A', [P('go', 30), P('k0;', 1)], [[30, 1]]), M('B', pats, [])]
        return [M('M', pats, [])]
    for second in (False, True):
        seq = []
        for n in list(range(1, 10)) + list(range(8, 0, -1)) + [5, 9, 4, 7, 3]:
            seq.append(('variant:pattern_count', prefix_cfg(n, second)))
        steps = []
        for i, (role, cfg) in enumerate(seq):
            steps.append({'modes': cfg, 'inputs': ['gok0;k1;k2;k3;k4;k5;k6;k7;k8;', 'k8;k4;gok3;k5;'], 'role': role, 'family': 0,
                          'uncached_first': i % 4 == 3})
        hs.append({'name': 'fixed_prefix_lists%d' % int(second), 'steps': steps})
    # a long history of many distinct tiny configurations with early ones rebuilt again and again
    # (a cache that forgets, evicts or re-uses entries must still be transparent)
    def tiny(i):
        return [M('M', [P('k%d;' % i, i % 60), P('[a-z]', 61)], [])]
    seq = []
    nlong = 300
    for i in range(nlong):
        seq.append(('base', tiny(i)))
        if i % 16 == 15:
            seq.append(('base', tiny(0)))
            seq.append(('base', tiny(i // 2)))
    for i in (0, 1, 2, 128, 255, 256, 257, 299):
        seq.append(('base', tiny(i)))
    steps = []
    for i, (role, cfg) in enumerate(seq):
        steps.append({'modes': cfg, 'inputs': ['k0;k1;x', 'k128;k257;k299;'], 'role': role, 'family': 0, 'uncached_first': False})
    hs.append({'name': 'fixed_many_configs', 'steps': steps})
    return hs


def harness_steps(h):
    return [{k: v for k, v in s.items() if k in ('modes', 'inputs', 'poke', 'uncached_first')} for s in h['steps']]


def run_histories(hists, rdir, tag='hist'):
    """One harness process per history (threads=1), several processes side by side."""
    stuck = [0]

    def one(arg):
        i, h = arg
        if stuck[0] >= 3:                # e.g. every build hangs: do not wait for each history
            return {'skipped': 'earlier histories crashed or timed out'}
        try:
            r = run_harness([{'kind': 'cache_history', 'steps': harness_steps(h)}], rdir, '%s_%05d' % (tag, i), threads=1, timeout=40)
            return r[0]
        except Exception as e:           # harness crash/timeout: reported by the judge
            stuck[0] += 1
            return {'harness_failure': str(e)}
    with ThreadPoolExecutor(max_workers=NCPU) as ex:
        return list(ex.map(one, list(enumerate(hists))))


def behaviour(o):
    """What a caller can observe without hooks."""
    return {k: o.get(k) for k in ('class', 'msg', 'current_mode', 'streams', 'observe_panic')}


def judge(h, res, compare_dumps=True):
    """Failures of one history: list of dicts (empty = cached builds indistinguishable from
    uncached ones). Second value: list of premise problems (uncached build not a function of the
    configuration), third: per-step statistics."""
    fails, premise = [], []
    if res.get('skipped'):
        return [], [], {}
    if res.get('harness_failure') or res.get('harness_panic') or 'steps' not in res:
        return [{'step': None, 'what': 'the harness process failed on this history', 'detail': res}], [], {}
    steps = res['steps']
    for i, (s, r) in enumerate(zip(h['steps'], steps)):
        if 'modes_panic' in r:
            premise.append({'step': i, 'what': 'ScannerMode::new panicked on a generated configuration', 'detail': r['modes_panic']})
            continue
        c, u, u2 = r['cached'], r['uncached'], r['uncached2']
        if behaviour(u) != behaviour(u2):
            premise.append({'step': i, 'what': 'two uncached builds of one configuration behave differently', 'uncached': u, 'uncached2': u2})
        for side, o in (('cached', c), ('uncached', u)):
            if o.get('class') == 'panic' or 'observe_panic' in o:
                fails.append({'step': i, 'what': '%s build panicked' % side, 'detail': {k: o.get(k) for k in ('class', 'msg', 'observe_panic')}})
        if c.get('class') != u.get('class'):
            fails.append({'step': i, 'what': 'build outcome differs: cached %s, uncached %s' % (c.get('class'), u.get('class')),
                          'cached_msg': c.get('msg'), 'uncached_msg': u.get('msg')})
            continue
        if c.get('msg') != u.get('msg'):
            fails.append({'step': i, 'what': 'error message differs', 'cached_msg': c.get('msg'), 'uncached_msg': u.get('msg')})
        if c.get('class') != 'ok':
            continue
        if c.get('current_mode') != 0:
            fails.append({'step': i, 'what': 'scanner returned by the cache starts in mode %s, not 0' % c.get('current_mode')})
        if c.get('streams') != u.get('streams'):
            fails.append({'step': i, 'what': 'token streams of the cached scanner differ from the uncached one',
                          'inputs': s['inputs'], 'cached': c.get('streams'), 'uncached': u.get('streams')})
        if compare_dumps and u.get('dump') == u2.get('dump') and c.get('dump') != u.get('dump'):
            fails.append({'step': i, 'what': 'compiled automata / names / transitions of the cached scanner differ from the uncached build',
                          'cached_dump': c.get('dump'), 'uncached_dump': u.get('dump')})
        if 'poke_panic' in r:
            fails.append({'step': i, 'what': 'using the returned scanner panicked', 'detail': r['poke_panic']})
    for f in res.get('final', []):
        i = f['step']
        if i < len(steps) and 'cached' in steps[i] and f['streams'] != steps[i]['cached'].get('streams'):
            fails.append({'step': i, 'what': 'a scanner handed out earlier behaves differently after later builds',
                          'then': steps[i]['cached'].get('streams'), 'now': f['streams']})
    return fails, premise, {}


def nondeterministic_dumps(results):
    n = 0
    for res in results:
        for r in res.get('steps', []) if isinstance(res, dict) else []:
            if 'uncached' in r and r['uncached'].get('class') == 'ok' and r['uncached'].get('dump') != r['uncached2'].get('dump'):
                n += 1
    return n


def shrink(h, rdir, still_fails, budget=40):
    """Removes steps while the failure persists (chunks, then single steps)."""
    steps = list(h['steps'])
    n = [0]

    def fails(cand):
        if not cand or n[0] >= budget:
            return False
        n[0] += 1
        hh = {'name': h['name'], 'steps': cand}
        res = run_histories([hh], rdir, 'shrink%03d' % n[0])[0]
        return still_fails(hh, res)
    chunk = max(1, len(steps) // 2)
    while chunk >= 1 and n[0] < budget:
        i = 0
        progressed = False
        while i < len(steps) and n[0] < budget:
            cand = steps[:i] + steps[i + chunk:]
            if fails(cand):
                steps = cand
                progressed = True
            else:
                i += chunk
        if chunk == 1 and not progressed:
            break
        chunk = chunk // 2 if chunk > 1 else (1 if progressed else 0)
    return {'name': h['name'] + '_shrunk', 'steps': steps}, n[0]


class OutcomeIds:
    """Numbers the distinct observable outcomes of successful builds."""
    def __init__(self):
        self.ids = {}

    def get(self, o, with_dump=True):
        d = behaviour(o)
        if with_dump:
            d['dump'] = o.get('dump')
        k = json.dumps(d, sort_keys=True, ensure_ascii=False)
        if k not in self.ids:
            self.ids[k] = len(self.ids)
        return self.ids[k]


def model_files(hists, results, rdir, with_dump, per_file=25):
    """Coq files evaluating the cache model on the histories: `compile` = the table built from the
    UNCACHED outcomes. Returns (paths, meta) with meta[file] = [(history index, observed cached
    ids, functional?)]."""
    paths, metas = [], []
    cur, meta = [], []

    def flush():
        if cur:
            p = os.path.join(rdir, 'model_%03d.v' % len(paths))
            with open(p, 'w') as f:
                f.write(COQ_HEADER + ''.join(cur))
            paths.append(p)
            metas.append(list(meta))
            cur.clear()
            meta.clear()
    for hi, (h, res) in enumerate(zip(hists, results)):
        if not isinstance(res, dict) or 'steps' not in res or any('cached' not in r for r in res['steps']):
            continue
        ids = OutcomeIds()
        names, table, functional = {}, {}, True
        seq, observed = [], []
        for s, r in zip(h['steps'], res['steps']):
            k = key_of(s['modes'])
            if k not in names:
                names[k] = 'h%d_k%d' % (hi, len(names))
                cur.append('Definition %s : config := %s.\n' % (names[k], config_term(s['modes'])))
            u = r['uncached']
            uo = ids.get(u, with_dump) if u.get('class') == 'ok' else None
            if k in table and table[k] != uo:
                functional = False
            table.setdefault(k, uo)
            seq.append(names[k])
            c = r['cached']
            observed.append(0 if c.get('class') != 'ok' else ids.get(c, with_dump) + 1)
        tbl = clist(['(%s, %s)' % (names[k], 'None' if v is None else '(Some %d)' % v) for k, v in table.items()])
        cur.append('Eval vm_compute in (run_history %s %s).\n' % (tbl, clist(seq)))
        meta.append((hi, observed, functional))
        if len(meta) >= per_file:
            flush()
    flush()
    return paths, metas


class C13:
    ID = 'C13'
    LEVEL = 'proof'
    COQ_TARGETS = ['Properties/C13.vo']
    THEOREMS = [('Properties.C13', ['C13_transparent', 'C13_after_any_history', 'C13_failing_build_unchanged',
                                    'C13_failing_build_nonvacuous', 'C13_failing_builds_leave_no_trace',
                                    'C13_hit_after_build', 'C13_hit_nonvacuous', 'C13_key_is_whole_config',
                                    'C13_near_identical_distinct', 'C13_key_must_be_whole', 'C13_source_premises'])]
    ASSUMPTIONS = ['the uncached build is a function of the configuration (Section variable `compile`); validated on every step of '
                   'every history by comparing two uncached builds of the same modes with each other',
                   'the cache key is the whole Vec<ScannerMode> with DERIVED PartialEq/Eq/Hash on ScannerMode, Pattern, Lookahead whose '
                   'fields are exactly name/patterns/transitions, pattern/token_type/lookahead, is_positive/pattern: read from the '
                   'source on every run (Gen/CacheFacts.v, obligation C13_source_premises)',
                   'a hash map is modelled as an association list and the clone handed out as the stored value; that the clone starts '
                   'in mode 0 and shares no mutable state with the entry is observed (histories), not proved',
                   'the history is executed sequentially (C14 treats concurrent builds)']
    TRUSTED_EXTRA = ['regex-based source translator lib/prop_c13.py: derives, field names, cache key type -> coq/Gen/CacheFacts.v']
    RULE = ('a history = 5..40 builds in ONE process (one harness process per history): 1-3 generated base configurations (1-3 modes, '
            'lookaheads, transitions), for each 2-5 variants with exactly one field changed (token type, pattern order, lookahead '
            'presence/polarity/pattern, transition, mode name, pattern text, mode order, mode count) and 1-2 failing variants (syntax '
            'error or unsupported feature in a pattern, in a lookahead, in an extra mode after the good modes, in front), every pool '
            'member built at least once when the length allows and repeated at random; three hand-written histories first. Each step '
            'builds through the cache and twice uncached and compares outcome class, message, initial mode, canonical automaton dump '
            '(edges sorted per state) and token streams on 3 inputs; 40% of the returned scanners get set_mode and a scan; all returned '
            'scanners are re-scanned at the end. The Coq model runs the same history with compile := table of the uncached outcomes. '
            'non-trivial = distinct history with at least one cache hit on a successful build, one failing build and one '
            '(base, one-field variant) pair both built')
    N = {'quick': 100, 'thorough': 2000}

    def regen(self, out):
        regen_facts(out, with_lock=False)

    # -- exploration ---------------------------------------------------------------------------
    def explore(self, rng, tier, rdir, out, replay=None):
        if replay:
            payload = json.load(open(replay))
            hists = [payload['history']] if 'history' in payload else []
        else:
            hists = fixed_histories() + [gen_history(rng, i) for i in range(self.N.get(tier, 100))]
        results = run_histories(hists, rdir)
        nondet = nondeterministic_dumps(results)
        compare_dumps = nondet == 0
        if nondet:
            out.notes.append('%d uncached compilations of identical modes produced different (canonicalised) dumps: automaton dumps '
                             'are not compared in this run, only behaviour' % nondet)
        nviol = 0
        premise_reported = 0
        for hi, (h, res) in enumerate(zip(hists, results)):
            fails, premise, _ = judge(h, res, compare_dumps)
            for p in premise[:1]:
                if premise_reported < 3:
                    premise_reported += 1
                    out.broken.append({'what': 'premise of the cache model: ' + p['what'],
                                       'detail': {'history': h, 'problem': p}})
            if fails and nviol < 3:
                nviol += 1
                small, trials = h, 0
                if not replay and fails[0].get('step') is not None:
                    small, trials = shrink(h, rdir, lambda hh, rr: bool(judge(hh, rr, compare_dumps)[0]))
                    sres = run_histories([small], rdir, 'shrunk%d' % hi)[0]
                    sfails = judge(small, sres, compare_dumps)[0]
                    if not sfails:                       # flaky shrink result: keep the original
                        small, sfails = h, fails
                else:
                    sfails = fails
                out.violations.append({'property': 'C13',
                                       'what': ('a scanner built through the cache differs from the uncached build: ' if sfails[0].get('step') is not None
                                                else 'history could not be completed (a build that never returns or kills the process?): ') + sfails[0]['what'],
                                       'history': small, 'failures': sfails[:5], 'original_history': h['name'],
                                       'original_steps': len(h['steps']), 'shrink_trials': trials})
            elif fails:
                nviol += 1
        # the Coq model on the same histories
        paths, metas = model_files(hists, results, rdir, compare_dumps)
        outs = coq_eval_files(paths)
        hits = misses = 0
        model_agree = 0
        hit_by_history = {}
        for p, meta, (rc, o) in zip(paths, metas, outs):
            if rc != 0:
                out.broken.append({'what': 'coqc failed on generated model file %s' % p, 'detail': o[-2000:]})
                continue
            blocks = split_evals(o)
            for (hi, observed, functional), b in zip(meta, blocks):
                val = parse_coq_value(b)
                pred = [v[0] for v in val]
                hs = [v[1] for v in val]
                hit_by_history[hi] = hs
                hits += sum(1 for x in hs if x)
                misses += sum(1 for x in hs if not x)
                if pred == observed and functional:
                    model_agree += 1
                elif not functional:
                    out.broken.append({'what': 'premise of the cache model: the uncached outcome is not a function of the configuration',
                                       'detail': {'history': hists[hi]}})
                else:
                    first = next(i for i, (a, b_) in enumerate(zip(pred, observed)) if a != b_)
                    if not any(v.get('original_history') == hists[hi]['name'] for v in out.violations) and nviol < 3:
                        out.violations.append({'property': 'C13', 'what': 'the cache model predicts outcome id %d for step %d, the cached build gave %d'
                                               % (pred[first], first, observed[first]), 'history': hists[hi],
                                               'model': pred, 'observed': observed, 'original_history': hists[hi]['name']})
        return self.statistics(hists, results, hit_by_history, hits, misses, model_agree, nondet)

    def statistics(self, hists, results, hit_by_history, hits, misses, model_agree, nondet):
        builds = failing = ok_hits = 0
        pair_kinds, fail_kinds, err_classes = {}, {}, {}
        seen, nontrivial = set(), 0
        lens = []
        for hi, (h, res) in enumerate(zip(hists, results)):
            steps = res.get('steps', []) if isinstance(res, dict) else []
            lens.append(len(h['steps']))
            builds += len(h['steps'])
            has_fail = has_pair = has_hit = False
            fam_roles = {}
            for i, (s, r) in enumerate(zip(h['steps'], steps)):
                u = r.get('uncached', {})
                if u.get('class') not in (None, 'ok'):
                    failing += 1
                    has_fail = True
                    err_classes[u['class']] = err_classes.get(u['class'], 0) + 1
                    if s['role'].startswith('failing:'):
                        fail_kinds[s['role'][8:]] = fail_kinds.get(s['role'][8:], 0) + 1
                hs = hit_by_history.get(hi, [])
                if i < len(hs) and hs[i] and u.get('class') == 'ok':
                    ok_hits += 1
                    has_hit = True
                fam_roles.setdefault(s['family'], set()).add(s['role'])
            for fam, roles in fam_roles.items():
                if 'base' in roles:
                    for r in roles:
                        if r.startswith('variant:'):
                            pair_kinds[r[8:]] = pair_kinds.get(r[8:], 0) + 1
                            has_pair = True
            k = canon_hash([s['modes'] for s in h['steps']])
            if k not in seen:
                seen.add(k)
                if has_fail and has_pair and has_hit:
                    nontrivial += 1
        samples = []
        for h in hists[3:5]:
            samples.append({'name': h['name'], 'steps': [{'role': s['role'], 'modes': s['modes']} for s in h['steps'][:6]],
                            'total_steps': len(h['steps']), 'inputs': h['steps'][0]['inputs']})
        return {'evaluations': builds, 'distinct_nontrivial': nontrivial, 'rule': self.RULE,
                'samples': samples or [{'note': 'replay'}],
                'histories': len(hists), 'builds_through_cache': builds, 'uncached_builds': 2 * builds,
                'cache_hits_model': hits, 'cache_misses_model': misses, 'hits_on_successful_builds': ok_hits,
                'failing_builds': failing, 'failing_by_error_class': err_classes, 'failing_by_kind': fail_kinds,
                'near_identical_pairs_by_field': pair_kinds, 'history_length_hist': hist_(lens),
                'model_histories_agreeing': model_agree, 'nondeterministic_uncached_dumps': nondet,
                'processes': len(hists)}


def hist_(xs):
    h = {}
    for x in xs:
        k = str(x if x < 10 else (x // 10) * 10) + ('' if x < 10 else '+')
        h[k] = h.get(k, 0) + 1
    return h


PROPS = {'C13': C13}
