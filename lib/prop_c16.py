"""C16 — scanner configurations and matches survive serialization unchanged.

Proof: Properties/C16.v (round trips of the modelled serde_json layout, Json.v / JsonProofs.v).
Correspondence (this file + harness/src/c16.rs): the model printer/reader against the real serde
derives of scnr through serde_json, on generated configurations, texts and values:

  roundtrip  serde_json::to_string(cfg)  ==  print_config cfg            (character for character)
             parse_config_strict(serde text) == Some cfg                 (model reads the REAL text)
             from_str(to_string(cfg)) == cfg in Rust, second trip reproduces the text
             scanners built from cfg and from the re-read cfg: same build outcome, same compiled
             dump, same token streams
  parse      from_str::<Vec<ScannerMode>>(text) accept/reject and value == parse_config_strict text
             on whitespace / field-order / null-lookahead / unknown-field / escape variants, the
             README and repository JSON files verbatim, and malformed variants
  values     to_string of Span, Position, Match, MatchExt == print_span, ... ; Rust round trips;
             variant and malformed texts against parse_span, ...
"""
import glob, json, math, os, re
from concurrent.futures import ThreadPoolExecutor
from common import *
import corpus, gen

U32MAX = 2 ** 32 - 1
U64MAX = 2 ** 64 - 1

COQ_HEADER = ('From Scnr Require Import Base Json.\n'
              'From Coq Require Import String List.\nImport ListNotations.\n'
              'Open Scope N_scope.\nSet Printing Depth 10000000.\nSet Printing Width 1000000.\n'
              'Definition enc_la (l:option lookahead) : list (bool * list N) :=\n'
              '  match l with None => [] | Some l => [(la_positive l, la_pattern l)] end.\n'
              'Definition enc_pat (p:pattern) := (p_pattern p, p_token p, enc_la (p_lookahead p)).\n'
              'Definition enc_mode (m:mode) := (m_name m, map enc_pat (m_patterns m), m_transitions m).\n'
              'Definition enc_cfg (o:option config) := match o with None => [] | Some c => [map enc_mode c] end.\n'
              'Definition enc_span (o:option span) := match o with None => [] | Some s => [[s_start s; s_end s]] end.\n'
              'Definition enc_pos (o:option position) := match o with None => [] | Some p => [[line p; column p]] end.\n'
              'Definition enc_match (o:option mtch) := match o with None => [] | Some m => [[mt_token m; s_start (mt_span m); s_end (mt_span m)]] end.\n'
              'Definition enc_match_ext (o:option mtch_ext) := match o with None => [] | Some m =>\n'
              '  [[me_token m; s_start (me_span m); s_end (me_span m); line (me_start m); column (me_start m); line (me_end m); column (me_end m)]] end.\n'
              # equality of configurations, decided inside Coq (the bulk of the round-trip cases prints three booleans only;
              # a failing case is evaluated again with the full values printed)
              'Fixpoint list_eqb {A} (f:A->A->bool) (a b:list A) : bool :=\n'
              '  match a, b with [], [] => true | x::a1, y::b1 => f x y && list_eqb f a1 b1 | _, _ => false end.\n'
              'Definition la_eqb (a b:option lookahead) : bool := match a, b with None, None => true\n'
              '  | Some x, Some y => Bool.eqb (la_positive x) (la_positive y) && text_eqb (la_pattern x) (la_pattern y) | _, _ => false end.\n'
              'Definition pat_eqb (p q:pattern) : bool := text_eqb (p_pattern p) (p_pattern q) && (p_token p =? p_token q) && la_eqb (p_lookahead p) (p_lookahead q).\n'
              'Definition tr_eqb (a b:N*N) : bool := (fst a =? fst b) && (snd a =? snd b).\n'
              'Definition mode_eqb (m n:mode) : bool := text_eqb (m_name m) (m_name n) && list_eqb pat_eqb (m_patterns m) (m_patterns n)\n'
              '  && list_eqb tr_eqb (m_transitions m) (m_transitions n).\n'
              'Definition ocfg_eqb (o:option config) (c:config) : bool := match o with Some d => list_eqb mode_eqb d c | None => false end.\n'
              'Definition rt2 (c:config) (t:list N) := [text_eqb (print_config c) t; ocfg_eqb (parse_config_strict t) c].\n'
              'Definition rt3 (c:config) (t p:list N) := rt2 c t ++ [ocfg_eqb (parse_config_strict p) c].\n')


# ----------------------------------------------------------------------------------------------
# strings

CLASSES = ['quote', 'backslash', 'c0_short', 'c0_hex', 'del', 'slash', 'ascii', 'b2', 'b3', 'b4']
_SPECIAL3 = [0x0800, 0x2028, 0x2029, 0xD7FF, 0xE000, 0xFEFF, 0xFFFD, 0xFFFE, 0xFFFF, 0x20AC]
_SPECIAL4 = [0x10000, 0x1F600, 0x10FFFF, 0xFFFFF, 0x100000]


def char_class(cp):
    if cp == 34:
        return 'quote'
    if cp == 92:
        return 'backslash'
    if cp in (8, 9, 10, 12, 13):
        return 'c0_short'
    if cp < 32:
        return 'c0_hex'
    if cp == 127:
        return 'del'
    if cp == 47:
        return 'slash'
    if cp < 128:
        return 'ascii'
    if cp < 0x800:
        return 'b2'
    if cp < 0x10000:
        return 'b3'
    return 'b4'


def gen_char(rng):
    k = rng.choice(['quote', 'backslash', 'c0_short', 'c0_hex', 'del', 'slash', 'ascii', 'ascii', 'ascii', 'b2', 'b3', 'b4'])
    if k == 'quote':
        return 34
    if k == 'backslash':
        return 92
    if k == 'c0_short':
        return rng.choice([8, 9, 10, 12, 13])
    if k == 'c0_hex':
        return rng.choice([c for c in range(32) if c not in (8, 9, 10, 12, 13)])
    if k == 'del':
        return 127
    if k == 'slash':
        return 47
    if k == 'ascii':
        return rng.choice([c for c in range(32, 127) if c not in (34, 92, 47)])
    if k == 'b2':
        return rng.choice([0x80, 0x9F, 0xA0, 0xE9, 0x7FF]) if rng.random() < 0.4 else rng.randint(0x80, 0x7FF)
    if k == 'b3':
        if rng.random() < 0.4:
            return rng.choice(_SPECIAL3)
        while True:
            c = rng.randint(0x800, 0xFFFF)
            if not 0xD800 <= c <= 0xDFFF:
                return c
    return rng.choice(_SPECIAL4) if rng.random() < 0.4 else rng.randint(0x10000, 0x10FFFF)


def gen_string(rng, maxlen=8):
    n = rng.choice([0, 0, 1, 1, 2, 2, 3, 4, 5, maxlen])
    return ''.join(chr(gen_char(rng)) for _ in range(n))


def re_escape(s):
    """Pattern text matching exactly the string s (quotes, controls and non-ASCII are literals)."""
    return ''.join('\\' + c if c in gen.META else c for c in s)


def gen_token(rng, wide=True):
    r = rng.random()
    if r < 0.15:
        return 0
    if r < 0.7 or not wide:
        return rng.randint(1, 40)
    return rng.choice([U32MAX, U32MAX - 1, 2 ** 32, 2 ** 63, U64MAX, U64MAX - 1, 65535, 65536])


def gen_transitions(rng, nmodes, wild):
    """Strictly increasing u32 token types (ScannerMode::new asserts it in debug builds)."""
    k = rng.choice([0, 0, 1, 1, 2, 3])
    pool = list(range(0, 20)) + ([U32MAX, U32MAX - 1, 65536] if wild else [])
    toks = sorted(rng.sample(pool, k))
    out = []
    for t in toks:
        if wild and rng.random() < 0.3:
            m = rng.choice([U64MAX, 2 ** 32, 7, nmodes])
        else:
            m = rng.randrange(max(nmodes, 1))
        out.append([t, m])
    return out


def gen_wild_config(rng):
    """Arbitrary strings everywhere; most of these do not build (the text/equality part applies)."""
    nm = rng.choice([0, 1, 1, 1, 2, 2, 3])
    modes = []
    for _ in range(nm):
        pats = []
        for _ in range(rng.choice([0, 1, 1, 2, 3, 4])):
            p = {'p': gen_string(rng), 't': gen_token(rng)}
            r = rng.random()
            if r < 0.4:
                p['la'] = {'pos': rng.random() < 0.5, 'p': gen_string(rng)}
            pats.append(p)
        modes.append({'name': gen_string(rng), 'patterns': pats, 'transitions': gen_transitions(rng, nm, True)})
    inputs = [gen_string(rng, 10) for _ in range(2)]
    return {'kind': 'wild', 'modes': modes, 'inputs': inputs}


def gen_literal_config(rng):
    """Patterns are escaped literals made of exotic characters: they build, and the inputs are made of
    the same literals, so the token streams are non-empty."""
    nm = rng.choice([1, 1, 2, 3])
    modes, words = [], []
    tok = 0
    for _ in range(nm):
        pats = []
        for _ in range(rng.randint(1, 4)):
            w = ''
            while not w:
                w = gen_string(rng, 5)
            words.append(w)
            tok += rng.randint(1, 3)
            p = {'p': re_escape(w), 't': tok if rng.random() < 0.9 else rng.choice([U32MAX, 70000 + tok])}
            if rng.random() < 0.35:
                l = ''
                while not l:
                    l = gen_string(rng, 3)
                words.append(l)
                p['la'] = {'pos': rng.random() < 0.5, 'p': re_escape(l)}
            pats.append(p)
        modes.append({'name': gen_string(rng), 'patterns': pats, 'transitions': []})
    for m in modes:
        toks = sorted(set(p['t'] for p in m['patterns'] if p['t'] <= U32MAX))
        k = rng.randint(0, min(2, len(toks)))
        m['transitions'] = [[t, rng.randrange(nm)] for t in sorted(rng.sample(toks, k))]
    inputs = []
    for _ in range(2):
        inputs.append(''.join(rng.choice(words) if rng.random() < 0.85 else chr(gen_char(rng)) for _ in range(rng.randint(0, 8))))
    return {'kind': 'literal', 'modes': modes, 'inputs': inputs}


def gen_grammar_config(rng):
    nm = rng.randint(1, 3)
    modes = gen.gen_config(rng, nmodes=nm, la_prob=0.3, trans=True, depth=rng.randint(1, 3), max_pat=4)
    for m in modes:
        if rng.random() < 0.6:
            m['name'] = gen_string(rng)
    return {'kind': 'grammar', 'modes': modes, 'inputs': [gen.gen_input(rng, modes) for _ in range(2)]}


EDGE_CONFIGS = [
    [],
    [{'name': '', 'patterns': [], 'transitions': []}],
    [{'name': '', 'patterns': [], 'transitions': []}, {'name': '', 'patterns': [], 'transitions': []}],
    [{'name': 'M', 'patterns': [{'p': '', 't': 0}], 'transitions': []}],
    [{'name': 'M', 'patterns': [{'p': '', 't': 0, 'la': {'pos': False, 'p': ''}}], 'transitions': [[0, 0]]}],
    [{'name': '"', 'patterns': [{'p': '"', 't': 1}, {'p': '\\\\', 't': 2}, {'p': '\x00', 't': 3}, {'p': '\x7f', 't': 4},
                                 {'p': '\x1f', 't': 5}, {'p': 'é', 't': 6}, {'p': '€', 't': 7}, {'p': '\U0001F600', 't': 8}],
      'transitions': [[1, 0], [8, 0]]}],
    [{'name': '\\', 'patterns': [{'p': 'a', 't': U64MAX}, {'p': 'b', 't': U32MAX, 'la': {'pos': True, 'p': 'c'}}],
      'transitions': [[0, 0], [U32MAX, U64MAX]]}],
    [{'name': '\b\f\n\r\t', 'patterns': [{'p': '\\n', 't': 1}, {'p': '\n', 't': 2}], 'transitions': []}],
    [{'name': '</script>  ', 'patterns': [{'p': '/', 't': 1, 'la': {'pos': False, 'p': '/'}}], 'transitions': []}],
]
EDGE_INPUTS = ['', '"\\\x00\x7f\x1fé€\U0001F600', 'ab c', '\n\n', '//']


# ----------------------------------------------------------------------------------------------
# Coq terms and values

def codes_term(s):
    """The text as a Coq term of type list N (code points). Runs of printable ASCII are written as
    `codes "..."` (Json.codes, the function the examples of Properties/C16.v use): coqc reads a
    string literal several times faster than a list of numerals."""
    segs, run, nums = [], [], []

    def flush_run():
        if len(run) >= 6:
            if nums:
                segs.append(clist([str(x) for x in nums]))
                del nums[:]
            segs.append('codes "%s"' % ''.join(run).replace('"', '""'))
        else:
            nums.extend(ord(c) for c in run)
        del run[:]
    for c in s:
        if 32 <= ord(c) < 127:
            run.append(c)
        else:
            flush_run()
            nums.append(ord(c))
    flush_run()
    if nums or not segs:
        segs.append(clist([str(x) for x in nums]))
    if len(segs) == 1 and segs[0].startswith('['):
        return segs[0]
    return '(' + ' ++ '.join(segs) + ')'


def cps_term(cps):
    return clist([str(c) for c in cps])


def cfg_term(modes):
    ms = []
    for m in modes:
        ps = []
        for p in m['patterns']:
            la = 'None'
            if p.get('la'):
                la = '(Some (%s, %s))' % (cbool(p['la']['pos']), codes_term(p['la']['p']))
            ps.append('(mk_pattern %s %d %s)' % (codes_term(p['p']), p['t'], la))
        tr = clist(['(%d, %d)' % (t[0], t[1]) for t in m.get('transitions', [])])
        ms.append('(mk_mode %s %s %s)' % (codes_term(m['name']), clist(ps), tr))
    return clist(ms)


def cfg_value(modes):
    """The value enc_cfg prints for Some modes, as parse_coq_value returns it."""
    out = []
    for m in modes:
        ps = []
        for p in m['patterns']:
            la = [(bool(p['la']['pos']), [ord(c) for c in p['la']['p']])] if p.get('la') else []
            ps.append(([ord(c) for c in p['p']], p['t'], la))
        out.append(([ord(c) for c in m['name']], ps, [(t[0], t[1]) for t in m.get('transitions', [])]))
    return [out]


def modes_of_value(v):
    """Inverse of cfg_value (for replay files): [] -> None."""
    if not v:
        return None
    out = []
    for name, ps, tr in v[0]:
        pats = []
        for p, t, la in ps:
            q = {'p': ''.join(map(chr, p)), 't': t}
            if la:
                q['la'] = {'pos': la[0][0], 'p': ''.join(map(chr, la[0][1]))}
            pats.append(q)
        out.append({'name': ''.join(map(chr, name)), 'patterns': pats, 'transitions': [list(x) for x in tr]})
    return out


def norm_modes(modes):
    """Job format with absent lookaheads removed (for comparisons between job-format values)."""
    out = []
    for m in modes:
        pats = []
        for p in m['patterns']:
            q = {'p': p['p'], 't': p['t']}
            if p.get('la'):
                q['la'] = {'pos': bool(p['la']['pos']), 'p': p['la']['p']}
            pats.append(q)
        out.append({'name': m['name'], 'patterns': pats, 'transitions': [list(t) for t in m.get('transitions', [])]})
    return out


def cps(s):
    return [ord(c) for c in s]


def coq_eval_terms(terms, rdir, prefix, per_file):
    """Evaluates each term with its own `Eval vm_compute` (sharded); returns (values, failures).
    values[i] is None where the shard failed."""
    per_file = max(12, min(per_file, int(math.ceil(len(terms) / float(NCPU)))))
    shards = [terms[k:k + per_file] for k in range(0, len(terms), per_file)]
    paths = []
    for n, sh_ in enumerate(shards):
        p = os.path.join(rdir, '%s_%03d.v' % (prefix, n))
        with open(p, 'w') as f:
            f.write(COQ_HEADER)
            for t in sh_:
                f.write('Eval vm_compute in %s.\n' % t)
        paths.append(p)
    outs = coq_eval_files(paths, timeout=1200)
    vals, fails = [], []
    for sh_, (rc, o), p in zip(shards, outs, paths):
        blocks = split_evals(o) if rc == 0 else []
        if rc != 0 or len(blocks) != len(sh_):
            fails.append((p, o[-2000:]))
            vals += [None] * len(sh_)
            continue
        for b in blocks:
            vals.append(parse_coq_value(b))
    return vals, fails


# ----------------------------------------------------------------------------------------------
# JSON text variants (written by this file, independent of serde and of the Coq printer)

WS = [' ', '\t', '\n', '\r']


class VariantWriter:
    """Writes a configuration in the serde layout with random insignificant whitespace, field
    order, null lookaheads, unknown fields and string escapes."""

    def __init__(self, rng, ws=0.3, escapes=0.3, extras=0.25, permute=True, feats=None):
        self.rng = rng
        self.ws_p = ws
        self.esc_p = escapes
        self.extra_p = extras
        self.permute = permute
        self.feats = feats if feats is not None else {}

    def feat(self, k):
        self.feats[k] = self.feats.get(k, 0) + 1

    def ws(self):
        if self.rng.random() < self.ws_p:
            self.feat('whitespace')
            return ''.join(self.rng.choice(WS) for _ in range(self.rng.randint(1, 3)))
        return ''

    def string(self, s):
        out = ['"']
        for ch in s:
            c = ord(ch)
            must = c < 32 or c in (34, 92)
            if not must and self.rng.random() >= self.esc_p:
                out.append(ch)
                continue
            short = {34: '\\"', 92: '\\\\', 47: '\\/', 8: '\\b', 12: '\\f', 10: '\\n', 13: '\\r', 9: '\\t'}
            if c in short and self.rng.random() < 0.6:
                out.append(short[c])
                if c == 47:
                    self.feat('escaped_slash')
                continue
            fmt = '%04x' if self.rng.random() < 0.5 else '%04X'
            if c >= 0x10000:
                v = c - 0x10000
                out.append('\\u' + fmt % (0xD800 + (v >> 10)) + '\\u' + fmt % (0xDC00 + (v & 0x3FF)))
                self.feat('surrogate_pair_escape')
            else:
                out.append('\\u' + fmt % c)
                self.feat('u_escape')
        out.append('"')
        return ''.join(out)

    def key(self, k):
        if self.rng.random() < 0.05:
            self.feat('escaped_key')
            i = self.rng.randrange(len(k))
            return '"' + k[:i] + '\\u%04x' % ord(k[i]) + k[i + 1:] + '"'
        return '"' + k + '"'

    def extra_value(self, depth=0):
        r = self.rng.random()
        if r < 0.15:
            return 'null'
        if r < 0.3:
            return self.rng.choice(['true', 'false'])
        if r < 0.5:
            return str(self.rng.choice([0, 7, U32MAX + 1, U64MAX, U64MAX + 1, 10 ** 30]))
        if r < 0.7 or depth >= 3:
            return self.string(gen_string(self.rng, 4))
        if r < 0.85:
            return '[' + self.ws() + ','.join(self.ws() + self.extra_value(depth + 1) + self.ws() for _ in range(self.rng.randint(0, 3))) + ']' \
                if self.rng.random() < 0.8 else '[' + self.ws() + ']'
        n = self.rng.randint(0, 2)
        if n == 0:
            return '{' + self.ws() + '}'
        return '{' + ','.join(self.ws() + self.string(self.rng.choice(['x', 'name', 'pattern', ''])) + self.ws() + ':' + self.ws()
                              + self.extra_value(depth + 1) + self.ws() for _ in range(n)) + '}'

    def obj(self, fields):
        """fields: [(key, rendered value)]"""
        fields = list(fields)
        known = set(k for k, _ in fields)
        while self.rng.random() < self.extra_p:
            k = self.rng.choice(['extra', 'Name', 'id', 'token', 'xé', 'lookaheads', ''])
            if k in known:
                continue
            self.feat('unknown_field')
            fields.insert(self.rng.randint(0, len(fields)), (k, self.extra_value()))
        if self.permute and len(fields) > 1 and self.rng.random() < 0.6:
            self.rng.shuffle(fields)
            self.feat('field_order')
        body = ','.join(self.ws() + (self.key(k) if k in known else self.string(k)) + self.ws() + ':' + self.ws() + v + self.ws()
                        for k, v in fields)
        return '{' + (body if fields else self.ws()) + '}'

    def arr(self, items):
        if not items:
            return '[' + self.ws() + ']'
        return '[' + ','.join(self.ws() + i + self.ws() for i in items) + ']'

    def pattern(self, p):
        f = [('pattern', self.string(p['p'])), ('token_type', str(p['t']))]
        if p.get('la'):
            f.append(('lookahead', self.obj([('is_positive', 'true' if p['la']['pos'] else 'false'),
                                             ('pattern', self.string(p['la']['p']))])))
        elif self.rng.random() < 0.3:
            self.feat('null_lookahead')
            f.append(('lookahead', 'null'))
        return self.obj(f)

    def mode(self, m):
        return self.obj([('name', self.string(m['name'])),
                         ('patterns', self.arr([self.pattern(p) for p in m['patterns']])),
                         ('transitions', self.arr([self.arr([str(t[0]), str(t[1])]) for t in m.get('transitions', [])]))])

    def config(self, modes):
        return self.ws() + self.arr([self.mode(m) for m in modes]) + self.ws()


def plain_text(modes):
    """Compact text in declaration order without any variation (base of the malformed variants)."""
    class _R:
        def random(self):
            return 1.0
    w = VariantWriter(_R(), ws=0.0, escapes=0.0, extras=0.0, permute=False)
    return w.config(modes)


def sample_base(rng):
    """A small configuration that has every kind of field at least once."""
    return [{'name': rng.choice(['N', 'INITIAL', 'a"b']),
             'patterns': [{'p': rng.choice(['a', 'x\\\\y', 'é']), 't': rng.randint(0, 9)},
                          {'p': 'b', 't': rng.randint(10, 19), 'la': {'pos': rng.random() < 0.5, 'p': 'c'}}],
             'transitions': [[rng.randint(0, 5), 0], [rng.randint(6, 9), 1]]},
            {'name': 'M2', 'patterns': [], 'transitions': []}]


def replace_once(rng, text, old, new):
    idx = [m.start() for m in re.finditer(re.escape(old), text)]
    if not idx:
        return None
    i = rng.choice(idx)
    return text[:i] + new + text[i + len(old):]


def gen_malformed(rng):
    """(kind, text): texts every reader of the layout has to refuse."""
    base = sample_base(rng)
    t = plain_text(base)
    kind = rng.choice(MALFORMED_KINDS)
    r = None
    if kind == 'missing_field':
        k = rng.choice(['name', 'patterns', 'transitions', 'pattern', 'token_type', 'is_positive'])
        if k == 'name':
            r = replace_once(rng, t, '"name":%s,' % json.dumps(base[0]['name'], ensure_ascii=False), '')
        elif k == 'patterns':
            r = replace_once(rng, t, '"patterns":[],', '')
        elif k == 'transitions':
            r = replace_once(rng, t, ',"transitions":[]', '')
        elif k == 'pattern':
            r = replace_once(rng, t, '"pattern":"b",', '')
        elif k == 'token_type':
            r = replace_once(rng, t, ',"token_type":%d' % base[0]['patterns'][0]['t'], '')
        else:
            r = re.sub(r'"is_positive":(true|false),', '', t, count=1)
    elif kind == 'duplicate_field':
        k = rng.choice(['name', 'patterns', 'transitions', 'token_type', 'lookahead', 'is_positive', 'escaped'])
        if k == 'name':
            r = replace_once(rng, t, '"name":"M2",', '"name":"M2","name":"M2",')
        elif k == 'patterns':
            r = replace_once(rng, t, '"patterns":[],', '"patterns":[],"patterns":[],')
        elif k == 'transitions':
            r = replace_once(rng, t, ',"transitions":[]', ',"transitions":[],"transitions":[]')
        elif k == 'token_type':
            x = ',"token_type":%d' % base[0]['patterns'][0]['t']
            r = replace_once(rng, t, x, x + x)
        elif k == 'lookahead':
            r = replace_once(rng, t, ',"lookahead":{', ',"lookahead":null,"lookahead":{')
        elif k == 'is_positive':
            r = re.sub(r'"is_positive":(true|false),', r'"is_positive":\1,"is_positive":\1,', t, count=1)
        else:
            r = replace_once(rng, t, '"name":"M2",', '"name":"M2","n\\u0061me":"M2",')
    elif kind == 'leading_zero':
        x = '"token_type":%d' % base[0]['patterns'][1]['t']
        r = replace_once(rng, t, x, '"token_type":%s%d' % (rng.choice(['0', '00']), base[0]['patterns'][1]['t']))
    elif kind == 'lone_surrogate':
        s = rng.choice(['\\ud800', '\\uDBFF', '\\udc00', '\\uDFFF', '\\ud800\\u0041', '\\ud800\\ud800', '\\ud83dx', '\\ud83d\\n'])
        r = replace_once(rng, t, '"pattern":"b"', '"pattern":"b%s"' % s)
    elif kind == 'trailing_garbage':
        r = t + rng.choice([' x', ']', ',', '[]', ' null', '}', '0', '"'])
    elif kind == 'u32_overflow':
        r = replace_once(rng, t, '"transitions":[[%d,0]' % base[0]['transitions'][0][0],
                         '"transitions":[[%d,0]' % rng.choice([2 ** 32, 2 ** 32 + 5, 2 ** 64, 10 ** 25]))
    elif kind == 'usize_overflow':
        if rng.random() < 0.5:
            x = '"token_type":%d' % base[0]['patterns'][0]['t']
            r = replace_once(rng, t, x, '"token_type":%d' % rng.choice([2 ** 64, 2 ** 64 + 1, 10 ** 20, 10 ** 40]))
        else:
            r = replace_once(rng, t, ',1]]', ',%d]]' % rng.choice([2 ** 64, 10 ** 21]))
    elif kind == 'raw_control':
        r = replace_once(rng, t, '"pattern":"b"', '"pattern":"b%s"' % chr(rng.choice([0, 1, 9, 10, 13, 31])))
    elif kind == 'bad_escape':
        r = replace_once(rng, t, '"pattern":"b"', '"pattern":"b%s"' % rng.choice(['\\x41', '\\u12G4', '\\u12', '\\a', '\\U0041', "\\'", '\\ ', '\\']))
    elif kind == 'wrong_type':
        k = rng.randrange(12)
        tt = '"token_type":%d' % base[0]['patterns'][1]['t']
        r = [lambda: replace_once(rng, t, '"name":"M2"', '"name":%s' % rng.choice(['5', 'null', 'true', '["M2"]', '{}'])),
             lambda: replace_once(rng, t, tt, '"token_type":"%d"' % base[0]['patterns'][1]['t']),
             lambda: replace_once(rng, t, tt, tt + rng.choice(['.0', 'e0', 'E1', '.5'])),
             lambda: replace_once(rng, t, tt, '"token_type":-%d' % base[0]['patterns'][1]['t']),
             lambda: re.sub(r'"is_positive":(true|false)', lambda m: '"is_positive":' + rng.choice(['"true"', '1', '0', 'null']), t, count=1),
             lambda: replace_once(rng, t, ',1]]', rng.choice([']]', ',1,2]]', ',"1"]]', ',null]]', ',[1]]]'])),
             lambda: replace_once(rng, t, '"patterns":[]', '"patterns":%s' % rng.choice(['{}', 'null', '0', '""'])),
             lambda: '{"modes":' + t + '}',
             lambda: replace_once(rng, t, '"transitions":[]', '"transitions":%s' % rng.choice(['null', '{}', '[[]]', '[0]', '[null]'])),
             lambda: replace_once(rng, t, '"pattern":"b"', '"pattern":%s' % rng.choice(['null', '98', '["b"]'])),
             lambda: replace_once(rng, t, ',"lookahead":{', ',"lookahead":%s,"x":{' % rng.choice(['true', '0', '"c"', '[]'])),
             lambda: rng.choice(['null', '0', '""', 'true', '{}', '[null]', '[[]]', '[0]', '["INITIAL"]']),
             ][k]()
    elif kind == 'truncated':
        end = t.rindex(']')
        r = t[:rng.randint(0, end)]
    elif kind == 'syntax':
        k = rng.randrange(10)
        r = [lambda: replace_once(rng, t, ',', rng.choice([',,', '', ';', ' '])),
             lambda: replace_once(rng, t, ']', ',]'),
             lambda: replace_once(rng, t, '}', ',}'),
             lambda: replace_once(rng, t, '"name"', rng.choice(["'name'", 'name', '"name', 'name"'])),
             lambda: replace_once(rng, t, ':', rng.choice(['=', '', '::', ' '])),
             lambda: replace_once(rng, t, '"patterns":[]', '"patterns":[] /* none */'),
             lambda: re.sub(r'(true|false)', lambda m: rng.choice(['True', 'FALSE', 'tru', 'falsee', 'yes']), t, count=1),
             lambda: '﻿' + t,
             lambda: replace_once(rng, t, '[', rng.choice(['(', '[[', '<'])),
             lambda: rng.choice(['', ' ', '\n', '[', ']', '[,]', '[{}]', '[{]', '{']),
             ][k]()
    elif kind == 'case_of_key':
        k = rng.choice(['name', 'patterns', 'transitions', 'pattern', 'token_type'])
        r = replace_once(rng, t, '"%s"' % k, '"%s"' % rng.choice([k.upper(), k.capitalize(), k + ' ', ' ' + k, k[:-1]]))
    if r is None or r == t:
        return gen_malformed(rng)
    return kind, r


MALFORMED_KINDS = ['missing_field', 'duplicate_field', 'leading_zero', 'lone_surrogate', 'trailing_garbage', 'u32_overflow',
                   'usize_overflow', 'raw_control', 'bad_escape', 'wrong_type', 'truncated', 'syntax', 'case_of_key']

# Texts on which the model reader and serde are DOCUMENTED to differ; they are evaluated on both sides
# and the outcome is recorded in the evidence, but they are outside the compared domain.
OUTSIDE_COMMON_DOMAIN = [
    ('struct written as an array (serde derive accepts sequences for structs; the model reads maps only)',
     '[["N",[["a",1,null]],[[1,0]]]]'),
    ('pattern struct written as an array', '[{"name":"N","patterns":[["a",1,null]],"transitions":[]}]'),
    ('lone surrogate escape inside an ignored unknown field (serde_json skips ignored strings without validating escapes)',
     '[{"name":"N","patterns":[],"transitions":[],"x":"\\ud800"}]'),
    ('fraction / exponent / negative number inside an ignored unknown field (the model has unsigned integers only)',
     '[{"name":"N","patterns":[],"transitions":[],"x":[-1,1.5,1e3]}]'),
    ('unknown field nested 200 deep (serde_json skips ignored values iteratively, its recursion limit of 128 does not apply)',
     '[{"name":"N","patterns":[],"transitions":[],"x":' + '[' * 200 + ']' * 200 + '}]'),
]


# ----------------------------------------------------------------------------------------------

class C16:
    ID = 'C16'
    THEOREMS = [('Properties.C16', ['C16_config_roundtrip', 'C16_config_roundtrip_any', 'C16_print_scalar',
                                    'C16_config_roundtrip_strict', 'C16_match_roundtrip', 'C16_match_ext_roundtrip',
                                    'C16_span_roundtrip', 'C16_position_roundtrip', 'C16_print_injective',
                                    'C16_json_roundtrip', 'C16_readme', 'C16_nonvacuous', 'C16_layout_config',
                                    'C16_layout_match_ext', 'C16_reader_accepts', 'C16_reader_rejects'])]
    COQ_TARGETS = ['Properties/C16.vo']
    LEVEL = 'proof'
    ASSUMPTIONS = [
        'serde, serde_derive and serde_json are MODELLED, not verified: Json.v is a hand-written model of the text layout '
        'the derives of Lookahead, Pattern, ScannerMode, Span, Position, Match, MatchExt and the id newtypes produce through '
        'serde_json::to_string and accept through serde_json::from_str; the theorems are about that model and are tied to '
        'the real code only by the differential check of this run (sampled configurations, texts and values)',
        'text is modelled as a sequence of Unicode scalar values; UTF-8 encoding/decoding is outside the model',
        'the reader model and serde are compared on their common domain: JSON objects for structs (serde also accepts '
        'arrays), unsigned integers without fraction/exponent, numbers checked against usize < 2^64 and u32 ids '
        '(parse_config_strict), ignored unknown fields restricted to well-formed JSON with valid escapes and unsigned integers',
        'same behaviour of the re-read configuration is observed (build outcome, compiled dump, token streams on sampled '
        'inputs) and follows in general from value equality (==) of the re-read configuration, which the derived PartialEq '
        'decides over all fields; determinism of ScannerBuilder on equal configurations is observed, not proved',
        'a 64-bit target (usize = u64)',
    ]
    TRUSTED_EXTRA = ['serde / serde_derive / serde_json (modelled at the level of the JSON text layout, tied by correspondence)',
                     'the variant writer and malformed-text generator in lib/prop_c16.py (expected outcome of each text)']
    RULE = ('round trip: repository corpora (tests/data/*.json, README; veryl_modes.json in the thorough tier), hand-written edge '
            'configurations (zero modes, empty names/patterns/lists, every escape class, usize::MAX / u32::MAX numbers), then random '
            'configurations of three shapes: wild (0..3 modes, 0..4 patterns, names/patterns/lookaheads are arbitrary strings of 0..8 '
            'scalar values drawn evenly from: quote, backslash, short-escape controls, other C0 controls, DEL, slash, ASCII, 2-, 3-, '
            '4-byte characters; token types 0, small, 2^32-1, 2^32, 2^63, usize::MAX; strictly sorted u32 transition tokens up to 2^32-1, '
            'mode ids up to usize::MAX), literal (patterns are regex-escaped exotic strings so the configuration builds; inputs are '
            'concatenations of those strings), grammar (lib/gen.py pattern grammar with lookaheads and transitions, exotic names). '
            'Each configuration: text_eqb (print_config cfg) <serde text> and parse_config_strict <serde text> = Some cfg, both decided by '
            'vm_compute inside Coq on the REAL text (a failing case is evaluated again with the model text and value printed); every 4th '
            'also the serde_json::to_string_pretty text through parse_config_strict; Rust from_str(to_string(x)) == x, stable second trip; '
            'builds, dumps and token streams of original and re-read configuration on 2 inputs. '
            'parse: variant texts written by an independent writer (random whitespace, field order, "lookahead":null, unknown fields '
            'with arbitrary well-formed values incl. numbers >= 2^64, every escape form incl. \\/ \\uXXXX in both hex cases and surrogate '
            'pairs, escaped keys, unsorted/duplicate transitions), the repository JSON files and README block verbatim, and malformed '
            'variants (missing/duplicate field, leading zeros, lone surrogates, trailing garbage, u32/usize overflow, raw controls, bad '
            'escapes, wrong types, truncation, syntax errors, wrong key case): accept/reject and value of serde_json::from_str must equal '
            'parse_config_strict (numbers bounded as in Rust) and the generator\'s expectation. Outside the compared domain (recorded '
            'only): structs written as arrays, lone surrogates / signed / fractional numbers / nesting > 128 inside ignored fields. '
            'values: Span/Position/Match/MatchExt from numbers in {0,1,small,2^32-1,2^32,2^63,2^64-1} and from real scanner runs: '
            'to_string == print_* and from_str(to_string(x)) == x; variant and malformed texts against parse_span etc. '
            'non-trivial = distinct configuration (or text) that contains an escape-needing character (quote, backslash, C0 control), '
            'a non-ASCII character, a lookahead or a transition')
    N = {'quick': 500, 'thorough': 20000}

    # -- generation ------------------------------------------------------------------------------

    def roundtrip_cases(self, rng, tier):
        cases = []
        for name, modes, inp in corpus.repo_configs(include_veryl=(tier == 'thorough')):
            cases.append({'kind': 'corpus:' + name, 'modes': norm_modes(modes), 'inputs': [inp[:3000] if inp else '']})
        for i, m in enumerate(EDGE_CONFIGS):
            cases.append({'kind': 'edge', 'modes': norm_modes(m), 'inputs': EDGE_INPUTS})
        for i in range(self.N[tier]):
            r = i % 10
            if r < 5:
                cases.append(gen_wild_config(rng))
            elif r < 8:
                cases.append(gen_literal_config(rng))
            else:
                cases.append(gen_grammar_config(rng))
        for i, c in enumerate(cases):
            c['pretty'] = (i % 4 == 0)
        return cases

    def parse_cases(self, rng, tier):
        cases = []
        # the repository's own JSON files and the README block, verbatim
        files = sorted(f for f in glob.glob(os.path.join(corpus.REPO, 'scnr/tests/data/*.json')) if not f.endswith('_tokens.json'))
        if tier == 'thorough':
            files.append(os.path.join(corpus.REPO, 'scnr/benches/veryl_modes.json'))
        for f in files:
            txt = open(f, encoding='utf-8').read()
            try:
                exp = norm_modes(corpus.convert(json.loads(txt)))
            except Exception:
                continue
            cases.append({'kind': 'file:' + os.path.basename(f), 'text': txt, 'expect': exp})
        readme = open(os.path.join(corpus.REPO, 'README.md'), encoding='utf-8').read()
        m = re.search(r'```json\n(.*?)```', readme, re.S)
        if m:
            try:
                exp = norm_modes(corpus.convert(json.loads(m.group(1))))
                cases.append({'kind': 'readme', 'text': m.group(1), 'expect': exp})
            except Exception:
                cases.append({'kind': 'readme', 'text': m.group(1), 'expect': 'unknown'})
        n = self.N[tier]
        feats = {}
        self.feats = feats
        for i in range(n // 2):
            r = i % 10
            if r < 5:
                cfg = gen_wild_config(rng)['modes']
                if rng.random() < 0.3:
                    # through serde the transitions need not be sorted or distinct
                    for mm in cfg:
                        tr = mm['transitions']
                        if tr and rng.random() < 0.5:
                            tr.append(list(rng.choice(tr)))
                        rng.shuffle(tr)
            elif r < 8:
                cfg = gen_literal_config(rng)['modes']
            else:
                cfg = gen_grammar_config(rng)['modes']
            w = VariantWriter(rng, ws=rng.choice([0.0, 0.2, 0.6]), escapes=rng.choice([0.0, 0.2, 0.7]),
                              extras=rng.choice([0.0, 0.2, 0.4]), feats=feats)
            cases.append({'kind': 'variant', 'text': w.config(cfg), 'expect': norm_modes(cfg)})
        for i in range(n // 2):
            k, t = gen_malformed(rng)
            cases.append({'kind': 'malformed:' + k, 'text': t, 'expect': None})
        return cases

    def value_cases(self, rng, tier):
        pool = [0, 1, 2, 7, 10, 255, 65536, U32MAX, 2 ** 32, 2 ** 63, U64MAX - 1, U64MAX]
        n = 100 if tier == 'quick' else 2000
        vals = [dict(t=0, a=0, b=0, l1=1, c1=1, l2=1, c2=1), dict(t=U64MAX, a=U64MAX, b=U64MAX, l1=U64MAX, c1=U64MAX, l2=U64MAX, c2=U64MAX),
                dict(t=3, a=10, b=12, l1=2, c1=1, l2=2, c2=3), dict(t=1, a=5, b=2, l1=0, c1=0, l2=0, c2=0)]
        for _ in range(n):
            vals.append({k: (rng.choice(pool) if rng.random() < 0.6 else rng.randint(0, 1000)) for k in ['t', 'a', 'b', 'l1', 'c1', 'l2', 'c2']})
        return vals

    # -- checks ------------------------------------------------------------------------------------

    def check_roundtrip(self, cases, rdir, out):
        jobs = [{'kind': 'json_roundtrip', 'id': i, 'modes': c['modes'], 'inputs': c.get('inputs', []), 'pretty': bool(c.get('pretty'))}
                for i, c in enumerate(cases)]
        res = run_harness(jobs, rdir, 'roundtrip', timeout=1500)
        terms, owner = [], []
        bad = set()

        def viol(i, what, **kw):
            if i in bad:
                return
            bad.add(i)
            v = {'property': 'C16', 'what': what, 'case': dict(cases[i], check='roundtrip')}
            v.update(kw)
            out.violations.append(v)

        for i, (c, r) in enumerate(zip(cases, res)):
            if r.get('harness_panic'):
                raise RuntimeError('harness panic: %s' % r['harness_panic'])
            if r.get('construct') != 'ok':
                # generator error (unsorted transitions), not a finding about scnr
                raise RuntimeError('case %d cannot be constructed through the public API: %s' % (i, r.get('construct')))
            if r.get('to_string') != 'ok':
                viol(i, 'serde_json::to_string fails on a configuration: %s' % r.get('to_string'))
                continue
            if r.get('from_str') != 'ok':
                viol(i, 'the serialized configuration is not read back: %s' % r.get('from_str'), text=r.get('text'))
                continue
            if not r.get('equal'):
                viol(i, 'from_str(to_string(cfg)) != cfg', text=r.get('text'), reread=r.get('reread_modes'))
                continue
            if r.get('reemit_error') or r.get('reread_modes') != c['modes']:
                viol(i, 'the re-read configuration serializes to a different value than the original',
                     text=r.get('text'), reread=r.get('reread_modes'), detail=r.get('reemit_error'))
                continue
            if not r.get('text_stable') or not r.get('via_value_equal') or (c.get('pretty') and not r.get('pretty_equal')):
                viol(i, 'second round trip / to_value-from_value / pretty-printed round trip does not reproduce the configuration',
                     text=r.get('text'), flags={k: r.get(k) for k in ('text_stable', 'via_value_equal', 'pretty_equal')})
                continue
            if not r.get('build_equal'):
                viol(i, 'original and re-read configuration build differently', build=[r.get('build'), r.get('error')],
                     build2=[r.get('build2'), r.get('error2')])
                continue
            if r.get('build') == 'ok':
                if not r.get('dump_equal'):
                    viol(i, 'the scanner compiled from the re-read configuration differs from the original one',
                         dump=r.get('dump1'), dump2=r.get('dump2'))
                    continue
                if r.get('other_build_paths_equal') is False:
                    viol(i, 'the re-read configuration built through build() or through Scanner::try_from compiles to other automata than '
                            'build_uncached of the original one')
                    continue
                if not r.get('streams_equal'):
                    viol(i, 'the scanner built from the re-read configuration produces different tokens',
                         streams=r.get('streams'), streams2=r.get('streams2'))
                    continue
            if c.get('pretty') and 'pretty' in r:
                terms.append('(rt3 %s %s %s)' % (cfg_term(c['modes']), codes_term(r['text']), codes_term(r['pretty'])))
            else:
                terms.append('(rt2 %s %s)' % (cfg_term(c['modes']), codes_term(r['text'])))
            owner.append((i, len(terms) - 1))
        size = sum(len(r.get('text', '')) for r in res)
        per_file = max(20, min(400, int(400 * 150 * len(cases) / max(size, 1))))
        vals, fails = coq_eval_terms(terms, rdir, 'rt', per_file)
        for p, o in fails:
            out.broken.append({'what': 'coqc failed on generated case file %s' % p, 'detail': o})
        agree = 0
        failing = []
        for i, k in owner:
            if vals[k] is None:
                continue
            if all(vals[k]):
                agree += 1
            else:
                failing.append(i)
        # the failing cases again, with the model's text and values printed
        for i in failing[:10]:
            c, r = cases[i], res[i]
            dterms = ['(print_config %s)' % cfg_term(c['modes']), '(enc_cfg (parse_config_strict %s))' % codes_term(r['text'])]
            if c.get('pretty') and 'pretty' in r:
                dterms.append('(enc_cfg (parse_config_strict %s))' % codes_term(r['pretty']))
            dv, dfails = coq_eval_terms(dterms, rdir, 'rtdiag%d' % i, 10)
            if dfails or any(x is None for x in dv):
                out.broken.append({'what': 'round-trip case %d disagrees with the model and its diagnosis failed' % i, 'detail': dfails})
                continue
            model_text = dv[0]
            exp = cfg_value(c['modes'])
            # the Rust-side round trip of this configuration holds (checked above): a difference to the
            # model is a broken correspondence (the layout is no longer the modelled one), not a violation
            if model_text != cps(r['text']):
                out.broken.append({'what': 'correspondence: serde_json::to_string differs from the model printer print_config '
                                           '(the Rust-side round trip of this configuration holds)',
                                   'detail': {'case': c, 'serde_text': r['text'],
                                              'model_text': ''.join(chr(x) for x in model_text if x < 0x110000 and not 0xD800 <= x < 0xE000)}})
            elif dv[1] != exp:
                out.broken.append({'what': 'correspondence: the model reader parse_config_strict does not return the configuration on the text serde_json produced',
                                   'detail': {'case': c, 'serde_text': r['text'], 'model_value': modes_of_value(dv[1])}})
            elif len(dv) == 3 and dv[2] != exp:
                out.broken.append({'what': 'correspondence: the model reader does not return the configuration on the text to_string_pretty produced',
                                   'detail': {'case': c, 'serde_text': r['pretty'], 'model_value': modes_of_value(dv[2])}})
            else:
                out.broken.append({'what': 'round-trip case %d: the in-Coq comparison fails but the printed values agree' % i,
                                   'detail': {'case': c, 'flags': vals[[k for j, k in owner if j == i][0]]}})
        return res, {'roundtrip_configurations': len(cases), 'roundtrip_model_agree': agree,
                     'roundtrip_coq_evaluations': len(terms)}

    def check_parse(self, cases, rdir, out):
        jobs = []
        for i, c in enumerate(cases):
            j = {'kind': 'json_parse', 'id': i, 'text': c['text']}
            if isinstance(c.get('expect'), list):
                j['expect'] = c['expect']
            jobs.append(j)
        res = run_harness(jobs, rdir, 'parse', timeout=1500)
        terms = ['(enc_cfg (parse_config_strict %s))' % codes_term(c['text']) for c in cases]
        size = sum(len(c['text']) for c in cases)
        per_file = max(20, min(800, int(800 * 200 * len(cases) / max(size, 1))))
        vals, fails = coq_eval_terms(terms, rdir, 'parse', per_file)
        for p, o in fails:
            out.broken.append({'what': 'coqc failed on generated case file %s' % p, 'detail': o})
        agree = 0
        for i, (c, r, v) in enumerate(zip(cases, res, vals)):
            if r.get('harness_panic'):
                raise RuntimeError('harness panic: %s' % r['harness_panic'])
            if v is None:
                continue
            model = modes_of_value(v)

            def viol(what, **kw):
                d = {'property': 'C16', 'what': what, 'case': dict(c, check='parse'), 'text_codepoints': cps(c['text']),
                     'serde': {k: r.get(k) for k in ('accept', 'error', 'panic', 'modes', 'reemit_error', 'eq_expected')},
                     'model': model}
                d.update(kw)
                out.violations.append(d)

            if r.get('panic'):
                viol('serde_json::from_str panics')
                continue
            exp = c.get('expect')
            if c['kind'] == 'readme' and not r['accept']:
                viol('the JSON layout shown in the README is not accepted by from_str::<Vec<ScannerMode>>')
                continue
            if r['accept'] != (model is not None):
                if c['kind'] in ('readme', 'corpus') and not r['accept']:
                    viol('a JSON file of the repository / the README layout is not accepted by from_str::<Vec<ScannerMode>>')
                else:
                    out.broken.append({'what': 'correspondence: serde_json::from_str and the model reader disagree on accepting a text '
                                               '(serde %s, model %s, generator expects %s)' % (r['accept'], model is not None, exp is not None),
                                       'detail': {'case': dict(c, check='parse'), 'serde': {k: r.get(k) for k in ('accept', 'error')}}})
                continue
            if exp != 'unknown' and r['accept'] != (exp is not None):
                viol('serde_json::from_str and the model reader both %s a text the generator expects to be %s'
                     % ('accept' if r['accept'] else 'reject', 'accepted' if exp is not None else 'rejected'))
                continue
            if r['accept']:
                if r.get('reemit_error') or r.get('modes') != model:
                    if isinstance(exp, list) and r.get('modes') != exp:
                        viol('serde_json::from_str returns a configuration different from the one the text was written from')
                    else:
                        out.broken.append({'what': 'correspondence: serde_json::from_str and the model reader return different configurations',
                                           'detail': {'case': dict(c, check='parse'), 'serde': r.get('modes'), 'model': model}})
                    continue
                if isinstance(exp, list) and model != exp:
                    viol('both readers return a configuration different from the one the text was written from')
                    continue
                if r.get('eq_expected') is False:
                    viol('the configuration read by from_str is not == to the one constructed through ScannerMode::new')
                    continue
            agree += 1
        return res, {'texts_parsed': len(cases), 'texts_agree': agree,
                     'texts_accepted': sum(1 for r in res if r.get('accept')),
                     'texts_rejected': sum(1 for r in res if not r.get('accept')),
                     'texts_eq_checked_through_public_constructor': sum(1 for r in res if r.get('eq_expected') is True)}

    def check_outside(self, rdir, out):
        jobs = [{'kind': 'json_parse', 'text': t} for _, t in OUTSIDE_COMMON_DOMAIN]
        res = run_harness(jobs, rdir, 'outside')
        vals, fails = coq_eval_terms(['(enc_cfg (parse_config_strict %s))' % codes_term(t) for _, t in OUTSIDE_COMMON_DOMAIN], rdir, 'outside', 50)
        return [{'what': w, 'serde_accepts': r.get('accept'), 'model_accepts': (None if v is None else bool(v))}
                for (w, _), r, v in zip(OUTSIDE_COMMON_DOMAIN, res, vals)]

    def check_values(self, vals, rng, rdir, out, scan_case=None, nparse=200):
        def me_text(v):
            return ('{"token_type":%d,"span":{"start":%d,"end":%d},"start_position":{"line":%d,"column":%d},'
                    '"end_position":{"line":%d,"column":%d}}' % (v['t'], v['a'], v['b'], v['l1'], v['c1'], v['l2'], v['c2']))
        # texts for the readers of the value types
        ptexts = []
        for k in range(nparse):
            v = vals[k % len(vals)] if vals else None
            if v is None:
                break
            ty = ['span', 'position', 'match', 'match_ext'][k % 4]
            mal = k % 3 == 2
            # (the malformed variants are edited textually: no unknown fields there, so that an edit cannot land inside a string)
            w = VariantWriter(rng, ws=0.3, escapes=0.0, extras=0.0 if mal else 0.3)
            span = lambda: w.obj([('start', str(v['a'])), ('end', str(v['b']))])
            pos = lambda l, c: w.obj([('line', str(v[l])), ('column', str(v[c]))])
            if ty == 'span':
                t, nums = span(), [v['a'], v['b']]
            elif ty == 'position':
                t, nums = pos('l1', 'c1'), [v['l1'], v['c1']]
            elif ty == 'match':
                t, nums = w.obj([('token_type', str(v['t'])), ('span', span())]), [v['t'], v['a'], v['b']]
            else:
                t = w.obj([('token_type', str(v['t'])), ('span', span()), ('start_position', pos('l1', 'c1')), ('end_position', pos('l2', 'c2'))])
                nums = [v['t'], v['a'], v['b'], v['l1'], v['c1'], v['l2'], v['c2']]
            t = w.ws() + t + w.ws()
            if mal:
                key = {'span': 'end', 'position': 'line', 'match': 'span', 'match_ext': 'end_position'}[ty]
                m = re.search(r'"%s"\s*:' % key, t)
                how = rng.randrange(5)
                if how == 0 and m:
                    t = t[:m.start()] + '"_' + t[m.start() + 1:]                  # required field missing
                elif how == 1:
                    t = t + rng.choice(['x', '}', ',', '0'])                      # trailing garbage
                elif how == 2:
                    t2 = re.sub(r':(\s*)(\d)', lambda mm: ':' + mm.group(1) + '0' + mm.group(2), t, count=1)
                    t = t2 if t2 != t else t + 'x'                                 # leading zero
                elif how == 3 and m:
                    j = t.rindex('}')
                    val = '{}' if key in ('span', 'end_position') else '1'
                    t = t[:j] + ',"%s":%s' % (key, val) + t[j:]                    # duplicate field
                else:
                    t = t[:t.rindex('}')]                                           # truncated
                nums = None
            ptexts.append({'ty': ty, 'text': t, 'expect': nums})
        job = {'kind': 'json_values', 'values': [dict(v, me_text=me_text(v)) for v in vals],
               'parse': [{'ty': p['ty'], 'text': p['text']} for p in ptexts]}
        if scan_case:
            job['scan'] = scan_case
        r = run_harness([job], rdir, 'values')[0]
        if r.get('harness_panic'):
            raise RuntimeError('harness panic: %s' % r['harness_panic'])
        terms = []
        for v in vals:
            terms.append('[print_span (mk_span %d %d); print_position (mk_position %d %d); print_position (mk_position %d %d); '
                         'print_match (mk_match %d %d %d); print_match_ext (mk_match_ext %d %d %d %d %d %d %d)]'
                         % (v['a'], v['b'], v['l1'], v['c1'], v['l2'], v['c2'], v['t'], v['a'], v['b'],
                            v['t'], v['a'], v['b'], v['l1'], v['c1'], v['l2'], v['c2']))
        nv = len(terms)
        for s in r.get('scanned', []):
            n = s['nums']
            terms.append('[%s]' % ('print_match (mk_match %d %d %d)' % tuple(n) if len(n) == 3 else
                                   'print_match_ext (mk_match_ext %d %d %d %d %d %d %d)' % tuple(n)))
        ns = len(terms) - nv
        enc = {'span': 'enc_span (parse_span %s)', 'position': 'enc_pos (parse_position %s)', 'match': 'enc_match (parse_match %s)',
               'match_ext': 'enc_match_ext (parse_match_ext %s)'}
        for p in ptexts:
            terms.append('(' + enc[p['ty']] % codes_term(p['text']) + ')')
        cv, fails = coq_eval_terms(terms, rdir, 'values', 300)
        for p, o in fails:
            out.broken.append({'what': 'coqc failed on generated case file %s' % p, 'detail': o})
        agree = 0
        for v, rv, mv in zip(vals, r['values'], cv[:nv]):
            if mv is None:
                continue
            if 'panic' in rv or 'match_ext_error' in rv:
                out.violations.append({'property': 'C16', 'what': 'a match value cannot be serialized / a MatchExt in the documented layout is not read: %s'
                                       % (rv.get('panic') or rv.get('match_ext_error')), 'case': {'check': 'value', 'value': v}})
                continue
            texts = [rv['span'], rv['start_position'], rv['end_position'], rv['match'], rv['match_ext']]
            if [cps(t) for t in texts] != mv:
                out.violations.append({'property': 'C16', 'what': 'serde_json::to_string of Span/Position/Match/MatchExt differs from the model printer',
                                       'case': {'check': 'value', 'value': v}, 'serde_texts': texts,
                                       'model_texts': [''.join(map(chr, x)) for x in mv]})
                continue
            if not rv['roundtrip'] or not rv['accessors']:
                out.violations.append({'property': 'C16', 'what': 'a Span/Position/Match/MatchExt value does not survive from_str(to_string(x))',
                                       'case': {'check': 'value', 'value': v}, 'serde_texts': texts, 'flags': [rv['roundtrip'], rv['accessors']]})
                continue
            agree += 1
        sagree = 0
        for s, mv in zip(r.get('scanned', []), cv[nv:nv + ns]):
            if mv is None:
                continue
            if [cps(s['text'])] != mv or not s['roundtrip']:
                out.violations.append({'property': 'C16', 'what': 'a match produced by a scanner does not serialize as the model prints it / does not round-trip',
                                       'case': {'check': 'scanned_value', 'scan': scan_case, 'nums': s['nums']}, 'serde_text': s['text'],
                                       'model_text': ''.join(map(chr, mv[0])), 'roundtrip': s['roundtrip']})
                continue
            sagree += 1
        pagree = 0
        for p, rp, mv in zip(ptexts, r['parsed'], cv[nv + ns:]):
            if mv is None:
                continue
            model = mv[0] if mv else None
            serde = rp.get('value') if rp.get('accept') else None
            if serde != model or model != p['expect'] or (rp.get('accept') and rp.get('reser_value') != serde):
                out.violations.append({'property': 'C16', 'what': 'from_str of a %s text and the model reader disagree (serde %s, model %s, expected %s)'
                                       % (p['ty'], serde, model, p['expect']),
                                       'case': {'check': 'value_text', 'ty': p['ty'], 'text': p['text']}, 'serde': rp})
                continue
            pagree += 1
        return {'value_roundtrips': len(vals) * 5 + len(r.get('scanned', [])), 'value_tuples': len(vals), 'value_tuples_agree': agree,
                'scanner_produced_matches': len(r.get('scanned', [])), 'scanner_produced_agree': sagree,
                'value_texts_parsed': len(ptexts), 'value_texts_agree': pagree,
                'value_texts_accepted': sum(1 for x in r['parsed'] if x.get('accept'))}

    # -- driver entry ------------------------------------------------------------------------------

    def explore(self, rng, tier, rdir, out, replay=None):
        if replay:
            return self.replay(json.load(open(replay)), rng, rdir, out)
        rt = self.roundtrip_cases(rng, tier)
        pc = self.parse_cases(rng, tier)
        vc = self.value_cases(rng, tier)
        res, stats = self.check_roundtrip(rt, rdir, out)
        pres, pstats = self.check_parse(pc, rdir, out)
        stats.update(pstats)
        scan_case = None
        for name, modes, inp in corpus.repo_configs():
            if name == 'parol' and inp:
                scan_case = {'modes': norm_modes(modes), 'input': inp[:1500]}
        stats.update(self.check_values(vc, rng, rdir, out, scan_case, nparse=200 if tier == 'quick' else 3000))
        stats['outside_common_domain'] = self.check_outside(rdir, out)
        stats['cache_sequences'] = self.check_cache_seq(self.cache_seq_cases(rng, tier, rt, res), rdir, out)
        # the README text the Example C16_readme is about is the one in the repository
        try:
            v, f = coq_eval_terms(['readme_json'], rdir, 'readme', 1)
            m = re.search(r'```json\n(.*?)```', open(os.path.join(corpus.REPO, 'README.md'), encoding='utf-8').read(), re.S)
            same = bool(m) and v[0] == cps(m.group(1))
            stats['readme_text_equals_coq_constant'] = same
            if not same:
                out.notes.append('the JSON block of README.md differs from the constant readme_json of Json.v (Example C16_readme is about '
                                 'the old text); the current block is checked through serde and the model reader in this run')
        except Exception as e:
            out.notes.append('README constant comparison failed: %s' % e)
        # coverage
        def strings_of(modes):
            for m in modes:
                yield m['name']
                for p in m['patterns']:
                    yield p['p']
                    if p.get('la'):
                        yield p['la']['p']

        def nontrivial(modes):
            if any(p.get('la') for m in modes for p in m['patterns']) or any(m.get('transitions') for m in modes):
                return True
            return any(ord(ch) < 32 or ch in '"\\' or ord(ch) > 126 for s in strings_of(modes) for ch in s)

        seen, nt = set(), 0
        cls, lens = {k: 0 for k in CLASSES}, {}
        kinds, builds = {}, {}
        tokens = 0
        for c, r in zip(rt, res):
            kinds[c['kind'].split(':')[0]] = kinds.get(c['kind'].split(':')[0], 0) + 1
            builds[r.get('build', 'n/a')] = builds.get(r.get('build', 'n/a'), 0) + 1
            tokens += sum(1 for st in r.get('streams', []) for o in st if o and o[0] == 1)
            h = canon_hash(c['modes'])
            if h in seen:
                continue
            seen.add(h)
            if nontrivial(c['modes']):
                nt += 1
            for s in strings_of(c['modes']):
                lens[len(s)] = lens.get(len(s), 0) + 1
                for ch in s:
                    cls[char_class(ord(ch))] += 1
        pseen, pnt = set(), 0
        pk = {}
        for c in pc:
            k = c['kind'].split(':')[0] if not c['kind'].startswith('malformed') else c['kind']
            pk[k] = pk.get(k, 0) + 1
            h = canon_hash(c['text'])
            if h in pseen:
                continue
            pseen.add(h)
            if isinstance(c.get('expect'), list) and nontrivial(c['expect']) or c['kind'].startswith('malformed'):
                pnt += 1
        stats.update({
            'evaluations': len(rt) + len(pc) + stats['value_tuples'] + stats['value_texts_parsed'] + stats['scanner_produced_matches'],
            'distinct_nontrivial': nt + pnt,
            'distinct_nontrivial_configurations': nt, 'distinct_configurations': len(seen),
            'distinct_nontrivial_texts': pnt, 'distinct_texts': len(pseen),
            'rule': self.RULE,
            'configuration_kinds': kinds, 'build_outcomes': builds,
            'configurations_built_and_compared': builds.get('ok', 0), 'tokens_compared': tokens,
            'string_char_class_distribution': cls,
            'string_length_hist': {str(k): v for k, v in sorted(lens.items()) if k <= 12},
            'strings_longer_than_12': sum(v for k, v in lens.items() if k > 12),
            'text_kinds': pk, 'variant_features': getattr(self, 'feats', {}),
            'samples': self.samples(rt, res, pc, pres),
        })
        return stats

    def samples(self, rt, res, pc, pres):
        out = []
        for c, r in zip(rt, res):
            if c['kind'] == 'literal' and r.get('build') == 'ok' and any(o and o[0] == 1 for st in r.get('streams', []) for o in st):
                out.append({'configuration': c['modes'], 'serde_text': r['text'], 'inputs': c['inputs'], 'streams': r['streams']})
                break
        for c, r in zip(rt, res):
            if c['kind'] == 'wild' and len(c['modes']) >= 1 and c['modes'][0]['patterns']:
                out.append({'configuration': c['modes'], 'serde_text': r.get('text'), 'build': r.get('build')})
                break
        for c, r in zip(pc, pres):
            if c['kind'] == 'variant' and len(c['text']) < 400 and 'u' in c['text']:
                out.append({'text': c['text'], 'serde_accepts': r.get('accept'), 'value': r.get('modes')})
                break
        return out

    # ------------------------------------------------------------------------------------------
    # the configuration read back LATER in the life of the process still builds the same scanner
    FILLERS = {'quick': [0, 1, 63, 64, 65, 130, 257, 300], 'thorough': [0, 1, 2, 15, 16, 17, 31, 32, 33, 63, 64, 65, 127, 128, 129, 130,
                                                                          255, 256, 257, 258, 300, 511, 512, 513, 700, 1025]}

    def cache_seq_cases(self, rng, tier, rt, res):
        good = [c for c, r in zip(rt, res) if r.get('build') == 'ok' and r.get('dump_states', 10 ** 9) <= 60 and c['kind'] != 'edge' and c['modes']]
        cases = []
        for k, nf in enumerate(self.FILLERS[tier]):
            if not good:
                break
            c = good[(k * 7) % len(good)]
            fillers = [[{'name': 'F', 'patterns': [{'p': 'f%d_%d' % (k, i), 't': i % 7}], 'transitions': []}] for i in range(nf)]
            if nf >= 2:
                # a filler that differs from the configuration in one lookahead / one name only
                v = json.loads(json.dumps(c['modes']))
                v[0]['name'] = v[0]['name'] + '_'
                fillers[nf // 2] = v
            cases.append({'check': 'cache_seq', 'modes': c['modes'], 'inputs': c.get('inputs', [])[:2], 'fillers': fillers})
        return cases

    def check_cache_seq(self, cases, rdir, out):
        def one(ic):
            i, c = ic
            d = os.path.join(rdir, 'cseq_%03d' % i)
            os.makedirs(d, exist_ok=True)
            return run_harness([{'kind': 'json_cache_seq', 'modes': c['modes'], 'inputs': c['inputs'], 'fillers': c['fillers']}],
                               d, 'cseq', threads=1)[0]
        with ThreadPoolExecutor(max_workers=NCPU) as ex:
            results = list(ex.map(one, enumerate(cases)))
        n = 0
        for c, r in zip(cases, results):
            if r.get('harness_panic') or r.get('panic') or r.get('error'):
                out.violations.append({'property': 'C16', 'what': 'building the configuration, other configurations and the re-read configuration '
                                       'in one process panicked or failed: %s' % (r.get('harness_panic') or r.get('panic') or r.get('error')),
                                       'case': c})
                continue
            if r.get('build') != 'ok':
                continue
            n += 1
            if r.get('filler_failures'):
                out.broken.append({'what': 'internal: a filler configuration of a cache sequence does not build', 'detail': r['filler_failures'][:3]})
            if not (r.get('equal') and r.get('first_ok') and r.get('late_dump_ok') and r.get('late_streams_ok')):
                out.violations.append({'property': 'C16',
                                       'what': 'the configuration read back from its JSON text, built through build() after %d other configurations were '
                                               'built in the same process, does not behave like the original (equal=%s, first build ok=%s, '
                                               'late automata equal=%s, late token streams equal=%s)'
                                               % (len(c['fillers']), r.get('equal'), r.get('first_ok'), r.get('late_dump_ok'), r.get('late_streams_ok')),
                                       'case': c, 'streams_original': r.get('streams_ref'), 'streams_reread_late': r.get('streams_late')})
        return n

    def replay(self, payload, rng, rdir, out):
        case = payload.get('case') or {}
        chk = case.get('check')
        stats = {'evaluations': 1, 'distinct_nontrivial': 1, 'rule': self.RULE, 'samples': [case]}
        if chk == 'cache_seq':
            s = {'cache_sequences': self.check_cache_seq([case], rdir, out)}
        elif chk == 'roundtrip':
            _, s = self.check_roundtrip([case], rdir, out)
        elif chk == 'parse':
            _, s = self.check_parse([case], rdir, out)
        elif chk == 'value':
            s = self.check_values([case['value']], rng, rdir, out, None, nparse=0)
        elif chk == 'scanned_value':
            s = self.check_values([], rng, rdir, out, case.get('scan'), nparse=0)
        elif chk == 'value_text':
            # re-run the single text against both readers
            r = run_harness([{'kind': 'json_values', 'values': [], 'parse': [{'ty': case['ty'], 'text': case['text']}]}], rdir, 'values')[0]
            enc = {'span': 'enc_span (parse_span %s)', 'position': 'enc_pos (parse_position %s)', 'match': 'enc_match (parse_match %s)',
                   'match_ext': 'enc_match_ext (parse_match_ext %s)'}
            cv, fails = coq_eval_terms(['(' + enc[case['ty']] % codes_term(case['text']) + ')'], rdir, 'values', 10)
            rp = r['parsed'][0]
            model = cv[0][0] if cv[0] else None
            serde = rp.get('value') if rp.get('accept') else None
            if serde != model:
                out.violations.append({'property': 'C16', 'what': 'from_str of a %s text and the model reader disagree (serde %s, model %s)'
                                       % (case['ty'], serde, model), 'case': case, 'serde': rp})
            s = {}
        else:
            out.notes.append('replay file without a C16 case')
            s = {}
        stats.update(s)
        return stats


PROPS = {'C16': C16}
