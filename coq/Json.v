(* Json.v — model of the JSON text layout that serde / serde_json produce and accept for scnr's
   configuration (Vec<ScannerMode>) and match types (Span, Position, Match, MatchExt).
   Definitions only; the proofs are in JsonProofs.v, the property statements in Properties/C16.v.

   Text is modelled as `list N` of Unicode scalar values (not bytes); UTF-8 is outside the model.
   The printer is serde_json's compact printer (`to_string`) applied to the derived Serialize
   impls; the parser is a generic JSON reader for the needed subset followed by schema decoders
   that look fields up by name. *)
From Scnr Require Import Base.
From Coq Require Import String Ascii Decimal DecimalN DecimalFacts.
From Coq Require Import List.   (* again, so that app/length/rev are List's, not Decimal's or String's *)
Local Open Scope N_scope.

(* ------------------------------------------------------------------------------------------ *)
(* Data                                                                                        *)
(* ------------------------------------------------------------------------------------------ *)

Record lookahead := { la_positive : bool; la_pattern : list N }.
Record pattern := { p_pattern : list N; p_token : N; p_lookahead : option lookahead }.
(* transitions: (TerminalID u32, ScannerModeID usize) *)
Record mode := { m_name : list N; m_patterns : list pattern; m_transitions : list (N * N) }.
Definition config := list mode.
Record span := { s_start : N; s_end : N }.
Record position := { line : N; column : N }.
Record mtch := { mt_token : N; mt_span : span }.
Record mtch_ext := { me_token : N; me_span : span; me_start : position; me_end : position }.

(* helpers for machine-generated test files (every number written in N scope) *)
Definition mk_lookahead (la:bool * list N) : lookahead :=
  {| la_positive := fst la; la_pattern := snd la |}.
Definition mk_pattern (p:list N) (t:N) (la:option (bool * list N)) : pattern :=
  {| p_pattern := p; p_token := t; p_lookahead := option_map mk_lookahead la |}.
Definition mk_mode (name:list N) (ps:list pattern) (tr:list (N*N)) : mode :=
  {| m_name := name; m_patterns := ps; m_transitions := tr |}.
Definition mk_span (a b:N) : span := {| s_start := a; s_end := b |}.
Definition mk_position (l c:N) : position := {| line := l; column := c |}.
Definition mk_match (t a b:N) : mtch := {| mt_token := t; mt_span := mk_span a b |}.
Definition mk_match_ext (t a b l1 c1 l2 c2:N) : mtch_ext :=
  {| me_token := t; me_span := mk_span a b; me_start := mk_position l1 c1; me_end := mk_position l2 c2 |}.
Definition text_eqb (a b:list N) : bool := nlist_eqb a b.

(* ASCII text literals as lists of code points *)
Fixpoint codes (s:string) : list N :=
  match s with EmptyString => [] | String a s' => N_of_ascii a :: codes s' end.

(* ------------------------------------------------------------------------------------------ *)
(* JSON values (the subset needed: no fractions, exponents or negative numbers)                *)
(* ------------------------------------------------------------------------------------------ *)

Inductive jvalue :=
  | JNull
  | JBool (b:bool)
  | JNum (n:N)
  | JStr (s:list N)
  | JArr (l:list jvalue)
  | JObj (m:list (list N * jvalue)).

(* ------------------------------------------------------------------------------------------ *)
(* Printer (serde_json compact formatter)                                                      *)
(* ------------------------------------------------------------------------------------------ *)

(* decimal, no sign, no leading zeros: the digits of N.to_uint *)
Fixpoint print_uint (d:uint) : list N :=
  match d with
  | Nil => []
  | D0 d => 48 :: print_uint d | D1 d => 49 :: print_uint d | D2 d => 50 :: print_uint d
  | D3 d => 51 :: print_uint d | D4 d => 52 :: print_uint d | D5 d => 53 :: print_uint d
  | D6 d => 54 :: print_uint d | D7 d => 55 :: print_uint d | D8 d => 56 :: print_uint d
  | D9 d => 57 :: print_uint d
  end.
Definition print_num (n:N) : list N := print_uint (N.to_uint n).

(* lowercase hex digit of a value < 16 *)
Definition hex_digit (k:N) : N := if k <? 10 then 48 + k else 87 + k.

(* serde_json's ESCAPE table: quote, backslash and the controls below U+0020; everything else
   is emitted raw *)
Definition esc (c:N) : list N :=
  if c =? 34 then [92; 34]
  else if c =? 92 then [92; 92]
  else if c =? 8 then [92; 98]
  else if c =? 12 then [92; 102]
  else if c =? 10 then [92; 110]
  else if c =? 13 then [92; 114]
  else if c =? 9 then [92; 116]
  else if c <? 32 then [92; 117; 48; 48; hex_digit (c / 16); hex_digit (c mod 16)]
  else [c].
Definition print_body (s:list N) : list N := flat_map esc s.
Definition print_string (s:list N) : list N := 34 :: print_body s ++ [34].

(* items separated by commas, then the closing bracket *)
Fixpoint join_close (close:N) (l:list (list N)) : list N :=
  match l with
  | [] => [close]
  | x :: l' => match l' with [] => x ++ [close] | _ :: _ => x ++ 44 :: join_close close l' end
  end.

Definition lit_null : list N := Eval vm_compute in codes "null".
Definition lit_true : list N := Eval vm_compute in codes "true".
Definition lit_false : list N := Eval vm_compute in codes "false".

Fixpoint print_json (v:jvalue) : list N :=
  match v with
  | JNull => lit_null
  | JBool true => lit_true
  | JBool false => lit_false
  | JNum n => print_num n
  | JStr s => print_string s
  | JArr l => 91 :: join_close 93 (map print_json l)
  | JObj m => 123 :: join_close 125
                (map (fun kv => let '(k, x) := kv in print_string k ++ 58 :: print_json x) m)
  end.

(* ------------------------------------------------------------------------------------------ *)
(* Parser                                                                                      *)
(* ------------------------------------------------------------------------------------------ *)

Definition is_ws (c:N) : bool := (c =? 32) || (c =? 9) || (c =? 10) || (c =? 13).
Fixpoint skip_ws (t:list N) : list N :=
  match t with [] => [] | c :: t' => if is_ws c then skip_ws t' else t end.

Definition digit_of (c:N) : option (uint -> uint) :=
  if c =? 48 then Some D0 else if c =? 49 then Some D1 else if c =? 50 then Some D2
  else if c =? 51 then Some D3 else if c =? 52 then Some D4 else if c =? 53 then Some D5
  else if c =? 54 then Some D6 else if c =? 55 then Some D7 else if c =? 56 then Some D8
  else if c =? 57 then Some D9 else None.
Definition is_digit (c:N) : bool := (48 <=? c) && (c <=? 57).

(* the maximal run of decimal digits *)
Fixpoint take_digits (t:list N) : uint * list N :=
  match t with
  | [] => (Nil, [])
  | c :: t' => match digit_of c with
               | Some k => let (d, r) := take_digits t' in (k d, r)
               | None => (Nil, t)
               end
  end.

(* JSON forbids leading zeros (a single 0 is fine) *)
Definition num_of_uint (d:uint) : option N :=
  match d with
  | Nil => None
  | D0 Nil => Some 0
  | D0 _ => None
  | _ => Some (N.of_uint d)
  end.

Definition hex_val (c:N) : option N :=
  if (48 <=? c) && (c <=? 57) then Some (c - 48)
  else if (97 <=? c) && (c <=? 102) then Some (c - 87)
  else if (65 <=? c) && (c <=? 70) then Some (c - 55)
  else None.
Definition hex4 (a b c d:N) : option N :=
  match hex_val a, hex_val b, hex_val c, hex_val d with
  | Some x, Some y, Some z, Some w => Some (((x * 16 + y) * 16 + z) * 16 + w)
  | _, _, _, _ => None
  end.
Definition is_high (v:N) : bool := (55296 <=? v) && (v <? 56320).     (* D800..DBFF *)
Definition is_low (v:N) : bool := (56320 <=? v) && (v <? 57344).      (* DC00..DFFF *)
Definition combine_surrogates (hi lo:N) : N := 65536 + (hi - 55296) * 1024 + (lo - 56320).

(* the one-character escapes: quote, backslash, slash, b f n r t *)
Definition simple_escape (e:N) : option N :=
  if e =? 34 then Some 34 else if e =? 92 then Some 92 else if e =? 47 then Some 47
  else if e =? 98 then Some 8 else if e =? 102 then Some 12 else if e =? 110 then Some 10
  else if e =? 114 then Some 13 else if e =? 116 then Some 9 else None.

Definition cons_res (c:N) (r:option (list N * list N)) : option (list N * list N) :=
  match r with Some (s, rest) => Some (c :: s, rest) | None => None end.

(* the text after the opening quote: contents and the text after the closing quote.
   Raw controls below U+0020 are rejected, \uD800..\uDBFF must be followed by a \uDC00..\uDFFF
   escape (the pair is combined), lone surrogate escapes are rejected — as serde_json does for
   `from_str::<String>`. *)
Fixpoint parse_str (t:list N) : option (list N * list N) :=
  match t with
  | [] => None
  | c :: t1 =>
    if c =? 34 then Some ([], t1)
    else if c =? 92 then
      match t1 with
      | [] => None
      | e :: t2 =>
        if e =? 117 then
          match t2 with
          | a :: b :: c2 :: d :: t3 =>
            match hex4 a b c2 d with
            | None => None
            | Some v =>
              if is_high v then
                match t3 with
                | b1 :: u1 :: a' :: b' :: c' :: d' :: t4 =>
                  if (b1 =? 92) && (u1 =? 117) then
                    match hex4 a' b' c' d' with
                    | Some lo => if is_low lo then cons_res (combine_surrogates v lo) (parse_str t4)
                                 else None
                    | None => None
                    end
                  else None
                | _ => None
                end
              else if is_low v then None
              else cons_res v (parse_str t3)
            end
          | _ => None
          end
        else match simple_escape e with
             | Some ch => cons_res ch (parse_str t2)
             | None => None
             end
      end
    else if c <? 32 then None
    else cons_res c (parse_str t1)
  end.

Fixpoint strip_prefix (p t:list N) : option (list N) :=
  match p with
  | [] => Some t
  | x :: p' => match t with
               | [] => None
               | y :: t' => if x =? y then strip_prefix p' t' else None
               end
  end.

Definition parse_lit (lit:list N) (v:jvalue) (t:list N) : option (jvalue * list N) :=
  match strip_prefix lit t with Some r => Some (v, r) | None => None end.

Definition parse_number (t:list N) : option (jvalue * list N) :=
  let (d, r) := take_digits t in
  match num_of_uint d with Some n => Some (JNum n, r) | None => None end.

(* Fuel bounds the nesting of calls; every call of parse_value hands out at most one level to
   parse_elems / parse_members, which hands one level to parse_value again after consuming input.
   None on exhaustion. *)
Fixpoint parse_value (f:nat) (t:list N) : option (jvalue * list N) :=
  match f with
  | O => None
  | S f' =>
    match skip_ws t with
    | [] => None
    | c :: t1 =>
      if c =? 34 then
        match parse_str t1 with Some (s, r) => Some (JStr s, r) | None => None end
      else if c =? 91 then
        match skip_ws t1 with
        | [] => None
        | c2 :: t2 =>
          if c2 =? 93 then Some (JArr [], t2)
          else match parse_elems f' t1 with Some (l, r) => Some (JArr l, r) | None => None end
        end
      else if c =? 123 then
        match skip_ws t1 with
        | [] => None
        | c2 :: t2 =>
          if c2 =? 125 then Some (JObj [], t2)
          else match parse_members f' t1 with Some (m, r) => Some (JObj m, r) | None => None end
        end
      else if is_digit c then parse_number (c :: t1)
      else if c =? 116 then parse_lit lit_true (JBool true) (c :: t1)
      else if c =? 102 then parse_lit lit_false (JBool false) (c :: t1)
      else if c =? 110 then parse_lit lit_null JNull (c :: t1)
      else None
    end
  end
(* one or more values separated by commas, then `]` *)
with parse_elems (f:nat) (t:list N) : option (list jvalue * list N) :=
  match f with
  | O => None
  | S f' =>
    match parse_value f' t with
    | None => None
    | Some (v, t1) =>
      match skip_ws t1 with
      | [] => None
      | c :: t2 =>
        if c =? 44 then
          match parse_elems f' t2 with Some (l, r) => Some (v :: l, r) | None => None end
        else if c =? 93 then Some ([v], t2)
        else None
      end
    end
  end
(* one or more members (string, colon, value) separated by commas, then the closing brace *)
with parse_members (f:nat) (t:list N) : option (list (list N * jvalue) * list N) :=
  match f with
  | O => None
  | S f' =>
    match skip_ws t with
    | [] => None
    | q :: t0 =>
      if q =? 34 then
        match parse_str t0 with
        | None => None
        | Some (k, t1) =>
          match skip_ws t1 with
          | [] => None
          | c :: t2 =>
            if c =? 58 then
              match parse_value f' t2 with
              | None => None
              | Some (v, t3) =>
                match skip_ws t3 with
                | [] => None
                | c2 :: t4 =>
                  if c2 =? 44 then
                    match parse_members f' t4 with
                    | Some (m, r) => Some ((k, v) :: m, r)
                    | None => None
                    end
                  else if c2 =? 125 then Some ([(k, v)], t4)
                  else None
                end
              end
            else None
          end
        end
      else None
    end
  end.

(* Informally: a call at nesting depth d has consumed at least d/2 characters, so 2*length+1
   levels should suffice for any text; what is proved (JsonProofs.parse_value_print) is that any
   fuel above the length suffices on printer output. *)
Definition json_fuel (t:list N) : nat := S (2 * List.length t).

(* one value, optionally surrounded by whitespace, and nothing else *)
Definition parse_json (t:list N) : option jvalue :=
  match parse_value (json_fuel t) t with
  | Some (v, r) => match skip_ws r with [] => Some v | _ :: _ => None end
  | None => None
  end.

(* ------------------------------------------------------------------------------------------ *)
(* Schema: encoders (derived Serialize) and decoders (derived Deserialize, map form)           *)
(* ------------------------------------------------------------------------------------------ *)

Definition k_name : list N := Eval vm_compute in codes "name".
Definition k_patterns : list N := Eval vm_compute in codes "patterns".
Definition k_transitions : list N := Eval vm_compute in codes "transitions".
Definition k_pattern : list N := Eval vm_compute in codes "pattern".
Definition k_token_type : list N := Eval vm_compute in codes "token_type".
Definition k_lookahead : list N := Eval vm_compute in codes "lookahead".
Definition k_is_positive : list N := Eval vm_compute in codes "is_positive".
Definition k_start : list N := Eval vm_compute in codes "start".
Definition k_end : list N := Eval vm_compute in codes "end".
Definition k_line : list N := Eval vm_compute in codes "line".
Definition k_column : list N := Eval vm_compute in codes "column".
Definition k_span : list N := Eval vm_compute in codes "span".
Definition k_start_position : list N := Eval vm_compute in codes "start_position".
Definition k_end_position : list N := Eval vm_compute in codes "end_position".

Definition json_of_lookahead (l:lookahead) : jvalue :=
  JObj [(k_is_positive, JBool (la_positive l)); (k_pattern, JStr (la_pattern l))].
(* `lookahead` has skip_serializing_if = "Option::is_none" *)
Definition json_of_pattern (p:pattern) : jvalue :=
  JObj ((k_pattern, JStr (p_pattern p)) :: (k_token_type, JNum (p_token p)) ::
        match p_lookahead p with
        | None => []
        | Some l => [(k_lookahead, json_of_lookahead l)]
        end).
Definition json_of_transition (tr:N * N) : jvalue := JArr [JNum (fst tr); JNum (snd tr)].
Definition json_of_mode (m:mode) : jvalue :=
  JObj [(k_name, JStr (m_name m));
        (k_patterns, JArr (map json_of_pattern (m_patterns m)));
        (k_transitions, JArr (map json_of_transition (m_transitions m)))].
Definition json_of_config (c:config) : jvalue := JArr (map json_of_mode c).
Definition json_of_span (s:span) : jvalue :=
  JObj [(k_start, JNum (s_start s)); (k_end, JNum (s_end s))].
Definition json_of_position (p:position) : jvalue :=
  JObj [(k_line, JNum (line p)); (k_column, JNum (column p))].
Definition json_of_match (m:mtch) : jvalue :=
  JObj [(k_token_type, JNum (mt_token m)); (k_span, json_of_span (mt_span m))].
Definition json_of_match_ext (m:mtch_ext) : jvalue :=
  JObj [(k_token_type, JNum (me_token m)); (k_span, json_of_span (me_span m));
        (k_start_position, json_of_position (me_start m));
        (k_end_position, json_of_position (me_end m))].

Definition print_config (c:config) : list N := print_json (json_of_config c).
Definition print_span (s:span) : list N := print_json (json_of_span s).
Definition print_position (p:position) : list N := print_json (json_of_position p).
Definition print_match (m:mtch) : list N := print_json (json_of_match m).
Definition print_match_ext (m:mtch_ext) : list N := print_json (json_of_match_ext m).

(* --- decoders --- *)
Definition bind {A B} (o:option A) (f:A -> option B) : option B :=
  match o with Some x => f x | None => None end.

Fixpoint traverse {A B} (f:A -> option B) (l:list A) : option (list B) :=
  match l with
  | [] => Some []
  | x :: l' => match f x with
               | Some y => match traverse f l' with Some r => Some (y :: r) | None => None end
               | None => None
               end
  end.

Definition has_key (k:list N) (m:list (list N * jvalue)) : bool :=
  existsb (fun kv => nlist_eqb k (fst kv)) m.

(* lookup by name: None = the key occurs twice (serde: "duplicate field"),
   Some None = absent, Some (Some v) = present once. Keys that are never asked for are ignored. *)
Fixpoint field (k:list N) (m:list (list N * jvalue)) : option (option jvalue) :=
  match m with
  | [] => Some None
  | (k', v) :: m' =>
    if nlist_eqb k k' then (if has_key k m' then None else Some (Some v))
    else field k m'
  end.
Definition required (k:list N) (m:list (list N * jvalue)) : option jvalue :=
  match field k m with Some (Some v) => Some v | _ => None end.

Definition as_num (v:jvalue) : option N := match v with JNum n => Some n | _ => None end.
Definition as_str (v:jvalue) : option (list N) := match v with JStr s => Some s | _ => None end.
Definition as_bool (v:jvalue) : option bool := match v with JBool b => Some b | _ => None end.
Definition as_arr (v:jvalue) : option (list jvalue) := match v with JArr l => Some l | _ => None end.
Definition as_obj (v:jvalue) : option (list (list N * jvalue)) :=
  match v with JObj m => Some m | _ => None end.

Definition req_num k m := bind (required k m) as_num.
Definition req_str k m := bind (required k m) as_str.
Definition req_bool k m := bind (required k m) as_bool.
Definition req_arr k m := bind (required k m) as_arr.

Definition lookahead_of_json (v:jvalue) : option lookahead :=
  bind (as_obj v) (fun m =>
  bind (req_bool k_is_positive m) (fun b =>
  bind (req_str k_pattern m) (fun s =>
  Some {| la_positive := b; la_pattern := s |}))).

(* Option<Lookahead>: a missing key or `null` is None *)
Definition opt_lookahead (m:list (list N * jvalue)) : option (option lookahead) :=
  match field k_lookahead m with
  | None => None
  | Some None => Some None
  | Some (Some JNull) => Some None
  | Some (Some v) => match lookahead_of_json v with Some l => Some (Some l) | None => None end
  end.

Definition pattern_of_json (v:jvalue) : option pattern :=
  bind (as_obj v) (fun m =>
  bind (req_str k_pattern m) (fun s =>
  bind (req_num k_token_type m) (fun t =>
  bind (opt_lookahead m) (fun la =>
  Some {| p_pattern := s; p_token := t; p_lookahead := la |})))).

Definition transition_of_json (v:jvalue) : option (N * N) :=
  match v with
  | JArr [JNum a; JNum b] => Some (a, b)
  | _ => None
  end.

Definition mode_of_json (v:jvalue) : option mode :=
  bind (as_obj v) (fun m =>
  bind (req_str k_name m) (fun nm =>
  bind (req_arr k_patterns m) (fun ps =>
  bind (traverse pattern_of_json ps) (fun ps' =>
  bind (req_arr k_transitions m) (fun tr =>
  bind (traverse transition_of_json tr) (fun tr' =>
  Some {| m_name := nm; m_patterns := ps'; m_transitions := tr' |})))))).

Definition config_of_json (v:jvalue) : option config :=
  bind (as_arr v) (traverse mode_of_json).

Definition span_of_json (v:jvalue) : option span :=
  bind (as_obj v) (fun m =>
  bind (req_num k_start m) (fun a =>
  bind (req_num k_end m) (fun b =>
  Some {| s_start := a; s_end := b |}))).

Definition position_of_json (v:jvalue) : option position :=
  bind (as_obj v) (fun m =>
  bind (req_num k_line m) (fun a =>
  bind (req_num k_column m) (fun b =>
  Some {| line := a; column := b |}))).

Definition match_of_json (v:jvalue) : option mtch :=
  bind (as_obj v) (fun m =>
  bind (req_num k_token_type m) (fun t =>
  bind (bind (required k_span m) span_of_json) (fun s =>
  Some {| mt_token := t; mt_span := s |}))).

Definition match_ext_of_json (v:jvalue) : option mtch_ext :=
  bind (as_obj v) (fun m =>
  bind (req_num k_token_type m) (fun t =>
  bind (bind (required k_span m) span_of_json) (fun s =>
  bind (bind (required k_start_position m) position_of_json) (fun p1 =>
  bind (bind (required k_end_position m) position_of_json) (fun p2 =>
  Some {| me_token := t; me_span := s; me_start := p1; me_end := p2 |}))))).

Definition parse_with {A} (dec:jvalue -> option A) (t:list N) : option A :=
  match parse_json t with Some v => dec v | None => None end.
Definition parse_config (t:list N) : option config :=
  match parse_json t with Some v => config_of_json v | None => None end.
Definition parse_span : list N -> option span := parse_with span_of_json.
Definition parse_position : list N -> option position := parse_with position_of_json.
Definition parse_match : list N -> option mtch := parse_with match_of_json.
Definition parse_match_ext : list N -> option mtch_ext := parse_with match_ext_of_json.

(* ------------------------------------------------------------------------------------------ *)
(* Domain predicates                                                                           *)
(* ------------------------------------------------------------------------------------------ *)

(* Unicode scalar value: what a Rust `char` / `String` element can be *)
Definition is_scalar (c:N) : bool := (c <? 1114112) && negb ((55296 <=? c) && (c <? 57344)).
Definition scalar_text (s:list N) : bool := forallb is_scalar s.

Definition wf_lookahead (l:lookahead) : bool := scalar_text (la_pattern l).
Definition wf_pattern (p:pattern) : bool :=
  scalar_text (p_pattern p) &&
  match p_lookahead p with None => true | Some l => wf_lookahead l end.
Definition wf_mode (m:mode) : bool := scalar_text (m_name m) && forallb wf_pattern (m_patterns m).
Definition wf_configb (c:config) : bool := forallb wf_mode c.
(* every string of the configuration is a sequence of scalar values *)
Definition wf_config (c:config) : Prop := wf_configb c = true.

(* every string and key of a JSON value is a sequence of scalar values *)
Fixpoint jscalar (v:jvalue) : bool :=
  match v with
  | JStr s => scalar_text s
  | JArr l => forallb jscalar l
  | JObj m => forallb (fun kv => let '(k, x) := kv in scalar_text k && jscalar x) m
  | _ => true
  end.

(* the integer widths of the Rust types on a 64-bit target: usize < 2^64, TerminalID < 2^32.
   Not needed for the round trip of the model (N is unbounded); offered for strict reading. *)
Definition usize_ok (n:N) : bool := n <? 18446744073709551616.
Definition u32_ok (n:N) : bool := n <? 4294967296.
Definition in_range_pattern (p:pattern) : bool := usize_ok (p_token p).
Definition in_range_mode (m:mode) : bool :=
  forallb in_range_pattern (m_patterns m) &&
  forallb (fun tr => u32_ok (fst tr) && usize_ok (snd tr)) (m_transitions m).
Definition in_range_config (c:config) : bool := forallb in_range_mode c.
(* serde_json refuses numbers that do not fit the target integer type *)
Definition parse_config_strict (t:list N) : option config :=
  match parse_config t with
  | Some c => if in_range_config c then Some c else None
  | None => None
  end.

(* ------------------------------------------------------------------------------------------ *)
(* Concrete texts and values used by the examples of C16                                       *)
(* ------------------------------------------------------------------------------------------ *)

(* /repo/README.md, the json block of section "Scanner modes" (lines 146-162), verbatim including
   the line feed after the last bracket *)
Definition readme_json : list N := Eval vm_compute in codes "[
  {
    ""name"": ""INITIAL"",
    ""patterns"": [
      { ""pattern"": ""/\\*"", ""token_type"": 1}
    ],
    ""transitions"": [[1, 1]]
  },
  {
    ""name"": ""COMMENT"",
    ""patterns"": [
      { ""pattern"": ""\\*/"", ""token_type"": 2},
      { ""pattern"": ""[.\\r\\n]"", ""token_type"": 3}
    ],
    ""transitions"": [[2, 0]]
  }
]
".

Definition readme_config : config :=
  [ mk_mode (codes "INITIAL") [ mk_pattern (codes "/\*") 1 None ] [(1, 1)];
    mk_mode (codes "COMMENT") [ mk_pattern (codes "\*/") 2 None;
                                mk_pattern (codes "[.\r\n]") 3 None ] [(2, 0)] ].

(* quotes, backslashes, control characters with a short and with a \u00xx escape, DEL, a 2-byte
   and a 4-byte character, an absent and a present lookahead, empty lists *)
Definition sample_config : config :=
  [ mk_mode [65; 34; 92]
      [ mk_pattern [34; 92; 7; 10; 128512; 127; 233] 5 None;
        mk_pattern [] 0 (Some (false, [0; 31; 233; 34]));
        mk_pattern [97] 18446744073709551615 (Some (true, [98])) ]
      [(1, 2); (4294967295, 4)];
    mk_mode [] [] [] ].
