(* Dot.v — the Graphviz DOT export of compiled automata
   (scnr/src/internal/dot.rs: compiled_dfa_render / render_compiled_dfa, called from
   ScannerImpl::generate_compiled_automata_as_dot; dot_writer 0.1.4 with pretty printing),
   a printer and an extractor reading the graph back from the text.

   Text model: a file is a list of lines, a line a list of Unicode scalar values (N), without
   the terminating newline.  [render_text]/[split_lines] give the flat character sequence.

   The printer is structured as [line] records ([file_lines]) rendered to text ([print_line]);
   the extractor parses every line ([parse_line]) and then the line structure ([parse_file]). *)
From Scnr Require Import Base Automaton.
From Coq Require Import Ascii String Decimal.

(* String shadows List.length / List.concat: always written qualified below. *)

(* ---------- characters and string constants ---------- *)
Fixpoint str (s:string) : list N :=
  match s with EmptyString => [] | String a s' => N_of_ascii a :: str s' end.

Definition c_space : N := 32%N.
Definition c_quote : N := 34%N.
Definition c_bslash : N := 92%N.
Definition c_nl : N := 10%N.
Definition c_us : N := 95%N.

(* ---------- option monad ---------- *)
Definition bind {A B} (o:option A) (f:A -> option B) : option B :=
  match o with Some x => f x | None => None end.
Notation "'do' x <- e ; k" := (bind e (fun x => k)) (at level 200, x pattern, e at level 100, k at level 200).

Fixpoint mapM {A B} (f:A -> option B) (l:list A) : option (list B) :=
  match l with
  | [] => Some []
  | x :: l' => do y <- f x; do ys <- mapM f l'; Some (y :: ys)
  end.

(* ---------- literal prefixes ---------- *)
Fixpoint lit (p s:list N) : option (list N) :=
  match p with
  | [] => Some s
  | a :: p' => match s with
               | b :: s' => if N.eqb a b then lit p' s' else None
               | [] => None
               end
  end.

(* ---------- decimal numbers (to_string of usize / u32) ---------- *)
Fixpoint chars_of_uint (u:uint) : list N :=
  match u with
  | Nil => []
  | D0 u => 48%N :: chars_of_uint u | D1 u => 49%N :: chars_of_uint u
  | D2 u => 50%N :: chars_of_uint u | D3 u => 51%N :: chars_of_uint u
  | D4 u => 52%N :: chars_of_uint u | D5 u => 53%N :: chars_of_uint u
  | D6 u => 54%N :: chars_of_uint u | D7 u => 55%N :: chars_of_uint u
  | D8 u => 56%N :: chars_of_uint u | D9 u => 57%N :: chars_of_uint u
  end.
Definition decn (n:N) : list N := chars_of_uint (N.to_uint n).
Definition dnat (n:nat) : list N := decn (N.of_nat n).

Definition is_digit (c:N) : bool := N.leb 48 c && N.leb c 57.
Definition dcons (c:N) (u:uint) : uint :=
  match c with
  | 48%N => D0 u | 49%N => D1 u | 50%N => D2 u | 51%N => D3 u | 52%N => D4 u
  | 53%N => D5 u | 54%N => D6 u | 55%N => D7 u | 56%N => D8 u | _ => D9 u
  end.
Fixpoint uint_of_digits (ds:list N) : uint :=
  match ds with [] => Nil | c :: ds' => dcons c (uint_of_digits ds') end.
Fixpoint span_digits (s:list N) : list N * list N :=
  match s with
  | [] => ([], [])
  | c :: s' => if is_digit c then let (d, r) := span_digits s' in (c :: d, r) else ([], s)
  end.
(* a digit string denotes a number only if it is the canonical numeral: non-empty, no leading zeros *)
Definition num_of_digits (ds:list N) : option N :=
  let n := N.of_uint (uint_of_digits ds) in
  if nlist_eqb (decn n) ds then Some n else None.
Definition number (s:list N) : option (N * list N) :=
  let (ds, r) := span_digits s in
  do n <- num_of_digits ds; Some (n, r).

(* ---------- label texts ---------- *)
(* A quoted DOT string on one line: no raw newline, no raw double quote; a backslash escapes the
   next character (which must exist, otherwise it would escape the closing quote).  This is what
   str::escape_debug produces. *)
Fixpoint text_ok_aux (esc:bool) (s:list N) : bool :=
  match s with
  | [] => negb esc
  | c :: s' =>
      if N.eqb c c_nl then false
      else if esc then text_ok_aux false s'
      else if N.eqb c c_bslash then text_ok_aux true s'
      else if N.eqb c c_quote then false
      else text_ok_aux false s'
  end.
Definition text_ok (s:list N) : bool := text_ok_aux false s.

(* ---------- lines ---------- *)
Inductive nkind := KStart | KPlain | KAcc (t:N).
Inductive line :=
| LDigraph (ind:nat)                                       (* digraph {                       *)
| LLabel (ind:nat) (text:list N)                           (* label="<text>";                 *)
| LRankdir (ind:nat)                                       (* rankdir=LR;                     *)
| LNode (ind:nat) (pref:option N) (id:nat) (k:nkind)       (* "<pref_><id>" [.. label=".."];  *)
| LEdge (ind:nat) (pref:option N) (src dst:nat) (text:list N) (cls:N)
                                                           (* "<s>" -> "<d>" [label="<text> (C#<cls>)"]; *)
| LSub (ind:nat) (k:nat)                                   (* subgraph cluster_<k> {          *)
| LClose (ind:nat).                                        (* }                               *)

Definition indent_of (l:line) : nat :=
  match l with
  | LDigraph i | LLabel i _ | LRankdir i | LNode i _ _ _ | LEdge i _ _ _ _ _ | LSub i _ | LClose i => i
  end.

Definition pref_chars (p:option N) : list N :=
  match p with None => [] | Some t => decn t ++ [c_us] end.
Definition name_chars (p:option N) (id:nat) : list N :=
  [c_quote] ++ pref_chars p ++ dnat id ++ [c_quote].

Definition s_blue := str "shape=circle, color=blue, penwidth=3, label=""".
Definition s_red := str "shape=circle, color=red, penwidth=3, label=""".
Definition s_label := str "label=""".
Definition s_attr_end := str """];".
Definition s_cls_open := str " (C#".
Definition s_edge_end := str ")""];".
Definition s_label_end := str """;".

Definition node_attrs (id:nat) (k:nkind) : list N :=
  match k with
  | KStart => s_blue ++ dnat id ++ s_attr_end
  | KAcc t => s_red ++ dnat id ++ str " T" ++ decn t ++ s_attr_end
  | KPlain => s_label ++ dnat id ++ s_attr_end
  end.

Definition line_body (l:line) : list N :=
  match l with
  | LDigraph _ => str "digraph {"
  | LLabel _ text => s_label ++ text ++ s_label_end
  | LRankdir _ => str "rankdir=LR;"
  | LNode _ p id k => name_chars p id ++ str " [" ++ node_attrs id k
  | LEdge _ p s d text c =>
      name_chars p s ++ str " -> " ++ name_chars p d ++ str " [" ++ s_label ++
      text ++ s_cls_open ++ decn c ++ s_edge_end
  | LSub _ k => str "subgraph cluster_" ++ dnat k ++ str " {"
  | LClose _ => str "}"
  end.
Definition print_line (l:line) : list N := repeat c_space (indent_of l) ++ line_body l.

(* ---------- parsing one line ---------- *)
Fixpoint count_spaces (s:list N) : nat * list N :=
  match s with
  | c :: s' => if N.eqb c c_space then let (n, r) := count_spaces s' in (S n, r) else (0, s)
  | [] => (0, [])
  end.

Definition opt_eqb (a b:option N) : bool :=
  match a, b with None, None => true | Some x, Some y => N.eqb x y | _, _ => false end.

(* "<digits>" or "<digits>_<digits>" *)
Definition parse_name (s:list N) : option (option N * nat * list N) :=
  do r <- lit [c_quote] s;
  do ar <- number r;
  let (a, r1) := ar in
  match r1 with
  | c :: r2 =>
      if N.eqb c c_quote then Some (None, N.to_nat a, r2)
      else if N.eqb c c_us then
        do br <- number r2;
        let (b, r3) := br in
        do r4 <- lit [c_quote] r3;
        Some (Some a, N.to_nat b, r4)
      else None
  | [] => None
  end.

(* <digits> followed by the closing quote, bracket and semicolon; the number must equal the node id *)
Definition parse_plain_tail (id:nat) (r:list N) : bool :=
  match number r with
  | Some (n, r') => Nat.eqb (N.to_nat n) id && nlist_eqb r' s_attr_end
  | None => false
  end.
Definition parse_acc_tail (id:nat) (r:list N) : option N :=
  do nr <- number r;
  let (n, r1) := nr in
  do r2 <- lit (str " T") r1;
  do tr <- number r2;
  let (t, r3) := tr in
  if Nat.eqb (N.to_nat n) id && nlist_eqb r3 s_attr_end then Some t else None.

Definition parse_node_attrs (ind:nat) (p:option N) (id:nat) (r:list N) : option line :=
  match lit s_label r with
  | Some r1 => if parse_plain_tail id r1 then Some (LNode ind p id KPlain) else None
  | None =>
    match lit s_blue r with
    | Some r1 => if parse_plain_tail id r1 then Some (LNode ind p id KStart) else None
    | None =>
      do r1 <- lit s_red r;
      do t <- parse_acc_tail id r1;
      Some (LNode ind p id (KAcc t))
    end
  end.

(* <text> (C#<digits>) and the closing quote, bracket, semicolon; read from the END: the class id
   is the LAST (C#n) of the label, whatever the text before it contains *)
Definition parse_edge_tail (r:list N) : option (list N * N) :=
  do r1 <- lit (List.rev s_edge_end) (List.rev r);
  let (ds, r2) := span_digits r1 in
  do r3 <- lit (List.rev s_cls_open) r2;
  do c <- num_of_digits (List.rev ds);
  let text := List.rev r3 in
  if text_ok text then Some (text, c) else None.

Definition parse_stmt (ind:nat) (s:list N) : option line :=
  do x <- parse_name s;
  let '(p, id, r) := x in
  match lit (str " [") r with
  | Some r1 => parse_node_attrs ind p id r1
  | None =>
    do r1 <- lit (str " -> ") r;
    do y <- parse_name r1;
    let '(p', dst, r2) := y in
    do r3 <- lit (str " [") r2;
    do r4 <- lit s_label r3;
    do tc <- parse_edge_tail r4;
    let (text, c) := tc in
    if opt_eqb p p' then Some (LEdge ind p id dst text c) else None
  end.

Definition parse_label (ind:nat) (s:list N) : option line :=
  do r1 <- lit s_label s;
  do r2 <- lit (List.rev s_label_end) (List.rev r1);
  Some (LLabel ind (List.rev r2)).

Definition parse_sub (ind:nat) (s:list N) : option line :=
  do r1 <- lit (str "subgraph cluster_") s;
  do kr <- number r1;
  let (k, r2) := kr in
  if nlist_eqb r2 (str " {") then Some (LSub ind (N.to_nat k)) else None.

Definition parse_body (ind:nat) (s:list N) : option line :=
  match s with
  | 34%N :: _ => parse_stmt ind s
  | 108%N :: _ => parse_label ind s
  | 100%N :: _ => if nlist_eqb s (str "digraph {") then Some (LDigraph ind) else None
  | 114%N :: _ => if nlist_eqb s (str "rankdir=LR;") then Some (LRankdir ind) else None
  | 115%N :: _ => parse_sub ind s
  | 125%N :: _ => if nlist_eqb s (str "}") then Some (LClose ind) else None
  | _ => None
  end.

Definition parse_line (s:list N) : option line :=
  let (ind, r) := count_spaces s in parse_body ind r.

(* ---------- the graph model ---------- *)
Record graph := { g_nodes : list (nat * option N);   (* state id, Some token type iff rendered as accepting *)
                  g_edges : list (nat * nat * N) }.  (* from, to, class id — in file order *)
Record dotfile := { d_main : graph; d_clusters : list (N * bool * graph) }.

(* ---------- parsing the line structure ---------- *)
Definition la_label (t:N) (pos:bool) : list N :=
  str "LA for T" ++ decn t ++ (if pos then str "(Pos)" else str "(Neg)").
Definition parse_la (s:list N) : option (N * bool) :=
  do r <- lit (str "LA for T") s;
  do tr <- number r;
  let (t, r1) := tr in
  if nlist_eqb r1 (str "(Pos)") then Some (t, true)
  else if nlist_eqb r1 (str "(Neg)") then Some (t, false)
  else None.

Definition scope_ind (cur:option N) : nat := match cur with None => 2 | Some _ => 4 end.
Definition is_nil {A} (l:list A) : bool := match l with [] => true | _ => false end.

(* [scopes k cur ls]: the statements of the current scope ([cur] = None: the digraph; Some t: the
   cluster of token type t, whose node names carry the prefix "t_"), then the clusters that
   follow; k is the number the next cluster must carry. *)
Fixpoint scopes (k:nat) (cur:option N) (ls:list line) {struct ls}
  : option (list line * list (N * bool * list line)) :=
  match ls with
  | [] => None
  | l :: ls' =>
    match l with
    | LNode i p _ _ | LEdge i p _ _ _ _ =>
        if Nat.eqb i (scope_ind cur) && opt_eqb p cur then
          do r <- scopes k cur ls';
          let (items, cls) := r in Some (l :: items, cls)
        else None
    | LClose i =>
        match cur with
        | None => if Nat.eqb i 0 && is_nil ls' then Some ([], []) else None
        | Some _ =>
            if Nat.eqb i 2 then
              do r <- scopes k None ls';
              let (items, cls) := r in
              if is_nil items then Some ([], cls) else None
            else None
        end
    | LSub i k' =>
        match cur with
        | Some _ => None
        | None =>
          match ls' with
          | LLabel i2 text :: ls'' =>
              if Nat.eqb i 2 && Nat.eqb k' k && Nat.eqb i2 4 then
                do tp <- parse_la text;
                let (t, pos) := tp in
                do r <- scopes (S k) (Some t) ls'';
                let (items, cls) := r in
                Some ([], (t, pos, items) :: cls)
              else None
          | _ => None
          end
        end
    | _ => None
    end
  end.

(* the statements of one scope: node lines, then edge lines *)
Fixpoint span_nodes (ls:list line) : list (nat * nkind) * list line :=
  match ls with
  | LNode _ _ id k :: ls' => let (ns, r) := span_nodes ls' in ((id, k) :: ns, r)
  | _ => ([], ls)
  end.
Definition edge_entry (l:line) : option (nat * nat * N) :=
  match l with LEdge _ _ s d _ c => Some (s, d, c) | _ => None end.
(* state 0 and only state 0 is the blue start node *)
Definition node_entry (x:nat * nkind) : option (nat * option N) :=
  let (id, k) := x in
  match k with
  | KStart => if Nat.eqb id 0 then Some (id, None) else None
  | KPlain => if Nat.eqb id 0 then None else Some (id, None)
  | KAcc t => if Nat.eqb id 0 then None else Some (id, Some t)
  end.
(* node ids are 0..n-1 in order, every edge joins declared nodes *)
Definition graph_ok (g:graph) : bool :=
  let n := List.length (g_nodes g) in
  natlist_eqb (map fst (g_nodes g)) (seq 0 n)
  && forallb (fun e => Nat.ltb (fst (fst e)) n && Nat.ltb (snd (fst e)) n) (g_edges g).
Definition graph_of_items (ls:list line) : option graph :=
  let (ns, rest) := span_nodes ls in
  do nodes <- mapM node_entry ns;
  do edges <- mapM edge_entry rest;
  let g := {| g_nodes := nodes; g_edges := edges |} in
  if graph_ok g then Some g else None.

Definition cluster_of_items (x:N * bool * list line) : option (N * bool * graph) :=
  let '(t, pos, items) := x in
  do g <- graph_of_items items; Some (t, pos, g).

Definition parse_file (ls:list line) : option dotfile :=
  match ls with
  | LDigraph 0 :: LLabel 2 _ :: LRankdir 2 :: rest =>
      do r <- scopes 0 None rest;
      let (items, cls) := r in
      do g <- graph_of_items items;
      do cl <- mapM cluster_of_items cls;
      Some {| d_main := g; d_clusters := cl |}
  | _ => None
  end.

Definition extract (lines:list (list N)) : option dotfile :=
  do ls <- mapM parse_line lines; parse_file ls.

(* ---------- the printer ---------- *)
Definition nstates (A:dfa) : nat := List.length (trans A).
(* render_compiled_dfa: `if id == 0 {blue} else if end_states[id].0 {red, "id Tt"} else {plain}` *)
Definition node_kind (A:dfa) (q:nat) : nkind :=
  if Nat.eqb q 0 then KStart
  else match nth q (fin A) (false, 0%N) with (true, t) => KAcc t | (false, _) => KPlain end.
Definition kind_label (k:nkind) : option N := match k with KAcc t => Some t | _ => None end.

Definition edges_from (q:nat) (es:list (N * nat)) : list (nat * nat * N) :=
  map (fun e => (q, snd e, fst e)) es.
Definition graph_of (A:dfa) : graph :=
  {| g_nodes := map (fun q => (q, kind_label (node_kind A q))) (seq 0 (nstates A));
     g_edges := flat_map (fun x => edges_from (fst x) (snd x)) (combine (seq 0 (nstates A)) (trans A)) |}.
Definition dotfile_of (M:dfa * list (N * (bool * dfa))) : dotfile :=
  {| d_main := graph_of (fst M);
     d_clusters := map (fun x => (fst x, fst (snd x), graph_of (snd (snd x)))) (snd M) |}.

Definition edge_line (ind:nat) (pref:option N) (cls_text:N -> list N) (e:nat * nat * N) : line :=
  LEdge ind pref (fst (fst e)) (snd (fst e)) (cls_text (snd e)) (snd e).
Definition graph_lines (ind:nat) (pref:option N) (cls_text:N -> list N) (A:dfa) : list line :=
  map (fun q => LNode ind pref q (node_kind A q)) (seq 0 (nstates A))
  ++ map (edge_line ind pref cls_text) (g_edges (graph_of A)).
Fixpoint clusters_lines (cls_text:N -> list N) (k:nat) (las:list (N * (bool * dfa))) : list line :=
  match las with
  | [] => []
  | (t, (pos, A)) :: las' =>
      LSub 2 k :: LLabel 4 (la_label t pos) :: graph_lines 4 (Some t) cls_text A
      ++ LClose 2 :: clusters_lines cls_text (S k) las'
  end.
Definition file_lines (title:list N) (cls_text:N -> list N) (M:dfa * list (N * (bool * dfa))) : list line :=
  LDigraph 0 :: LLabel 2 title :: LRankdir 2 ::
  graph_lines 2 None cls_text (fst M) ++ clusters_lines cls_text 0 (snd M) ++ [LClose 0].

Definition render (title:list N) (cls_text:N -> list N) (M:dfa * list (N * (bool * dfa))) : list (list N) :=
  map print_line (file_lines title cls_text M).

(* ---------- the flat text ---------- *)
Definition render_text (title:list N) (cls_text:N -> list N) (M:dfa * list (N * (bool * dfa))) : list N :=
  List.concat (map (fun l => l ++ [c_nl]) (render title cls_text M)).
Fixpoint split_lines_aux (cur:list N) (s:list N) : list (list N) :=
  match s with
  | [] => if is_nil cur then [] else [List.rev cur]
  | c :: s' => if N.eqb c c_nl then List.rev cur :: split_lines_aux [] s' else split_lines_aux (c :: cur) s'
  end.
Definition split_lines (s:list N) : list (list N) := split_lines_aux [] s.
Definition extract_text (s:list N) : option dotfile := extract (split_lines s).
Definition no_nl (s:list N) : bool := forallb (fun c => negb (N.eqb c c_nl)) s.

(* ---------- hypotheses of the round trip ---------- *)
Definition wf_graph (A:dfa) : bool :=
  Nat.eqb (List.length (trans A)) (List.length (fin A))
  && forallb (fun es => forallb (fun e => Nat.ltb (snd e) (List.length (trans A))) es) (trans A).
Definition wf_dot (M:dfa * list (N * (bool * dfa))) : bool :=
  wf_graph (fst M) && forallb (fun x => wf_graph (snd (snd x))) (snd M).

Definition classes_of (A:dfa) : list N := map fst (List.concat (trans A)).
Definition used_classes (M:dfa * list (N * (bool * dfa))) : list N :=
  classes_of (fst M) ++ flat_map (fun x => classes_of (snd (snd x))) (snd M).
Definition label_safe (cls_text:N -> list N) (M:dfa * list (N * (bool * dfa))) : Prop :=
  forall c, In c (used_classes M) -> text_ok (cls_text c) = true.
Definition label_safeb (cls_text:N -> list N) (M:dfa * list (N * (bool * dfa))) : bool :=
  forallb (fun c => text_ok (cls_text c)) (used_classes M).

(* ---------- file names: format!("{}/{}_{}.dot", folder, prefix, mode_name) ---------- *)
Definition file_name (folder prefix name:list N) : list N :=
  folder ++ str "/" ++ prefix ++ str "_" ++ name ++ str ".dot".
Definition file_names (folder prefix:list N) (names:list (list N)) : list (list N) :=
  map (file_name folder prefix) names.

(* ---------- interface for machine-generated test files (all numerals in N) ---------- *)
Definition mk_dfa_dot (tr:list (list (N * N))) (fi:list (bool * N)) : dfa :=
  {| trans := map (map (fun e => (fst e, N.to_nat (snd e)))) tr; fin := fi; tids := [] |}.

(* canonical flat encoding:
     [1; #clusters] ; graph ; for each cluster: [3; token type; 1 if positive else 0] ; graph
   graph = [#nodes; #edges] ; per node [0; id] or [1; id; token type] ; per edge [2; from; to; class] *)
Definition enc_graph (g:graph) : list (list N) :=
  [N.of_nat (List.length (g_nodes g)); N.of_nat (List.length (g_edges g))]
  :: map (fun x : nat * option N => match snd x with
                   | None => [0%N; N.of_nat (fst x)]
                   | Some t => [1%N; N.of_nat (fst x); t]
                   end) (g_nodes g)
  ++ map (fun e : nat * nat * N => [2%N; N.of_nat (fst (fst e)); N.of_nat (snd (fst e)); snd e]) (g_edges g).
Definition enc_dotfile (d:dotfile) : list (list N) :=
  [1%N; N.of_nat (List.length (d_clusters d))] :: enc_graph (d_main d)
  ++ flat_map (fun x : N * bool * graph => [3%N; fst (fst x); if snd (fst x) then 1%N else 0%N] :: enc_graph (snd x))
       (d_clusters d).
Definition extract_enc (lines:list (list N)) : list (list N) :=
  match extract lines with None => [[0%N]] | Some d => enc_dotfile d end.
