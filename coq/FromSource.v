(* FromSource.v — the chain from the parser's leaves to the token stream, in one statement:
   leaves are registered (Registry.assign, any equality sound for the denotation), the patterns are
   relabelled by class ids, compiled by the pipeline model (EndToEnd.build_scanner) and driven by the
   iterator model with the registry's match function; for every history the outputs are those of the
   specification-driven iterator over the ORIGINAL patterns with the leaves' own denotations. *)
From Scnr Require Import Base Regex Automaton FindFrom Spec SpecRun Iter IterRun Nfa Compile CompileProofs
  ExtProofs EndToEnd Registry SpecExt.

Definition relabel_pat (f:N -> N) (p:src_pat) : src_pat :=
  {| s_tok := s_tok p; s_ast := relabel f (s_ast p);
     s_la := match s_la p with Some (pos, a) => Some (pos, relabel f a) | None => None end |}.
Definition relabel_mode (f:N -> N) (m:src_mode) : src_mode :=
  {| s_pats := map (relabel_pat f) (s_pats m); s_trans := s_trans m |}.

Section FS.
Variable L : Type.
Variable eqc : L -> L -> bool.
Variable den : L -> N -> bool.
Hypothesis eqc_sound : forall a b, eqc a b = true -> forall c, den a c = den b c.
Variable occ : list L.
Variable ids : list nat.
Variable reg : list L.
Hypothesis Hassign : assign L eqc [] occ = (ids, reg).

Notation f := (id_of ids).
Notation tblR := (tbl_of L den reg).
Notation tblO := (den_occ L den occ).

(* every leaf number in the patterns is an occurrence *)
Definition ast_leaves_ok (a:ast) : Prop := forall r, core_of_ast a = Some r -> re_leaves_ok L occ r.
Definition pat_leaves_ok (p:src_pat) : Prop :=
  ast_leaves_ok (s_ast p) /\ match s_la p with Some (_, a) => ast_leaves_ok a | None => True end.

Lemma req_relabel r : re_leaves_ok L occ r -> req tblR tblO (map_re f r) r.
Proof.
  intros Hok w. rewrite mt_map_re. apply (mt_leaves_ok_ext L occ); [exact Hok|].
  intros k c Hk. unfold id_of, den_occ.
  destruct (nth_error occ (N.to_nat k)) as [l|] eqn:El; [|apply nth_error_None in El; lia].
  destruct (assign_denotes L eqc den eqc_sound occ ids reg Hassign _ _ El) as (i & Hi & Hd). rewrite Hi. apply Hd.
Qed.

Lemma mk_relabel p sp0 : pat_leaves_ok p -> mk p = Some sp0 ->
  exists sp, mk (relabel_pat f p) = Some sp /\ pateq tblR tblO sp sp0.
Proof.
  intros (Ha & Hl) Hm. unfold mk, mk_spat in *. cbn [relabel_pat s_tok s_ast s_la].
  rewrite core_relabel. destruct (core_of_ast (s_ast p)) as [r|] eqn:Er; [|discriminate]. cbn [option_map].
  destruct (s_la p) as [[pos al]|].
  - rewrite core_relabel. destruct (core_of_ast al) as [rl|] eqn:El; [|discriminate]. cbn [option_map].
    inversion Hm; subst sp0. eexists. split; [reflexivity|]. unfold pateq. cbn [sp_tok sp_re sp_la].
    split; [reflexivity|]. split; [apply req_relabel; apply Ha; exact Er|]. cbn. split; [reflexivity|apply req_relabel; apply Hl; exact El].
  - inversion Hm; subst sp0. eexists. split; [reflexivity|]. unfold pateq. cbn [sp_tok sp_re sp_la].
    split; [reflexivity|]. split; [apply req_relabel; apply Ha; exact Er|exact I].
Qed.

Lemma spec_mode_relabel m sm0 : (forall p, In p (s_pats m) -> pat_leaves_ok p) -> spec_mode m = Some sm0 ->
  exists sm, spec_mode (relabel_mode f m) = Some sm /\ modeeq tblR tblO sm sm0.
Proof.
  unfold spec_mode. cbn [relabel_mode s_pats s_trans]. fold mk.
  change (fun p => mk_spat (s_tok p) (s_ast p) (s_la p)) with mk.
  destruct (all_some (map mk (s_pats m))) as [sps0|] eqn:E0; [|discriminate]. intros Hok H; inversion H; subst sm0. clear H.
  assert (Hex : exists sps, all_some (map mk (map (relabel_pat f) (s_pats m))) = Some sps /\ Forall2 (pateq tblR tblO) sps sps0).
  { revert sps0 E0 Hok. induction (s_pats m) as [|p ps IH]; intros sps0 E0 Hok; cbn [map all_some] in *.
    - inversion E0; subst. exists []. split; [reflexivity|constructor].
    - destruct (mk p) as [sp0|] eqn:Ep; [|discriminate]. destruct (all_some (map mk ps)) as [r0|] eqn:Er; [|discriminate].
      inversion E0; subst sps0.
      destruct (mk_relabel p sp0 (Hok p (or_introl eq_refl)) Ep) as (sp & Es & Hpe). rewrite Es.
      destruct (IH r0 eq_refl (fun q Hq => Hok q (or_intror Hq))) as (sps & E1 & HF). rewrite E1.
      exists (sp :: sps). split; [reflexivity|constructor; assumption]. }
  destruct Hex as (sps & E1 & HF). change (fun p => mk_spat (s_tok p) (s_ast p) (s_la p)) with mk. rewrite E1.
  eexists. split; [reflexivity|]. split; [exact HF|reflexivity].
Qed.

Variable l0 : list src_mode.                 (* the configuration over the parser's leaves *)
Hypothesis Hleaves : forall m, In m l0 -> forall p, In p (s_pats m) -> pat_leaves_ok p.
Variable sms0 : list smode.
Hypothesis Hspec0 : spec_of_scanner l0 = Some sms0.

Lemma spec_relabelled : exists sms, spec_of_scanner (map (relabel_mode f) l0) = Some sms /\ Forall2 (modeeq tblR tblO) sms sms0.
Proof.
  unfold spec_of_scanner in *. revert sms0 Hspec0 Hleaves. induction l0 as [|m ms IH]; intros sms1 Hs Hl; cbn [map all_some] in *.
  - inversion Hs; subst. exists []. split; [reflexivity|constructor].
  - destruct (spec_mode m) as [sm0|] eqn:Em; [|discriminate]. destruct (all_some (map spec_mode ms)) as [r0|] eqn:Er; [|discriminate].
    inversion Hs; subst sms1.
    destruct (spec_mode_relabel m sm0 (Hl m (or_introl eq_refl)) Em) as (sm & Es & Hme). rewrite Es.
    destruct (IH r0 eq_refl (fun q Hq => Hl q (or_intror Hq))) as (sms & E1 & HF). rewrite E1.
    exists (sm :: sms). split; [reflexivity|constructor; assumption].
Qed.

Variable cms : list cmode.
Hypothesis Hbuild : build_scanner (map (relabel_mode f) l0) = Some cms.
Hypothesis Hvalid : forall m, In m (map (relabel_mode f) l0) -> mode_valid m.

(* FROM THE PARSER'S LEAVES TO THE TOKENS, every history *)
Theorem scanner_from_source_is_specification ops st :
  run_ops (impl_scanner tblR cms) st ops = run_ops (spec_scanner tblO sms0) st ops.
Proof.
  destruct spec_relabelled as (sms & Es & HF).
  rewrite (compiled_scanner_is_specification tblR _ cms sms Hbuild Es Hvalid ops st).
  apply spec_scanner_ext. exact HF.
Qed.
End FS.

(* ---------- non-vacuity: the hypotheses of the top theorem hold for a concrete configuration ----------
   leaves are characters (denotation: equality), the parser produced a, b, a (occurrences 0, 1, 2);
   pattern 0 = "ab" (token 1), pattern 1 = "a" followed by "b" (positive lookahead) (token 2) *)
Definition ex_occ : list N := [97; 98; 97; 98]%N.
Definition ex_l0 : list src_mode :=
  [ {| s_pats := [ {| s_tok := 1%N; s_ast := AConcat [ALeaf 0; ALeaf 1]; s_la := None |};
                   {| s_tok := 2%N; s_ast := ALeaf 2; s_la := Some (true, ALeaf 3) |} ];
       s_trans := [] |} ].
Lemma ex_from_source :
  (forall a b, N.eqb a b = true -> forall c, N.eqb a c = N.eqb b c)
  /\ assign N N.eqb [] ex_occ = ([0; 1; 0; 1], [97; 98]%N)
  /\ (forall m, In m ex_l0 -> forall p, In p (s_pats m) -> pat_leaves_ok N ex_occ p)
  /\ (exists sms0, spec_of_scanner ex_l0 = Some sms0)
  /\ (exists cms, build_scanner (map (relabel_mode (id_of [0; 1; 0; 1])) ex_l0) = Some cms)
  /\ (forall m, In m (map (relabel_mode (id_of [0; 1; 0; 1])) ex_l0) -> mode_valid m).
Proof.
  split; [intros a b H c; apply N.eqb_eq in H; subst; reflexivity|].
  split; [vm_compute; reflexivity|].
  split.
  { intros m [<-|[]] p [<-|[<-|[]]]; split; cbn.
    - intros r H. vm_compute in H. inversion H; subst. cbn. repeat split; lia.
    - exact I.
    - intros r H. vm_compute in H. inversion H; subst. cbn. lia.
    - intros r H. vm_compute in H. inversion H; subst. cbn. lia. }
  split; [destruct (spec_of_scanner ex_l0) as [s|] eqn:E; [eauto|vm_compute in E; discriminate]|].
  split; [destruct (build_scanner (map (relabel_mode (id_of [0; 1; 0; 1])) ex_l0)) as [s|] eqn:E; [eauto|vm_compute in E; discriminate]|].
  intros m [<-|[]]. apply mode_validb_ok. vm_compute. reflexivity.
Qed.
