(* EquivCheck.v — verified decision procedures run inside the kernel on concrete programs:
   equiv_check: a compiled automaton accepts, for every non-empty word over the minterm
   alphabet, exactly the token types whose pattern matches the word (product exploration of
   Brzozowski-derivative vectors x state sets); aut_equiv_check: two automata accept the same
   token types for every word. Soundness proved once, for all automata and patterns. *)
From Coq Require Import FMapPositive.
From Scnr Require Import Base Regex Automaton.

(* ---------- an indexed visited set: buckets in a positive trie, keyed by the state set ---------- *)
(* Membership in the visited set is by far the most frequent operation of the explorations; a
   linear scan makes them quadratic in the number of reachable pairs. The index maps a key
   (computed from the state-set component) to the bucket of elements with that key; membership
   compares only within the bucket. Soundness (a member of the index built from a list is an
   element of the list) is all the checkers need. *)
Section Idx.
Variable X : Type.
Variable key : X -> positive.
Variable xeqb : X -> X -> bool.
Hypothesis xeqb_eq : forall a b, xeqb a b = true -> a = b.

Definition index := PositiveMap.t (list X).
Definition bucket (k:positive) (m:index) : list X := match PositiveMap.find k m with Some l => l | None => [] end.
Definition idx_add (x:X) (m:index) : index := PositiveMap.add (key x) (x :: bucket (key x) m) m.
Definition idx_mem (x:X) (m:index) : bool := existsb (xeqb x) (bucket (key x) m).
Definition build_index (l:list X) : index := fold_left (fun m x => idx_add x m) l (PositiveMap.empty (list X)).

Lemma idx_add_sound x m L : (forall k y, In y (bucket k m) -> In y L) -> forall k y, In y (bucket k (idx_add x m)) -> In y (x :: L).
Proof.
  intros H k y. unfold idx_add, bucket at 1. destruct (Pos.eq_dec k (key x)) as [->|Hne].
  - rewrite PositiveMap.gss. intros [<-|Hy]; [left; reflexivity|right; eapply H; eauto].
  - rewrite PositiveMap.gso by exact Hne. intros Hy. right. eapply H. unfold bucket. exact Hy.
Qed.

Lemma fold_idx_sound l : forall m L, (forall k y, In y (bucket k m) -> In y L) ->
  forall k y, In y (bucket k (fold_left (fun m x => idx_add x m) l m)) -> In y (rev l ++ L).
Proof.
  induction l as [|x l IH]; intros m L H k y Hy; cbn [fold_left] in Hy; [cbn; eapply H; eauto|].
  cbn [rev]. rewrite <- app_assoc. cbn [app]. eapply (IH (idx_add x m) (x :: L)); [|exact Hy].
  apply idx_add_sound. exact H.
Qed.

Lemma idx_mem_build x l : idx_mem x (build_index l) = true -> In x l.
Proof.
  unfold idx_mem, build_index. rewrite existsb_exists. intros (y & Hy & E). apply xeqb_eq in E. subst y.
  assert (H : In x (rev l ++ [])).
  { eapply fold_idx_sound; [|exact Hy]. intros k y. unfold bucket. rewrite PositiveMap.gempty. intros []. }
  rewrite app_nil_r in H. apply in_rev. exact H.
Qed.
End Idx.

(* key of a state set: the list read as digits in base 2^16 (injective for ids < 65535; only
   performance depends on that, soundness never) *)
Definition key_of (S:list nat) : positive :=
  fold_left (fun acc q => (acc * 65536 + Pos.of_succ_nat q)%positive) S 1%positive.

Section Check.
Variable tbll : N -> N -> bool.     (* leaf id -> minterm -> bool, interprets the patterns *)
Variable tblc : N -> N -> bool.     (* class id -> minterm -> bool, interprets the automaton *)

(* ---------- product exploration ---------- *)
Definition vec := list (N * re).
Definition dvec (c:N) (v:vec) : vec := map (fun p => (fst p, deriv tbll c (snd p))) v.
Fixpoint dvec_w (w:list N) (v:vec) := match w with [] => v | c::w => dvec_w w (dvec c v) end.

Fixpoint ninsert (x:N) (l:list N) := match l with
  | [] => [x] | y::l' => if N.ltb x y then x::l else if N.eqb x y then l else y :: ninsert x l' end.
Definition nnorm (l:list N) := fold_right ninsert [] l.
Lemma ninsert_in x l y : In y (ninsert x l) <-> y = x \/ In y l.
Proof.
  induction l as [|z l IH]; cbn [ninsert In].
  - intuition congruence.
  - destruct (N.ltb x z); [cbn [In]; intuition congruence|].
    destruct (N.eqb x z) eqn:E2.
    + apply N.eqb_eq in E2; subst. cbn [In]. intuition congruence.
    + cbn [In]. rewrite IH. intuition congruence.
Qed.
Lemma nnorm_in l y : In y (nnorm l) <-> In y l.
Proof. induction l; cbn [nnorm fold_right In]; [tauto|]. fold (nnorm l). rewrite ninsert_in, IHl. intuition congruence. Qed.

Definition nul_toks (v:vec) : list N := nnorm (flat_map (fun p => if nullable (snd p) then [fst p] else []) v).
Definition acc_toks (A:dfa) (S:list nat) : list N :=
  nnorm (flat_map (fun q => match nth q (fin A) (false,0%N) with (true,t) => [t] | _ => [] end) S).

Fixpoint nlist_eqb (a b:list N) := match a,b with [],[] => true | x::a,y::b => N.eqb x y && nlist_eqb a b | _,_ => false end.
Lemma nlist_eqb_eq a b : nlist_eqb a b = true -> a = b.
Proof. revert b; induction a; destruct b; cbn; try discriminate; auto.
  intros H; apply andb_true_iff in H as [H1 H2]. apply N.eqb_eq in H1. f_equal; auto. Qed.
Fixpoint natlist_eqb (a b:list nat) := match a,b with [],[] => true | x::a,y::b => Nat.eqb x y && natlist_eqb a b | _,_ => false end.
Lemma natlist_eqb_eq a b : natlist_eqb a b = true -> a = b.
Proof. revert b; induction a; destruct b; cbn; try discriminate; auto.
  intros H; apply andb_true_iff in H as [H1 H2]. apply Nat.eqb_eq in H1. f_equal; auto. Qed.
Fixpoint vec_eqb (a b:vec) := match a,b with [],[] => true
  | (t,r)::a,(t',r')::b => if N.eqb t t' then if re_eqb r r' then vec_eqb a b else false else false | _,_ => false end.
Lemma vec_eqb_eq a b : vec_eqb a b = true -> a = b.
Proof. revert b; induction a as [|[t r] a IH]; destruct b as [|[t' r'] b]; cbn; try discriminate; auto.
  intros H. destruct (N.eqb t t') eqn:H1; [|discriminate]. destruct (re_eqb r r') eqn:H2; [|discriminate].
  apply N.eqb_eq in H1. apply re_eqb_eq in H2. f_equal; [congruence|auto]. Qed.

Definition pair := (vec * list nat)%type.
Definition pair_eqb (p q:pair) := if natlist_eqb (snd p) (snd q) then vec_eqb (fst p) (fst q) else false.
Lemma pair_eqb_eq p q : pair_eqb p q = true -> p = q.
Proof. destruct p as [v1 s1], q as [v2 s2]; unfold pair_eqb; cbn. intros H. destruct (natlist_eqb s1 s2) eqn:H2; [|discriminate].
  apply vec_eqb_eq in H. apply natlist_eqb_eq in H2. congruence. Qed.
Definition pmem (p:pair) (l:list pair) := existsb (pair_eqb p) l.
Lemma pmem_in p l : pmem p l = true -> In p l.
Proof. unfold pmem. rewrite existsb_exists. intros (q & I & E). apply pair_eqb_eq in E. congruence. Qed.

Definition succ (A:dfa) (p:pair) (c:N) : pair := (dvec c (fst p), stepn tblc A (snd p) c).
Definition consistent (A:dfa) (p:pair) := nlist_eqb (nul_toks (fst p)) (acc_toks A (snd p)).

Definition pkey (p:pair) : positive := key_of (snd p).
Definition pidx_mem (p:pair) (m:index pair) : bool := idx_mem pair pkey pair_eqb p m.

(* unverified search for the set of reachable pairs; its result is re-validated *)
Fixpoint explore (A:dfa) (ms:list N) (fuel:nat) (todo seen:list pair) (idx:index pair) : option (list pair) :=
  match fuel with O => None | S f =>
  match todo with [] => Some seen | p::todo =>
    let '(todo',seen',idx') := fold_left (fun ts c => let '(td,sn,ix) := ts in let q := succ A p c in
                              if pidx_mem q ix then ts else (q :: td, q :: sn, idx_add pair pkey q ix)) ms (todo,seen,idx) in
    explore A ms f todo' seen' idx' end end.

Definition validate (A:dfa) (ms:list N) (init:pair) (seen:list pair) : bool :=
  let idx := build_index pair pkey seen in
  forallb (fun c => pidx_mem (succ A init c) idx) ms
  && forallb (fun p => forallb (fun c => pidx_mem (succ A p c) idx) ms) seen
  && forallb (consistent A) seen.

Definition equiv_check (A:dfa) (ms:list N) (rs:vec) (fuel:nat) : bool :=
  let init : pair := (rs, [0]) in
  let first := map (succ A init) ms in
  match explore A ms fuel first first (build_index pair pkey first) with
  | Some seen => validate A ms init seen
  | None => false end.

Lemma pidx_mem_in p l : pidx_mem p (build_index pair pkey l) = true -> In p l.
Proof. apply idx_mem_build. apply pair_eqb_eq. Qed.

(* ---------- soundness ---------- *)
Definition pair_after (A:dfa) (p:pair) (w:list N) : pair := (dvec_w w (fst p), runn tblc A (snd p) w).

Lemma pair_after_cons A p c w : pair_after A p (c::w) = pair_after A (succ A p c) w.
Proof. reflexivity. Qed.

Lemma closed_reach A ms seen :
  forallb (fun p => forallb (fun c => pidx_mem (succ A p c) (build_index pair pkey seen)) ms) seen = true ->
  forall w p, In p seen -> Forall (fun c => In c ms) w -> In (pair_after A p w) seen.
Proof.
  intros Hc. induction w as [|c w IH]; intros p Hp Hw.
  - destruct p; exact Hp.
  - rewrite pair_after_cons. inversion Hw; subst. apply IH; auto.
    rewrite forallb_forall in Hc. specialize (Hc p Hp). rewrite forallb_forall in Hc.
    apply pidx_mem_in. apply Hc. auto.
Qed.

Lemma dvec_w_spec w : forall v t, (exists r, In (t,r) (dvec_w w v) /\ mt tbll r []) <-> (exists r, In (t,r) v /\ mt tbll r w).
Proof.
  induction w as [|c w IH]; intros v t; cbn [dvec_w]; [tauto|].
  rewrite IH. unfold dvec. split.
  - intros (r & I & M). apply in_map_iff in I as ([t' r'] & E & I). cbn in E. inversion E; subst.
    exists r'. split; auto. apply (deriv_spec tbll); auto.
  - intros (r & I & M). exists (deriv tbll c r). split.
    + apply in_map_iff. exists (t,r). auto.
    + apply (deriv_spec tbll); auto.
Qed.

Lemma nul_toks_spec v t : In t (nul_toks v) <-> exists r, In (t,r) v /\ mt tbll r [].
Proof.
  unfold nul_toks. rewrite nnorm_in, in_flat_map. split.
  - intros ([t' r] & I & H). cbn in H. destruct (nullable r) eqn:E; [|destruct H].
    destruct H as [<-|[]]. exists r. split; auto. apply (nullable_spec tbll); auto.
  - intros (r & I & M). exists (t,r). split; auto. cbn. apply (nullable_spec tbll) in M. rewrite M. left; auto.
Qed.

Lemma acc_toks_spec A S t : In t (acc_toks A S) <-> exists q, In q S /\ acc A q t = true.
Proof.
  unfold acc_toks, acc. rewrite nnorm_in, in_flat_map. split.
  - intros (q & I & H). exists q. split; auto. destruct (nth q (fin A) (false,0%N)) as [[|] t']; [|destruct H].
    destruct H as [<-|[]]. apply N.eqb_refl.
  - intros (q & I & H). exists q. split; auto. destruct (nth q (fin A) (false,0%N)) as [[|] t']; [|discriminate].
    apply N.eqb_eq in H. subst. left; auto.
Qed.

Theorem equiv_check_sound A ms rs fuel :
  equiv_check A ms rs fuel = true ->
  forall w, w <> [] -> Forall (fun c => In c ms) w ->
  forall t, accepts_tok tblc A w t <-> exists r, In (t,r) rs /\ mt tbll r w.
Proof.
  unfold equiv_check. destruct (explore _ _ _ _ _ _) as [seen|]; [|discriminate].
  unfold validate. intros H. apply andb_true_iff in H as [H Hcons]. apply andb_true_iff in H as [Hinit Hclosed].
  intros w Hne Hw t. destruct w as [|c w]; [congruence|]. inversion Hw; subst.
  assert (I: In (pair_after A (rs,[0]) (c::w)) seen).
  { rewrite pair_after_cons. apply closed_reach with (ms:=ms); auto.
    rewrite forallb_forall in Hinit. apply pidx_mem_in. apply Hinit; auto. }
  rewrite forallb_forall in Hcons. specialize (Hcons _ I). unfold consistent in Hcons.
  apply nlist_eqb_eq in Hcons. unfold pair_after in Hcons. cbn [fst snd] in Hcons.
  rewrite accepts_tok_runn. rewrite <- acc_toks_spec, <- Hcons, nul_toks_spec. apply dvec_w_spec.
Qed.



(* ---------- equivalence of two automata (minimizer input/output pairs) ---------- *)
Definition spair := (list nat * list nat)%type.
Definition spair_eqb (p q:spair) := natlist_eqb (fst p) (fst q) && natlist_eqb (snd p) (snd q).
Lemma spair_eqb_eq p q : spair_eqb p q = true -> p = q.
Proof. destruct p, q; unfold spair_eqb; cbn. intros H; apply andb_true_iff in H as [H1 H2].
  apply natlist_eqb_eq in H1. apply natlist_eqb_eq in H2. congruence. Qed.
Definition smem (p:spair) (l:list spair) := existsb (spair_eqb p) l.
Lemma smem_in p l : smem p l = true -> In p l.
Proof. unfold smem. rewrite existsb_exists. intros (q & I & E). apply spair_eqb_eq in E. congruence. Qed.

Definition ssucc (A B:dfa) (p:spair) (c:N) : spair := (stepn tblc A (fst p) c, stepn tblc B (snd p) c).
Definition sconsistent (A B:dfa) (p:spair) := nlist_eqb (acc_toks A (fst p)) (acc_toks B (snd p)).

Definition skey (p:spair) : positive := key_of (fst p).
Definition sidx_mem (p:spair) (m:index spair) : bool := idx_mem spair skey spair_eqb p m.

Fixpoint sexplore (A B:dfa) (ms:list N) (fuel:nat) (todo seen:list spair) (idx:index spair) : option (list spair) :=
  match fuel with O => None | S f =>
  match todo with [] => Some seen | p::todo =>
    let '(todo',seen',idx') := fold_left (fun ts c => let '(td,sn,ix) := ts in let q := ssucc A B p c in
                              if sidx_mem q ix then ts else (q :: td, q :: sn, idx_add spair skey q ix)) ms (todo,seen,idx) in
    sexplore A B ms f todo' seen' idx' end end.

Definition svalidate (A B:dfa) (ms:list N) (init:spair) (seen:list spair) : bool :=
  let idx := build_index spair skey seen in
  sidx_mem init idx
  && forallb (fun p => forallb (fun c => sidx_mem (ssucc A B p c) idx) ms) seen
  && forallb (sconsistent A B) seen.

Definition aut_equiv_check (A B:dfa) (ms:list N) (fuel:nat) : bool :=
  let init : spair := ([0], [0]) in
  match sexplore A B ms fuel [init] [init] (build_index spair skey [init]) with
  | Some seen => svalidate A B ms init seen
  | None => false end.

Lemma sidx_mem_in p l : sidx_mem p (build_index spair skey l) = true -> In p l.
Proof. apply idx_mem_build. apply spair_eqb_eq. Qed.

Definition spair_after (A B:dfa) (p:spair) (w:list N) : spair := (runn tblc A (fst p) w, runn tblc B (snd p) w).

Lemma sclosed_reach A B ms seen :
  forallb (fun p => forallb (fun c => sidx_mem (ssucc A B p c) (build_index spair skey seen)) ms) seen = true ->
  forall w p, In p seen -> Forall (fun c => In c ms) w -> In (spair_after A B p w) seen.
Proof.
  intros Hc. induction w as [|c w IH]; intros p Hp Hw.
  - destruct p; exact Hp.
  - change (spair_after A B p (c :: w)) with (spair_after A B (ssucc A B p c) w).
    inversion Hw; subst. apply IH; auto.
    rewrite forallb_forall in Hc. specialize (Hc p Hp). rewrite forallb_forall in Hc.
    apply sidx_mem_in. apply Hc. auto.
Qed.

Theorem aut_equiv_check_sound A B ms fuel :
  aut_equiv_check A B ms fuel = true ->
  forall w, Forall (fun c => In c ms) w ->
  forall t, accepts_tok tblc A w t <-> accepts_tok tblc B w t.
Proof.
  unfold aut_equiv_check. destruct (sexplore _ _ _ _ _ _ _) as [seen|]; [|discriminate].
  unfold svalidate. intros H. apply andb_true_iff in H as [H Hcons]. apply andb_true_iff in H as [Hinit Hclosed].
  intros w Hw t. apply sidx_mem_in in Hinit.
  pose proof (sclosed_reach A B ms seen Hclosed w _ Hinit Hw) as I.
  rewrite forallb_forall in Hcons. specialize (Hcons _ I). unfold sconsistent in Hcons.
  apply nlist_eqb_eq in Hcons. unfold spair_after in Hcons. cbn [fst snd] in Hcons.
  rewrite !accepts_tok_runn. rewrite <- !acc_toks_spec, Hcons. tauto.
Qed.
End Check.

(* ---------- lifting from the minterm alphabet to Unicode scalar values ---------- *)
(* If the class predicate on characters factors through a map f from characters to minterm
   ids, runs and matches on a word are those on the image of the word. *)
Section Lift.
Variable cls : N -> N -> bool.      (* on characters *)
Variable tbl : N -> N -> bool.      (* on minterm ids *)
Variable f : N -> N.                (* character -> its minterm *)
Hypothesis factors : forall a c, cls a c = tbl a (f c).

Lemma out_lift A q c : out cls A q c = out tbl A q (f c).
Proof. unfold out. f_equal. apply filter_ext. intros e. apply factors. Qed.
Lemma step_lift A S c : step cls A S c = step tbl A S (f c).
Proof. unfold step. f_equal. apply flat_map_ext. intros q. apply out_lift. Qed.
Lemma run_lift A w : forall S, run cls A S w = run tbl A S (map f w).
Proof. induction w as [|c w IH]; intros S; cbn [run map]; [reflexivity|]. rewrite step_lift. apply IH. Qed.
Lemma accepts_tok_lift A w t : accepts_tok cls A w t <-> accepts_tok tbl A (map f w) t.
Proof. unfold accepts_tok. rewrite run_lift. tauto. Qed.

Lemma mt_lift_fwd r w : mt cls r w -> mt tbl r (map f w).
Proof.
  induction 1; cbn [map]; try rewrite map_app.
  - constructor.
  - constructor. rewrite <- factors. assumption.
  - constructor; assumption.
  - apply MAltL; assumption.
  - apply MAltR; assumption.
  - constructor.
  - cbn [map] in *. change (f c :: map f u ++ map f v) with ((f c :: map f u) ++ map f v).
    constructor; assumption.
Qed.

Lemma mt_lift_bwd r : forall w' , mt tbl r w' -> forall w, w' = map f w -> mt cls r w.
Proof.
  induction 1; intros w0 E.
  - symmetry in E. apply map_eq_nil in E. subst. constructor.
  - destruct w0 as [|c0 [|c1 w0]]; cbn in E; try discriminate. inversion E; subst.
    constructor. rewrite factors. assumption.
  - symmetry in E. apply map_eq_app in E as (u0 & v0 & -> & <- & <-). constructor; auto.
  - apply MAltL; auto.
  - apply MAltR; auto.
  - symmetry in E. apply map_eq_nil in E. subst. constructor.
  - symmetry in E. apply map_eq_app in E as (u0 & v0 & -> & Eu & <-).
    destruct u0 as [|c0 u0]; cbn in Eu; [discriminate|]. inversion Eu; subst.
    change ((c0 :: u0) ++ v0) with ((c0 :: u0) ++ v0). constructor.
    + apply IHmt1. reflexivity.
    + apply IHmt2. reflexivity.
Qed.

Lemma mt_lift r w : mt cls r w <-> mt tbl r (map f w).
Proof. split; [apply mt_lift_fwd | intros H; eapply mt_lift_bwd; eauto]. Qed.
End Lift.

(* ---------- counterexample search (unverified helpers; used only to produce replays) ---------- *)
Section Cex.
Variable tbll : N -> N -> bool.
Variable tblc : N -> N -> bool.

(* breadth-first search for a word after which pattern and automaton token sets differ *)
Fixpoint cex_loop (A:dfa) (ms:list N) (fuel:nat) (todo:list (list N * pair)) (seen:list pair)
  : option (list N * list N * list N) :=
  match fuel with O => None | S f =>
  match todo with [] => None | (w,p)::todo' =>
    let sucs := map (fun c => (w ++ [c], succ tbll tblc A p c)) ms in
    match find (fun wp => negb (consistent A (snd wp))) sucs with
    | Some (w', p') => Some (w', nul_toks (fst p'), acc_toks A (snd p'))
    | None =>
        let fresh := fold_left (fun acc wp => if pmem (snd wp) (seen ++ map snd acc) then acc else acc ++ [wp]) sucs [] in
        cex_loop A ms f (todo' ++ fresh) (seen ++ map snd fresh)
    end end end.
Definition find_cex (A:dfa) (ms:list N) (rs:vec) (fuel:nat) := cex_loop A ms fuel [([], (rs,[0]))] [(rs,[0])].

Fixpoint scex_loop (A B:dfa) (ms:list N) (fuel:nat) (todo:list (list N * spair)) (seen:list spair)
  : option (list N * list N * list N) :=
  match fuel with O => None | S f =>
  match todo with [] => None | (w,p)::todo' =>
    if negb (sconsistent A B p) then Some (w, acc_toks A (fst p), acc_toks B (snd p)) else
    let sucs := map (fun c => (w ++ [c], ssucc tblc A B p c)) ms in
    let fresh := fold_left (fun acc wp => if smem (snd wp) (seen ++ map snd acc) then acc else acc ++ [wp]) sucs [] in
    scex_loop A B ms f (todo' ++ fresh) (seen ++ map snd fresh)
  end end.
Definition find_cex_aut (A B:dfa) (ms:list N) (fuel:nat) := scex_loop A B ms fuel [([], ([0],[0]))] [([0],[0])].
End Cex.

(* patterns of a mode as (token type, re) from ASTs; None if one is unsupported *)
From Scnr Require Import Spec.
Fixpoint mk_rs (l:list (N * ast)) : option (list (N * re)) :=
  match l with
  | [] => Some []
  | (t,a) :: l' => match core_of_ast a, mk_rs l' with Some r, Some rs => Some ((t,r) :: rs) | _, _ => None end
  end.
Definition start_not_accepting (A:dfa) : bool := match fin A with (false, _) :: _ => true | _ => false end.
