(* BuildProofs.v — proofs about the configuration build model of Build.v. *)
From Scnr Require Import Base Regex Automaton FindFrom Spec Nfa NfaProofs Build.
From Scnr.Gen Require Import UnicodeNames.

(* ---------- sequencing ---------- *)
Lemma seq3_ok o k : seq3 o k = BuiltOk <-> o = BuiltOk /\ k = BuiltOk.
Proof. destruct o; cbn; intuition congruence. Qed.
Lemma seq3_np o k : o <> Panicked3 -> k <> Panicked3 -> seq3 o k <> Panicked3.
Proof. destruct o; cbn; auto. Qed.
Lemma all3_np {A} (f:A -> outcome3) l : (forall x, f x <> Panicked3) -> all3 f l <> Panicked3.
Proof. intros H. induction l; cbn [all3]; [discriminate|]. apply seq3_np; auto. Qed.
Lemma all3_ok {A} (f:A -> outcome3) l : all3 f l = BuiltOk <-> forall x, In x l -> f x = BuiltOk.
Proof.
  induction l as [|y l IH]; cbn [all3 In].
  - split; [intros _ x []|reflexivity].
  - rewrite seq3_ok, IH. split.
    + intros [H1 H2] x [->|I]; auto.
    + intros H. split; auto.
Qed.

(* ---------- one pattern or lookahead string ---------- *)
Lemma item_outcome_np p : item_outcome p <> Panicked3.
Proof.
  destruct p as [|a cls]; cbn; [discriminate|].
  pose proof (try_from_ast_total a) as T. destruct (try_from_ast a); congruence.
Qed.
Lemma item_outcome_ok p : item_outcome p = BuiltOk <-> exists a cls, p = PAst a cls /\ supported a = true.
Proof.
  destruct p as [|a cls]; cbn.
  - split; [discriminate|intros (a & c & E & _); discriminate].
  - destruct (supported a) eqn:S.
    + destruct (supported_builds a S) as (n & E). rewrite E. split; eauto.
    + rewrite (unsupported_rejected a S). split; [discriminate|].
      intros (a' & c' & E & S'). inversion E; subst. congruence.
Qed.
Lemma la_outcome_np p : la_outcome p <> Panicked3.
Proof. unfold la_outcome. destruct (bp_la p); [apply item_outcome_np|discriminate]. Qed.
Lemma mode_outcome_np m : mode_outcome m <> Panicked3.
Proof. unfold mode_outcome. apply seq3_np; apply all3_np; intros; [apply item_outcome_np|apply la_outcome_np]. Qed.

Lemma mode_outcome_ok m : mode_outcome m = BuiltOk <->
  forall p it, In p m -> In it (items_of_pat p) -> item_outcome it = BuiltOk.
Proof.
  unfold mode_outcome. rewrite seq3_ok, !all3_ok. unfold la_outcome, items_of_pat. split.
  - intros [H1 H2] p it Ip [<-|I]; [auto|].
    specialize (H2 p Ip). destruct (bp_la p); [destruct I as [<-|[]]; auto|destruct I].
  - intros H. split; intros p Ip.
    + apply (H p); cbn; auto.
    + destruct (bp_la p) eqn:E; auto. apply (H p); auto. rewrite E. cbn; auto.
Qed.

Lemma in_items cfg it : In it (items cfg) <-> exists m p, In m cfg /\ In p m /\ In it (items_of_pat p).
Proof.
  unfold items. rewrite in_flat_map. split.
  - intros (m & Im & I). apply in_flat_map in I as (p & Ip & I). eauto.
  - intros (m & p & Im & Ip & I). exists m. split; auto. apply in_flat_map. eauto.
Qed.

Lemma modes_ok cfg : all3 mode_outcome cfg = BuiltOk <-> forall it, In it (items cfg) -> item_outcome it = BuiltOk.
Proof.
  rewrite all3_ok. split.
  - intros H it I. apply in_items in I as (m & p & Im & Ip & I). apply (proj1 (mode_outcome_ok m) (H m Im) p it); auto.
  - intros H m Im. apply mode_outcome_ok. intros p it Ip I. apply H. apply in_items. eauto.
Qed.

Section Table.
Variable letters : list N.
Variable names : list (list N).
Local Notation csup := (class_supported letters names).
Local Notation build := (build_outcome_with letters names).

Lemma classes_outcome_np cfg : classes_outcome letters names cfg <> Panicked3.
Proof. unfold classes_outcome. destruct (forallb _ _); discriminate. Qed.

Lemma classes_outcome_ok cfg : classes_outcome letters names cfg = BuiltOk <->
  forall it u, In it (items cfg) -> In u (classes_of it) -> csup u = true.
Proof.
  unfold classes_outcome. destruct (forallb csup _) eqn:F.
  - rewrite forallb_forall in F. split; [|reflexivity]. intros _ it u I Iu. apply F. apply in_flat_map. eauto.
  - split; [discriminate|]. intros H. exfalso.
    assert (forallb csup (flat_map classes_of (items cfg)) = true); [|congruence].
    apply forallb_forall. intros u Iu. apply in_flat_map in Iu as (it & I & Iu). eauto.
Qed.

(* the build never panics *)
Theorem build_total cfg : build cfg <> Panicked3.
Proof.
  unfold build_outcome_with. apply seq3_np; [|apply classes_outcome_np].
  apply all3_np. apply mode_outcome_np.
Qed.

Lemma item_ok_spec it : item_ok letters names it = true <->
  item_outcome it = BuiltOk /\ forall u, In u (classes_of it) -> csup u = true.
Proof.
  rewrite item_outcome_ok. destruct it as [|a cls]; cbn [item_ok classes_of].
  - split; [discriminate|intros [(a & c & E & _) _]; discriminate].
  - rewrite andb_true_iff, forallb_forall. split.
    + intros [S F]. split; eauto.
    + intros [(a' & c' & E & S) F]. inversion E; subst. auto.
Qed.

(* the build succeeds exactly when every pattern and lookahead string of every mode is fine *)
Theorem build_ok_iff cfg : build cfg = BuiltOk <-> forall it, In it (items cfg) -> item_ok letters names it = true.
Proof.
  unfold build_outcome_with. rewrite seq3_ok, modes_ok, classes_outcome_ok. split.
  - intros [H1 H2] it I. apply item_ok_spec. split; eauto.
  - intros H. split.
    + intros it I. apply (proj1 (item_ok_spec it) (H it I)).
    + intros it u I Iu. apply (proj1 (item_ok_spec it) (H it I)); auto.
Qed.

Theorem build_rejected_iff cfg : build cfg = Rejected <-> exists it, In it (items cfg) /\ item_ok letters names it = false.
Proof.
  pose proof (build_total cfg) as T. pose proof (build_ok_iff cfg) as O. split.
  - intros R. destruct (forallb (item_ok letters names) (items cfg)) eqn:F.
    + rewrite forallb_forall in F. apply O in F. congruence.
    + apply forallb_false_ex in F. exact F.
  - intros (it & I & B). destruct (build cfg) eqn:E; auto; [|congruence].
    rewrite (proj1 O eq_refl it I) in B. discriminate.
Qed.

(* an unsupported construct at any depth of any pattern or lookahead of any mode *)
Definition item_bad (it:parsed) : Prop :=
  it = PSyntaxError \/
  exists a cls, it = PAst a cls /\ (supported a = false \/ exists u, In u cls /\ csup u = false).

Lemma item_bad_not_ok it : item_bad it -> item_ok letters names it = false.
Proof.
  intros [->|(a & cls & -> & [S|(u & Iu & B)])]; cbn [item_ok]; auto.
  - rewrite S. reflexivity.
  - apply andb_false_iff. right. destruct (forallb csup cls) eqn:F; auto.
    rewrite forallb_forall in F. rewrite (F u Iu) in B. discriminate.
Qed.

Theorem unsupported_anywhere_rejected cfg m p it :
  In m cfg -> In p m -> In it (items_of_pat p) -> item_bad it -> build cfg = Rejected.
Proof.
  intros Im Ip I B. apply build_rejected_iff. exists it. split.
  - apply in_items. eauto.
  - apply item_bad_not_ok; auto.
Qed.

Theorem supported_builds_config cfg :
  (forall it, In it (items cfg) -> exists a cls, it = PAst a cls /\ supported a = true /\
                                   forall u, In u cls -> csup u = true) ->
  build cfg = BuiltOk.
Proof.
  intros H. apply build_ok_iff. intros it I. destruct (H it I) as (a & cls & -> & S & F).
  cbn [item_ok]. rewrite S. cbn. apply forallb_forall. auto.
Qed.

(* the per-item codes of `explain` say why *)
Lemma item_code_zero it : item_code letters names it = 0%N <-> item_ok letters names it = true.
Proof.
  destruct it as [|a cls]; cbn [item_code item_ok]; [split; discriminate|].
  destruct (supported a); cbn [negb andb]; [|split; discriminate].
  destruct (forallb csup cls); split; auto; discriminate.
Qed.
End Table.

(* ---------- "supported a = false" means: a rejected node shape occurs at some depth ---------- *)
Lemma forallb_false_in {A} (f:A -> bool) l x : In x l -> f x = false -> forallb f l = false.
Proof.
  intros I F. destruct (forallb f l) eqn:E; auto. rewrite forallb_forall in E. rewrite (E x I) in F. discriminate.
Qed.

Lemma subterm_unsupported s a : subterm s a -> supported s = false -> supported a = false.
Proof.
  induction 1; intros S; cbn [supported]; auto.
  - rewrite (IHsubterm S). apply andb_false_r.
  - rewrite (IHsubterm S). apply andb_false_r.
  - apply (forallb_false_in supported l a); auto.
  - apply (forallb_false_in supported l a); auto.
Qed.

Lemma bad_node_unsupported s : bad_node s -> supported s = false.
Proof. intros [->|[->|[(k & a & ->)|(a & ->)]]]; reflexivity. Qed.

Theorem unsupported_iff_bad_node a : supported a = false <-> exists s, subterm s a /\ bad_node s.
Proof.
  split.
  - induction a as [|x| | |k g a IH|fl a IH|l IH|l IH] using ast_ind'; cbn [supported]; try discriminate.
    + intros _. exists AFlags. split; [constructor|left; auto].
    + intros _. exists AAssertion. split; [constructor|right; left; auto].
    + destruct g; cbn [andb].
      * intros S. destruct (IH S) as (s & Hs & B). exists s. split; [constructor; auto|auto].
      * intros _. exists (ARep k false a). split; [constructor|]. right; right; left. eauto.
    + destruct fl; cbn [negb andb].
      * intros _. exists (AGroup true a). split; [constructor|]. right; right; right. eauto.
      * intros S. destruct (IH S) as (s & Hs & B). exists s. split; [constructor; auto|auto].
    + intros F. apply forallb_false_ex in F as (x & Ix & Sx).
      rewrite Forall_forall in IH. destruct (IH x Ix Sx) as (s & Hs & B).
      exists s. split; auto. apply (sub_alt s x l); auto.
    + intros F. apply forallb_false_ex in F as (x & Ix & Sx).
      rewrite Forall_forall in IH. destruct (IH x Ix Sx) as (s & Hs & B).
      exists s. split; auto. apply (sub_concat s x l); auto.
  - intros (s & Hs & B). apply (subterm_unsupported s a Hs). apply bad_node_unsupported; auto.
Qed.

(* ---------- non-vacuity examples (stated in Properties/C15b.v) ---------- *)
(* a(?i:b*?) as the lookahead of the second pattern of the second mode: rejected, and it is the
   only reason (without it the configuration builds) *)
Lemma ex_nested_rejected :
  let bad := PAst (AConcat [ALeaf 0; AGroup false (AAlt [ALeaf 1; ARep RZeroOrMore false (ALeaf 2)])]) [] in
  let ok := PAst (ARep (RBounded 1 2) true (ALeaf 0)) [] in
  build_outcome [[mk_bpat ok None]; [mk_bpat ok None; mk_bpat ok (Some bad)]] = Rejected /\
  build_outcome [[mk_bpat ok None]; [mk_bpat ok None; mk_bpat ok (Some ok)]] = BuiltOk.
Proof. vm_compute. split; reflexivity. Qed.

Lemma ex_hypothesis_met :
  let bad := PAst (AConcat [ALeaf 0; AGroup false (AAlt [ALeaf 1; ARep RZeroOrMore false (ALeaf 2)])]) [] in
  supported (AConcat [ALeaf 0; AGroup false (AAlt [ALeaf 1; ARep RZeroOrMore false (ALeaf 2)])]) = false /\
  subterm (ARep RZeroOrMore false (ALeaf 2)) (AConcat [ALeaf 0; AGroup false (AAlt [ALeaf 1; ARep RZeroOrMore false (ALeaf 2)])]).
Proof.
  split; [reflexivity|].
  eapply sub_concat; [right; left; reflexivity|]. apply sub_group.
  eapply sub_alt; [right; left; reflexivity|]. apply sub_refl.
Qed.

(* a syntax error in the first mode; a name=value class in any table *)
Lemma ex_syntax_rejected : forall letters names,
  build_outcome_with letters names [[mk_bpat PSyntaxError None]; [mk_bpat (PAst (ALeaf 0) []) None]] = Rejected.
Proof. intros. reflexivity. Qed.
Lemma ex_value_class_rejected : forall letters names,
  build_outcome_with letters names [[mk_bpat (PAst (ALeaf 0) [UValue]) None]] = Rejected.
Proof. intros. reflexivity. Qed.

(* with the table { \pL ; \p{Ab} }: \pL and \p{Ab} build, \pX and \p{Ac} and \p{L} are rejected,
   also when the class is only one of several descriptors of a bracketed leaf *)
Lemma ex_table :
  let b := build_outcome_with [76] [[65; 98]] in
  b [[mk_bpat (PAst (ALeaf 0) [UOne 76; UNamed [65; 98]]) None]] = BuiltOk /\
  b [[mk_bpat (PAst (ALeaf 0) [UOne 88]) None]] = Rejected /\
  b [[mk_bpat (PAst (ALeaf 0) [UOne 76; UNamed [65; 99]]) None]] = Rejected /\
  b [[mk_bpat (PAst (ALeaf 0) [UNamed [76]]) None]] = Rejected.
Proof. vm_compute. repeat split; reflexivity. Qed.

(* a class below a repetition with count 0 is still registered and compiled: (\pX){0} *)
Lemma ex_class_under_zero_rep :
  build_outcome_with [76] [] [[mk_bpat (PAst (ARep (RExactly 0) true (ALeaf 0)) [UOne 88]) None]] = Rejected.
Proof. reflexivity. Qed.

(* the empty configuration and a mode without patterns build *)
Lemma ex_empty : build_outcome [] = BuiltOk /\ build_outcome [[]] = BuiltOk.
Proof. split; reflexivity. Qed.
