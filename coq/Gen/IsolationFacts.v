(* GENERATED on every run by lib/c12_facts.py from the current /repo/scnr/src text. Do not edit.
   Each definition is a premise of the isolation model (Iter.v, Scratch.v) read off the source. *)
From Coq Require Import Bool.
(* fields of ScannerImpl are ['character_classes', 'scanner_modes', 'match_char_class', 'current_mode']; the model knows ['character_classes', 'scanner_modes', 'match_char_class', 'current_mode'] (a new field is state the model does not have) *)
Definition scanner_impl_fields_are_the_modelled_state : bool := true.
(* ScannerImpl must not contain Rc/RefCell/Cell/Mutex/RwLock/atomics/lazies: [] *)
Definition scanner_impl_has_no_interior_mutability : bool := true.
(* ScannerImpl must derive Clone (deep copy per iterator) *)
Definition scanner_impl_derives_clone : bool := true.
(* fields of CompiledScannerMode are ['name', 'dfa', 'transitions']; the model knows ['name', 'dfa', 'transitions'] (a new field is state the model does not have) *)
Definition compiled_scanner_mode_fields_are_the_modelled_state : bool := true.
(* CompiledScannerMode must not contain Rc/RefCell/Cell/Mutex/RwLock/atomics/lazies: [] *)
Definition compiled_scanner_mode_has_no_interior_mutability : bool := true.
(* CompiledScannerMode must derive Clone (deep copy per iterator) *)
Definition compiled_scanner_mode_derives_clone : bool := true.
(* fields of CompiledDfa are ['patterns', 'terminal_ids', 'states', 'end_states', 'lookaheads', 'current_states', 'next_states']; the model knows ['patterns', 'terminal_ids', 'states', 'end_states', 'lookaheads', 'current_states', 'next_states'] (a new field is state the model does not have) *)
Definition compiled_dfa_fields_are_the_modelled_state : bool := true.
(* CompiledDfa must not contain Rc/RefCell/Cell/Mutex/RwLock/atomics/lazies: [] *)
Definition compiled_dfa_has_no_interior_mutability : bool := true.
(* CompiledDfa must derive Clone (deep copy per iterator) *)
Definition compiled_dfa_derives_clone : bool := true.
(* fields of CompiledLookahead are ['nfa', 'is_positive']; the model knows ['nfa', 'is_positive'] (a new field is state the model does not have) *)
Definition compiled_lookahead_fields_are_the_modelled_state : bool := true.
(* CompiledLookahead must not contain Rc/RefCell/Cell/Mutex/RwLock/atomics/lazies: [] *)
Definition compiled_lookahead_has_no_interior_mutability : bool := true.
(* CompiledLookahead must derive Clone (deep copy per iterator) *)
Definition compiled_lookahead_derives_clone : bool := true.
(* fields of FindMatchesImpl are ['scanner_impl', 'input', 'char_indices', 'last_position', 'last_char', 'line_offsets', 'offset']; the model knows ['scanner_impl', 'input', 'char_indices', 'last_position', 'last_char', 'line_offsets', 'offset'] (a new field is state the model does not have) *)
Definition find_matches_impl_fields_are_the_modelled_state : bool := true.
(* FindMatchesImpl must not contain Rc/RefCell/Cell/Mutex/RwLock/atomics/lazies: [] *)
Definition find_matches_impl_has_no_interior_mutability : bool := true.
(* fields of Scanner are ['inner']; the model knows ['inner'] (a new field is state the model does not have) *)
Definition scanner_fields_are_the_modelled_state : bool := true.
(* Scanner must not contain Rc/RefCell/Cell/Mutex/RwLock/atomics/lazies: [] *)
Definition scanner_has_no_interior_mutability : bool := true.
(* the only Arc fields of ScannerImpl must be character_classes and match_char_class (an Fn, not FnMut): ['character_classes', 'match_char_class'] *)
Definition scanner_impl_shares_only_the_immutable_registry_and_predicate : bool := true.
(* Scanner.inner must be a ScannerImpl by value *)
Definition scanner_owns_its_scanner_impl : bool := true.
(* Scanner::find_iter must hand a clone of self.inner to the iterator *)
Definition find_iter_clones_the_scanner_impl : bool := true.
(* FindMatchesImpl::new must call scanner_impl.reset() *)
Definition iterator_constructor_resets_the_mode : bool := true.
(* ScannerImpl::reset must be exactly `self.current_mode = 0;` (the model resets nothing else, there is nothing else): '{\n        self.current_mode = 0;\n    }\n' *)
Definition reset_sets_mode_zero : bool := true.
(* find_from must clear current_states, push the start state and clear next_states before its loop (Scratch.v: clear_at_entry = true) *)
Definition find_from_clears_its_scratch_vectors_at_entry : bool := true.
(* every round of find_from must end with current_states.clear(); swap(current_states, next_states) (Scratch.v sim_st) *)
Definition find_from_round_ends_with_clear_and_swap : bool := true.
Definition isolation_facts : bool :=
  scanner_impl_fields_are_the_modelled_state && scanner_impl_has_no_interior_mutability && scanner_impl_derives_clone && compiled_scanner_mode_fields_are_the_modelled_state && compiled_scanner_mode_has_no_interior_mutability && compiled_scanner_mode_derives_clone && compiled_dfa_fields_are_the_modelled_state && compiled_dfa_has_no_interior_mutability && compiled_dfa_derives_clone && compiled_lookahead_fields_are_the_modelled_state && compiled_lookahead_has_no_interior_mutability && compiled_lookahead_derives_clone && find_matches_impl_fields_are_the_modelled_state && find_matches_impl_has_no_interior_mutability && scanner_fields_are_the_modelled_state && scanner_has_no_interior_mutability && scanner_impl_shares_only_the_immutable_registry_and_predicate && scanner_owns_its_scanner_impl && find_iter_clones_the_scanner_impl && iterator_constructor_resets_the_mode && reset_sets_mode_zero && find_from_clears_its_scratch_vectors_at_entry && find_from_round_ends_with_clear_and_swap.
Lemma isolation_facts_ok : isolation_facts = true.
Proof. reflexivity. Qed.
