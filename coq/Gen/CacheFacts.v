(* GENERATED on every run by lib/prop_c13.py (regen) from the current /repo/scnr/src text.
   Do not edit. Each definition is a premise of the cache model (Cache.v) read off the source. *)
From Coq Require Import Bool.
(* ScannerMode must derive PartialEq, Eq and Hash unconditionally; derives found: ['Clone', 'Debug', 'Eq', 'Hash', 'PartialEq'] *)
Definition scanner_mode_derives_eq_hash : bool := true.
(* ScannerMode must not have a hand-written PartialEq/Eq/Hash impl; found: [] *)
Definition scanner_mode_no_manual_eq_hash : bool := true.
(* fields of ScannerMode are ['name', 'patterns', 'transitions'], the model (Json.v records, config_eqb) has ['name', 'patterns', 'transitions'] *)
Definition scanner_mode_fields_match_model : bool := true.
(* Pattern must derive PartialEq, Eq and Hash unconditionally; derives found: ['Clone', 'Debug', 'Default', 'Eq', 'Hash', 'PartialEq'] *)
Definition pattern_derives_eq_hash : bool := true.
(* Pattern must not have a hand-written PartialEq/Eq/Hash impl; found: [] *)
Definition pattern_no_manual_eq_hash : bool := true.
(* fields of Pattern are ['pattern', 'token_type', 'lookahead'], the model (Json.v records, config_eqb) has ['pattern', 'token_type', 'lookahead'] *)
Definition pattern_fields_match_model : bool := true.
(* Lookahead must derive PartialEq, Eq and Hash unconditionally; derives found: ['Clone', 'Debug', 'Eq', 'Hash', 'PartialEq'] *)
Definition lookahead_derives_eq_hash : bool := true.
(* Lookahead must not have a hand-written PartialEq/Eq/Hash impl; found: [] *)
Definition lookahead_no_manual_eq_hash : bool := true.
(* fields of Lookahead are ['is_positive', 'pattern'], the model (Json.v records, config_eqb) has ['is_positive', 'pattern'] *)
Definition lookahead_fields_match_model : bool := true.
(* the map inside ScannerCache must be keyed by Vec<ScannerMode> (scanner_cache.rs) *)
Definition cache_key_is_whole_mode_vector : bool := true.
Definition key_facts : bool :=
  scanner_mode_derives_eq_hash && scanner_mode_no_manual_eq_hash && scanner_mode_fields_match_model && pattern_derives_eq_hash && pattern_no_manual_eq_hash && pattern_fields_match_model && lookahead_derives_eq_hash && lookahead_no_manual_eq_hash && lookahead_fields_match_model && cache_key_is_whole_mode_vector.
Lemma key_facts_ok : key_facts = true.
Proof. reflexivity. Qed.
