(* GENERATED on every run by lib/prop_c13.py (regen) from the current /repo/scnr/src text.
   Do not edit. Each definition is a premise of the cache model (Cache.v) read off the source. *)
From Coq Require Import Bool.
From Scnr Require Import Gen.CacheFacts.
(* static SCANNER_CACHE must be a (Lazy) RwLock<ScannerCache> or Mutex<ScannerCache> *)
Definition cache_static_is_rwlock_or_mutex : bool := true.
(* ScannerCache::get must take &mut self (lookup and insert in one exclusive call) *)
Definition cache_get_takes_mut_self : bool := true.
(* a `fn build` using SCANNER_CACHE must exist in scanner_builder.rs (otherwise the structure is not recognised); found 2 *)
Definition build_found_in_scanner_builder : bool := true.
(* every function using SCANNER_CACHE must take the exclusive lock and call .get(..) while holding it (`SCANNER_CACHE.write().unwrap().get(..)` in one expression, or a guard bound by let and used for .get); users: ['scanner_builder.rs::build', 'scanner_builder.rs::build']; not so in: none *)
Definition every_cache_use_is_exclusive_lock_with_get : bool := true.
(* SCANNER_CACHE must not be accessed through read()/try_*(): [] *)
Definition no_shared_or_try_lock_on_cache : bool := true.
Definition lock_facts : bool :=
  cache_static_is_rwlock_or_mutex && cache_get_takes_mut_self && build_found_in_scanner_builder && every_cache_use_is_exclusive_lock_with_get && no_shared_or_try_lock_on_cache.
Definition all_facts : bool := key_facts && lock_facts.
Lemma cache_facts_ok : all_facts = true.
Proof. reflexivity. Qed.
