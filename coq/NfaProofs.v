(* NfaProofs.v — proofs about the Thompson construction of Nfa.v:
   stage 1: the invariant WF is preserved by every constructor, try_from_ast never panics,
            it rejects exactly the unsupported ASTs;
   stage 2: the built NFA recognises exactly the language of the pattern. *)
From Scnr Require Import Base Regex Automaton FindFrom Spec Nfa.

Local Notation L n := (length (nstates n)) (only parsing).

Ltac nat_cases :=
  repeat match goal with
  | |- context[?a =? ?b] => destruct (Nat.eqb_spec a b)
  | |- context[?a <? ?b] => destruct (Nat.ltb_spec a b)
  end; try lia.
Ltac nat_cases_in H :=
  repeat match type of H with
  | context[?a =? ?b] => destruct (Nat.eqb_spec a b)
  | context[?a <? ?b] => destruct (Nat.ltb_spec a b)
  end.

(* ================= an induction principle for ast (nested lists) ================= *)
Section AstInd.
Variable P : ast -> Prop.
Hypothesis HEmpty : P AEmpty.
Hypothesis HLeaf : forall a, P (ALeaf a).
Hypothesis HFlags : P AFlags.
Hypothesis HAssertion : P AAssertion.
Hypothesis HRep : forall k g a, P a -> P (ARep k g a).
Hypothesis HGroup : forall fl a, P a -> P (AGroup fl a).
Hypothesis HAlt : forall l, Forall P l -> P (AAlt l).
Hypothesis HConcat : forall l, Forall P l -> P (AConcat l).
Fixpoint ast_ind' (a:ast) : P a :=
  match a with
  | AEmpty => HEmpty
  | ALeaf x => HLeaf x
  | AFlags => HFlags
  | AAssertion => HAssertion
  | ARep k g a1 => HRep k g a1 (ast_ind' a1)
  | AGroup fl a1 => HGroup fl a1 (ast_ind' a1)
  | AAlt l => HAlt l ((fix go (l:list ast) : Forall P l :=
                         match l with
                         | [] => Forall_nil P
                         | x :: l' => Forall_cons x (ast_ind' x) (go l')
                         end) l)
  | AConcat l => HConcat l ((fix go (l:list ast) : Forall P l :=
                         match l with
                         | [] => Forall_nil P
                         | x :: l' => Forall_cons x (ast_ind' x) (go l')
                         end) l)
  end.
End AstInd.

(* ================= lists ================= *)
Lemma update_spec {A} (f:A -> A) : forall (l:list A) i, i < length l ->
  exists l', update l i f = Some l' /\ length l' = length l /\
    forall j, nth_error l' j = if j =? i then option_map f (nth_error l j) else nth_error l j.
Proof.
  induction l as [|x l IH]; intros i Hi; cbn in Hi; [lia|].
  destruct i as [|i].
  - exists (f x :: l). cbn. split; [reflexivity|]. split; [reflexivity|]. intros [|j]; cbn; auto.
  - destruct (IH i) as (l' & E & Hl & Hn); [lia|]. exists (x :: l'). cbn. rewrite E.
    split; [reflexivity|]. split; [lia|]. intros [|j]; cbn; auto.
Qed.

Lemma nth_error_snoc {A} (l:list A) x j :
  nth_error (l ++ [x]) j =
  if j <? length l then nth_error l j else if j =? length l then Some x else None.
Proof.
  destruct (Nat.ltb_spec j (length l)).
  - apply nth_error_app1; auto.
  - rewrite nth_error_app2 by lia. destruct (Nat.eqb_spec j (length l)).
    + subst. rewrite Nat.sub_diag. reflexivity.
    + destruct (j - length l) as [|k] eqn:Ek; [lia|]. cbn. destruct k; reflexivity.
Qed.

Lemma ids_ok_from_spec l : forall i,
  ids_ok_from i l = true <-> forall q, q < length l -> option_map sid (nth_error l q) = Some (i + q).
Proof.
  induction l as [|s l IH]; intros i; cbn [ids_ok_from length].
  - split; auto. intros _ q Hq. lia.
  - rewrite andb_true_iff, IH, Nat.eqb_eq. split.
    + intros [E H] [|q] Hq; cbn.
      * rewrite E. f_equal. lia.
      * rewrite H by lia. f_equal. lia.
    + intros H. split.
      * specialize (H 0 ltac:(lia)). cbn in H. inversion H. lia.
      * intros q Hq. specialize (H (S q) ltac:(lia)). cbn in H. rewrite H. f_equal. lia.
Qed.

(* ================= the view ================= *)
Lemma out_eps_oob n q : L n <= q -> out_eps n q = [].
Proof. intros H. unfold out_eps. apply nth_error_None in H. rewrite H. reflexivity. Qed.
Lemma out_trs_oob n q : L n <= q -> out_trs n q = [].
Proof. intros H. unfold out_trs. apply nth_error_None in H. rewrite H. reflexivity. Qed.
Lemma sid_at_oob n q : L n <= q -> sid_at n q = None.
Proof. intros H. unfold sid_at. apply nth_error_None in H. rewrite H. reflexivity. Qed.

Lemma adopt_eq m : adopt m = m.
Proof. destruct m; reflexivity. Qed.

(* ---- add_epsilon_transition ---- *)
Lemma add_eps_spec n from to : from < L n ->
  length (out_eps n from) + length (out_trs n from) <= 1 ->
  exists n', nfa_add_epsilon_transition n from to = Ok n' /\
    L n' = L n /\ nstart n' = nstart n /\ nend n' = nend n /\
    (forall q, sid_at n' q = sid_at n q) /\
    (forall q, out_eps n' q = if q =? from then out_eps n q ++ [to] else out_eps n q) /\
    (forall q, out_trs n' q = out_trs n q).
Proof.
  intros Hf Hd. unfold nfa_add_epsilon_transition.
  destruct (update_spec (push_eps to) (nstates n) from Hf) as (l' & E & Hl & Hn).
  rewrite E. pose proof (Hn from) as Hfrom. rewrite Nat.eqb_refl in Hfrom.
  unfold out_eps, out_trs in Hd.
  destruct (nth_error (nstates n) from) as [s|] eqn:Es; [|apply nth_error_None in Es; lia].
  cbn in Hfrom. rewrite Hfrom.
  assert (degree (push_eps to s) <=? 2 = true) as ->.
  { apply Nat.leb_le. unfold degree, push_eps; cbn. rewrite app_length; cbn. lia. }
  eexists. split; [reflexivity|]. unfold with_states, sid_at, out_eps, out_trs; cbn.
  repeat split; auto; intros q; rewrite Hn; nat_cases; auto;
    subst; rewrite Es; reflexivity.
Qed.

(* ---- add_transition ---- *)
Lemma add_tr_spec n from cc to : from < L n ->
  length (out_eps n from) + length (out_trs n from) <= 1 ->
  exists n', nfa_add_transition n from cc to = Ok n' /\
    L n' = L n /\ nstart n' = nstart n /\ nend n' = nend n /\
    (forall q, sid_at n' q = sid_at n q) /\
    (forall q, out_eps n' q = out_eps n q) /\
    (forall q, out_trs n' q = if q =? from then out_trs n q ++ [(cc,to)] else out_trs n q).
Proof.
  intros Hf Hd. unfold nfa_add_transition.
  destruct (update_spec (push_tr cc to) (nstates n) from Hf) as (l' & E & Hl & Hn).
  rewrite E. pose proof (Hn from) as Hfrom. rewrite Nat.eqb_refl in Hfrom.
  unfold out_eps, out_trs in Hd.
  destruct (nth_error (nstates n) from) as [s|] eqn:Es; [|apply nth_error_None in Es; lia].
  cbn in Hfrom. rewrite Hfrom.
  assert (degree (push_tr cc to s) <=? 2 = true) as ->.
  { apply Nat.leb_le. unfold degree, push_tr; cbn. rewrite app_length; cbn. lia. }
  eexists. split; [reflexivity|]. unfold with_states, sid_at, out_eps, out_trs; cbn.
  repeat split; auto; intros q; rewrite Hn; nat_cases; auto;
    subst; rewrite Es; reflexivity.
Qed.

(* ---- new_state ---- *)
Lemma new_state_spec n : exists n', nfa_new_state n = (n', L n) /\
    L n' = S (L n) /\ nstart n' = nstart n /\ nend n' = nend n /\
    (forall q, sid_at n' q = if q =? L n then Some (L n) else sid_at n q) /\
    (forall q, out_eps n' q = out_eps n q) /\
    (forall q, out_trs n' q = out_trs n q).
Proof.
  eexists. split; [reflexivity|]. unfold with_states, sid_at, out_eps, out_trs; cbn.
  rewrite app_length; cbn.
  repeat split; auto; try lia; intros q; rewrite nth_error_snoc; nat_cases; auto; try lia;
    try (assert (Hoob: length (nstates n) <= q) by lia; apply nth_error_None in Hoob; rewrite Hoob; reflexivity).
Qed.

(* ---- shift_ids + append ---- *)
Lemma append_shift_spec n m :
  (forall q, q < L n -> sid_at n q = Some q) -> (forall q, q < L m -> sid_at m q = Some q) ->
  exists r, nfa_append n (nfa_shift_ids m (L n)) = Ok r /\
    L r = L n + L m /\ nstart r = nstart n /\ nend r = nend n /\
    (forall q, q < L n + L m -> sid_at r q = Some q) /\
    (forall q, out_eps r q = if q <? L n then out_eps n q
                             else map (fun t => t + L n) (out_eps m (q - L n))) /\
    (forall q, out_trs r q = if q <? L n then out_trs n q
                             else map (fun p => (fst p, snd p + L n)) (out_trs m (q - L n))).
Proof.
  intros Hn Hm. unfold nfa_append, nfa_shift_ids; cbn [nstates nstart nend].
  set (sts := nstates n ++ map (shift_state (L n)) (nstates m)).
  assert (Hnth : forall q, nth_error sts q =
            if q <? L n then nth_error (nstates n) q
            else option_map (shift_state (L n)) (nth_error (nstates m) (q - L n))).
  { intros q. unfold sts. nat_cases.
    - apply nth_error_app1; auto.
    - rewrite nth_error_app2 by lia. apply nth_error_map. }
  assert (Hlen : length sts = L n + L m) by (unfold sts; rewrite app_length, map_length; lia).
  assert (Hids : forall q, q < L n + L m -> option_map sid (nth_error sts q) = Some q).
  { intros q Hq. rewrite Hnth. nat_cases.
    - apply Hn; auto.
    - specialize (Hm (q - L n) ltac:(lia)). unfold sid_at in Hm.
      destruct (nth_error (nstates m) (q - L n)) as [s|]; [|discriminate].
      cbn in *. inversion Hm. f_equal. lia. }
  assert (ids_ok_from 0 sts = true) as ->.
  { apply ids_ok_from_spec. intros q Hq. rewrite Hlen in Hq. rewrite Hids; auto. }
  eexists. split; [reflexivity|]. unfold with_states, sid_at, out_eps, out_trs; cbn [nstates nstart nend].
  repeat split; auto; intros q; rewrite Hnth; nat_cases; auto;
    destruct (nth_error (nstates m) (q - L n)); reflexivity.
Qed.

Lemma sid_at_set_start n s q : sid_at (set_start n s) q = sid_at n q. Proof. reflexivity. Qed.
Lemma out_eps_set_start n s q : out_eps (set_start n s) q = out_eps n q. Proof. reflexivity. Qed.
Lemma out_trs_set_start n s q : out_trs (set_start n s) q = out_trs n q. Proof. reflexivity. Qed.
Lemma sid_at_set_end n s q : sid_at (set_end n s) q = sid_at n q. Proof. reflexivity. Qed.
Lemma out_eps_set_end n s q : out_eps (set_end n s) q = out_eps n q. Proof. reflexivity. Qed.
Lemma out_trs_set_end n s q : out_trs (set_end n s) q = out_trs n q. Proof. reflexivity. Qed.
Ltac unset := repeat first [ rewrite sid_at_set_start | rewrite out_eps_set_start
  | rewrite out_trs_set_start | rewrite sid_at_set_end | rewrite out_eps_set_end
  | rewrite out_trs_set_end ].

(* ================= the combinators: result and view ================= *)

(* ---- zero_or_one ---- *)
Lemma zero_or_one_spec n : WF n -> exists r, nfa_zero_or_one n = Ok r /\
  L r = S (L n) /\ nstart r = L n /\ nend r = nend n /\
  (forall q, q < S (L n) -> sid_at r q = Some q) /\
  (forall q, out_eps r q = if q =? L n then [nstart n; nend n] else out_eps n q) /\
  (forall q, out_trs r q = out_trs n q).
Proof.
  intros (Hid & Hdeg & Hre & Hrt & Hs & He & Hee & Het).
  unfold nfa_zero_or_one.
  destruct (new_state_spec n) as (n1 & E1 & L1 & S1 & N1 & I1 & O1 & T1). rewrite E1.
  destruct (add_eps_spec n1 (L n) (nstart n1)) as (n2 & E2 & L2 & S2 & N2 & I2 & O2 & T2).
  { lia. } { rewrite O1, T1, out_eps_oob, out_trs_oob by lia. cbn. lia. }
  rewrite E2. cbn [rbind].
  destruct (add_eps_spec n2 (L n) (nend n2)) as (n3 & E3 & L3 & S3 & N3 & I3 & O3 & T3).
  { lia. }
  { rewrite O2, T2, Nat.eqb_refl, O1, T1, out_eps_oob, out_trs_oob by lia. cbn. lia. }
  rewrite E3. cbn [rbind]. eexists. split; [reflexivity|].
  cbn [set_start nstates nstart nend].
  split; [lia|]. split; [reflexivity|]. split; [congruence|].
  split. { intros q Hq. unset. rewrite I3, I2, I1. nat_cases; auto. apply Hid. lia. }
  split. { intros q. unset. rewrite O3, O2, O1, N2, N1, S1. nat_cases; auto.
           rewrite out_eps_oob by lia. reflexivity. }
  intros q. unset. rewrite T3, T2, T1. reflexivity.
Qed.

Lemma zero_or_one_ok n : WF n -> exists r, nfa_zero_or_one n = Ok r /\ WF r.
Proof.
  intros W. destruct (zero_or_one_spec n W) as (r & E & Lr & Sr & Nr & Ir & Or & Tr).
  exists r. split; auto.
  destruct W as (Hid & Hdeg & Hre & Hrt & Hs & He & Hee & Het).
  unfold WF. rewrite Lr, Sr, Nr. repeat split; try lia.
  - exact Ir.
  - intros q. rewrite Or, Tr. nat_cases; auto. subst. rewrite out_trs_oob by lia. cbn. lia.
  - intros q t. rewrite Or. nat_cases.
    + intros [<-|[<-|[]]]; lia.
    + intros HI. apply Hre in HI. lia.
  - intros q cc t. rewrite Tr. intros HI. apply Hrt in HI. lia.
  - rewrite Or. nat_cases. exact Hee.
  - rewrite Tr. exact Het.
Qed.

(* ---- one_or_more ---- *)
Lemma one_or_more_spec n : WF n -> exists r, nfa_one_or_more n = Ok r /\
  L r = S (S (L n)) /\ nstart r = L n /\ nend r = S (L n) /\
  (forall q, q < S (S (L n)) -> sid_at r q = Some q) /\
  (forall q, out_eps r q = if q =? L n then [nstart n]
                           else if q =? nend n then [S (L n); nstart n] else out_eps n q) /\
  (forall q, out_trs r q = out_trs n q).
Proof.
  intros (Hid & Hdeg & Hre & Hrt & Hs & He & Hee & Het).
  unfold nfa_one_or_more.
  destruct (new_state_spec n) as (n1 & E1 & L1 & S1 & N1 & I1 & O1 & T1). rewrite E1.
  destruct (add_eps_spec n1 (L n) (nstart n1)) as (n2 & E2 & L2 & S2 & N2 & I2 & O2 & T2).
  { lia. } { rewrite O1, T1, out_eps_oob, out_trs_oob by lia. cbn. lia. }
  rewrite E2. cbn [rbind].
  destruct (new_state_spec n2) as (n3 & E3 & L3 & S3 & N3 & I3 & O3 & T3). rewrite E3.
  assert (EL : L n2 = S (L n)) by lia.
  destruct (add_eps_spec n3 (nend n3) (L n2)) as (n4 & E4 & L4 & S4 & N4 & I4 & O4 & T4).
  { lia. }
  { rewrite O3, T3, O2, T2, O1, T1. replace (nend n3) with (nend n) by congruence.
    nat_cases. rewrite Hee, Het. cbn. lia. }
  rewrite E4. cbn [rbind].
  destruct (add_eps_spec n4 (nend n4) (nstart n4)) as (n5 & E5 & L5 & S5 & N5 & I5 & O5 & T5).
  { lia. }
  { rewrite O4, T4, O3, T3, O2, T2, O1, T1. replace (nend n4) with (nend n) by congruence.
    replace (nend n3) with (nend n) by congruence.
    rewrite Nat.eqb_refl. nat_cases. rewrite Hee, Het. cbn. lia. }
  rewrite E5. cbn [rbind]. eexists. split; [reflexivity|].
  cbn [set_start set_end nstates nstart nend].
  split; [lia|]. split; [reflexivity|]. split; [lia|].
  split. { intros q Hq. unset. rewrite I5, I4, I3, I2, I1, EL. nat_cases; auto. apply Hid. lia. }
  split. { intros q. unset. rewrite O5, O4, O3, O2, O1.
           replace (nend n4) with (nend n) by congruence. replace (nend n3) with (nend n) by congruence.
           replace (nstart n4) with (nstart n) by congruence. replace (nstart n1) with (nstart n) by congruence.
           rewrite EL. nat_cases; auto; subst; rewrite ?Hee; rewrite ?out_eps_oob by lia; reflexivity. }
  intros q. unset. rewrite T5, T4, T3, T2, T1. reflexivity.
Qed.

Lemma one_or_more_ok n : WF n -> exists r, nfa_one_or_more n = Ok r /\ WF r.
Proof.
  intros W. destruct (one_or_more_spec n W) as (r & E & Lr & Sr & Nr & Ir & Or & Tr).
  exists r. split; auto.
  destruct W as (Hid & Hdeg & Hre & Hrt & Hs & He & Hee & Het).
  unfold WF. rewrite Lr, Sr, Nr. repeat split; try lia.
  - exact Ir.
  - intros q. rewrite Or, Tr. nat_cases; auto.
    + subst. rewrite out_trs_oob by lia. cbn. lia.
    + subst. rewrite Het. cbn. lia.
  - intros q t. rewrite Or. nat_cases.
    + intros [<-|[]]; lia.
    + intros [<-|[<-|[]]]; lia.
    + intros HI. apply Hre in HI. lia.
  - intros q cc t. rewrite Tr. intros HI. apply Hrt in HI. lia.
  - rewrite Or. nat_cases. apply out_eps_oob. lia.
  - rewrite Tr. apply out_trs_oob. lia.
Qed.

(* ---- zero_or_more ---- *)
Lemma zero_or_more_spec n : WF n -> exists r, nfa_zero_or_more n = Ok r /\
  L r = S (S (L n)) /\ nstart r = L n /\ nend r = S (L n) /\
  (forall q, q < S (S (L n)) -> sid_at r q = Some q) /\
  (forall q, out_eps r q = if q =? L n then [nstart n; nend n]
                           else if q =? nend n then [S (L n); nstart n] else out_eps n q) /\
  (forall q, out_trs r q = out_trs n q).
Proof.
  intros (Hid & Hdeg & Hre & Hrt & Hs & He & Hee & Het).
  unfold nfa_zero_or_more.
  destruct (new_state_spec n) as (n1 & E1 & L1 & S1 & N1 & I1 & O1 & T1). rewrite E1.
  destruct (add_eps_spec n1 (L n) (nstart n1)) as (n2 & E2 & L2 & S2 & N2 & I2 & O2 & T2).
  { lia. } { rewrite O1, T1, out_eps_oob, out_trs_oob by lia. cbn. lia. }
  rewrite E2. cbn [rbind].
  destruct (add_eps_spec n2 (L n) (nend n2)) as (n2' & E2' & L2' & S2' & N2' & I2' & O2' & T2').
  { lia. }
  { rewrite O2, T2, Nat.eqb_refl, O1, T1, out_eps_oob, out_trs_oob by lia. cbn. lia. }
  rewrite E2'. cbn [rbind].
  destruct (new_state_spec n2') as (n3 & E3 & L3 & S3 & N3 & I3 & O3 & T3). rewrite E3.
  assert (EL : L n2' = S (L n)) by lia.
  destruct (add_eps_spec n3 (nend n3) (L n2')) as (n4 & E4 & L4 & S4 & N4 & I4 & O4 & T4).
  { lia. }
  { rewrite O3, T3, O2', T2', O2, T2, O1, T1. replace (nend n3) with (nend n) by congruence.
    nat_cases. rewrite Hee, Het. cbn. lia. }
  rewrite E4. cbn [rbind].
  destruct (add_eps_spec n4 (nend n4) (nstart n4)) as (n5 & E5 & L5 & S5 & N5 & I5 & O5 & T5).
  { lia. }
  { rewrite O4, T4, O3, T3, O2', T2', O2, T2, O1, T1. replace (nend n4) with (nend n) by congruence.
    replace (nend n3) with (nend n) by congruence.
    rewrite Nat.eqb_refl. nat_cases. rewrite Hee, Het. cbn. lia. }
  rewrite E5. cbn [rbind]. eexists. split; [reflexivity|].
  cbn [set_start set_end nstates nstart nend].
  split; [lia|]. split; [reflexivity|]. split; [lia|].
  split. { intros q Hq. unset. rewrite I5, I4, I3, I2', I2, I1, EL. nat_cases; auto. apply Hid. lia. }
  split. { intros q. unset. rewrite O5, O4, O3, O2', O2, O1.
           replace (nend n4) with (nend n) by congruence. replace (nend n3) with (nend n) by congruence.
           replace (nend n2) with (nend n) by congruence.
           replace (nstart n4) with (nstart n) by congruence. replace (nstart n1) with (nstart n) by congruence.
           rewrite EL. nat_cases; auto; subst; rewrite ?Hee; rewrite ?out_eps_oob by lia; reflexivity. }
  intros q. unset. rewrite T5, T4, T3, T2', T2, T1. reflexivity.
Qed.

Lemma zero_or_more_ok n : WF n -> exists r, nfa_zero_or_more n = Ok r /\ WF r.
Proof.
  intros W. destruct (zero_or_more_spec n W) as (r & E & Lr & Sr & Nr & Ir & Or & Tr).
  exists r. split; auto.
  destruct W as (Hid & Hdeg & Hre & Hrt & Hs & He & Hee & Het).
  unfold WF. rewrite Lr, Sr, Nr. repeat split; try lia.
  - exact Ir.
  - intros q. rewrite Or, Tr. nat_cases; auto.
    + subst. rewrite out_trs_oob by lia. cbn. lia.
    + subst. rewrite Het. cbn. lia.
  - intros q t. rewrite Or. nat_cases.
    + intros [<-|[<-|[]]]; lia.
    + intros [<-|[<-|[]]]; lia.
    + intros HI. apply Hre in HI. lia.
  - intros q cc t. rewrite Tr. intros HI. apply Hrt in HI. lia.
  - rewrite Or. nat_cases. apply out_eps_oob. lia.
  - rewrite Tr. apply out_trs_oob. lia.
Qed.

(* ---- concat (the branch without the is_empty shortcut) ---- *)
Lemma concat_spec n m : WF n -> WF m -> nfa_is_empty n = false ->
  exists r, nfa_concat n m = Ok r /\
  L r = L n + L m /\ nstart r = nstart n /\ nend r = nend m + L n /\
  (forall q, q < L n + L m -> sid_at r q = Some q) /\
  (forall q, out_eps r q = if q =? nend n then [nstart m + L n]
                           else if q <? L n then out_eps n q
                           else map (fun t => t + L n) (out_eps m (q - L n))) /\
  (forall q, out_trs r q = if q <? L n then out_trs n q
                           else map (fun p => (fst p, snd p + L n)) (out_trs m (q - L n))).
Proof.
  intros (Hid & Hdeg & Hre & Hrt & Hs & He & Hee & Het) (Hid' & _) Hemp.
  unfold nfa_concat. rewrite Hemp.
  destruct (append_shift_spec n m Hid Hid') as (n1 & E1 & L1 & S1 & N1 & I1 & O1 & T1).
  rewrite E1. cbn [rbind nfa_shift_ids nstart nend].
  destruct (add_eps_spec n1 (nend n1) (nstart m + L n)) as (n2 & E2 & L2 & S2 & N2 & I2 & O2 & T2).
  { lia. }
  { rewrite O1, T1, N1. nat_cases. rewrite Hee, Het. cbn. lia. }
  rewrite E2. cbn [rbind]. eexists. split; [reflexivity|].
  cbn [set_start set_end nstates nstart nend].
  split; [lia|]. split; [congruence|]. split; [reflexivity|].
  split. { intros q Hq. unset. rewrite I2. auto. }
  split. { intros q. unset. rewrite O2, O1, N1. nat_cases; auto. subst. rewrite Hee. reflexivity. }
  intros q. unset. rewrite T2, T1. reflexivity.
Qed.

Lemma in_map_shift k t l : In t (map (fun t => t + k) l) -> exists t', t = t' + k /\ In t' l.
Proof. intros H. apply in_map_iff in H as (t' & <- & H). eauto. Qed.
Lemma in_map_shift_tr k cc t (l:list (N * nat)) :
  In (cc,t) (map (fun p => (fst p, snd p + k)) l) -> exists t', t = t' + k /\ In (cc,t') l.
Proof. intros H. apply in_map_iff in H as ([cc' t'] & E & H). cbn in E. inversion E; subst. eauto. Qed.

Lemma is_empty_shape n : nfa_is_empty n = true ->
  nstart n = 0 /\ nend n = 0 /\ L n = 1 /\ out_eps n 0 = [] /\ out_trs n 0 = [].
Proof.
  unfold nfa_is_empty. rewrite !andb_true_iff, !Nat.eqb_eq. intros (((A & B) & C) & D).
  unfold out_eps, out_trs. destruct (nstates n) as [|s l]; [discriminate|]. cbn.
  unfold state_is_empty in D. destruct (strs s), (seps s); try discriminate. auto.
Qed.

Lemma concat_ok n m : WF n -> WF m -> exists r, nfa_concat n m = Ok r /\ WF r.
Proof.
  intros W W'. destruct (nfa_is_empty n) eqn:Hemp.
  - exists m. unfold nfa_concat. rewrite Hemp, adopt_eq. auto.
  - destruct (concat_spec n m W W' Hemp) as (r & E & Lr & Sr & Nr & Ir & Or & Tr).
    exists r. split; auto.
    destruct W as (Hid & Hdeg & Hre & Hrt & Hs & He & Hee & Het).
    destruct W' as (Hid' & Hdeg' & Hre' & Hrt' & Hs' & He' & Hee' & Het').
    unfold WF. rewrite Lr, Sr, Nr. repeat split; try lia.
    + exact Ir.
    + intros q. rewrite Or, Tr. nat_cases; auto.
      * subst. rewrite Het. cbn. lia.
      * rewrite !map_length. auto.
    + intros q t. rewrite Or. nat_cases.
      * intros [<-|[]]; lia.
      * intros HI. apply Hre in HI. lia.
      * intros HI. apply in_map_shift in HI as (t' & -> & HI). apply Hre' in HI. lia.
    + intros q cc t. rewrite Tr. nat_cases.
      * intros HI. apply Hrt in HI. lia.
      * intros HI. apply in_map_shift_tr in HI as (t' & -> & HI). apply Hrt' in HI. lia.
    + rewrite Or. nat_cases. replace (nend m + L n - L n) with (nend m) by lia.
      rewrite Hee'. reflexivity.
    + rewrite Tr. nat_cases. replace (nend m + L n - L n) with (nend m) by lia.
      rewrite Het'. reflexivity.
Qed.

(* ---- unite ---- *)
Lemma unite_spec n m : WF n -> WF m ->
  exists r, nfa_unite n m = Ok r /\
  L r = S (S (L n + L m)) /\ nstart r = L n + L m /\ nend r = S (L n + L m) /\
  (forall q, q < S (S (L n + L m)) -> sid_at r q = Some q) /\
  (forall q, out_eps r q =
     if q =? L n + L m then [nstart n; nstart m + L n]
     else if q =? nend n then [S (L n + L m)]
     else if q =? nend m + L n then [S (L n + L m)]
     else if q <? L n then out_eps n q
     else map (fun t => t + L n) (out_eps m (q - L n))) /\
  (forall q, out_trs r q = if q <? L n then out_trs n q
                           else map (fun p => (fst p, snd p + L n)) (out_trs m (q - L n))).
Proof.
  intros (Hid & Hdeg & Hre & Hrt & Hs & He & Hee & Het)
         (Hid' & Hdeg' & Hre' & Hrt' & Hs' & He' & Hee' & Het').
  unfold nfa_unite.
  destruct (append_shift_spec n m Hid Hid') as (n1 & E1 & L1 & S1 & N1 & I1 & O1 & T1).
  rewrite E1. cbn [rbind nfa_shift_ids nstart nend].
  destruct (new_state_spec n1) as (n2 & E2 & L2 & S2 & N2 & I2 & O2 & T2). rewrite E2.
  assert (Em : forall q, L m <= q -> map (fun t => t + L n) (out_eps m q) = []).
  { intros q Hq. rewrite out_eps_oob by lia. reflexivity. }
  assert (Em' : forall q, L m <= q -> map (fun p : N * nat => (fst p, snd p + L n)) (out_trs m q) = []).
  { intros q Hq. rewrite out_trs_oob by lia. reflexivity. }
  destruct (add_eps_spec n2 (L n1) (nstart n2)) as (n3 & E3 & L3 & S3 & N3 & I3 & O3 & T3).
  { lia. }
  { rewrite O2, T2, O1, T1. nat_cases. rewrite Em, Em' by lia. cbn. lia. }
  rewrite E3. cbn [rbind].
  destruct (add_eps_spec n3 (L n1) (nstart m + L n)) as (n4 & E4 & L4 & S4 & N4 & I4 & O4 & T4).
  { lia. }
  { rewrite O3, T3, Nat.eqb_refl, O2, T2, O1, T1. nat_cases. rewrite Em, Em' by lia. cbn. lia. }
  rewrite E4. cbn [rbind].
  destruct (new_state_spec n4) as (n5 & E5 & L5 & S5 & N5 & I5 & O5 & T5). rewrite E5.
  assert (EN5 : nend n5 = nend n) by congruence.
  assert (EL4 : L n4 = S (L n + L m)) by lia.
  destruct (add_eps_spec n5 (nend n5) (L n4)) as (n6 & E6 & L6 & S6 & N6 & I6 & O6 & T6).
  { lia. }
  { rewrite O5, T5, O4, T4, O3, T3, O2, T2, O1, T1, EN5, L1. nat_cases. rewrite Hee, Het. cbn. lia. }
  rewrite E6. cbn [rbind].
  destruct (add_eps_spec n6 (nend m + L n) (L n4)) as (n7 & E7 & L7 & S7 & N7 & I7 & O7 & T7).
  { lia. }
  { rewrite O6, T6, O5, T5, O4, T4, O3, T3, O2, T2, O1, T1, EN5, L1. nat_cases.
    replace (nend m + L n - L n) with (nend m) by lia. rewrite Hee', Het'. cbn. lia. }
  rewrite E7. cbn [rbind]. eexists. split; [reflexivity|].
  cbn [set_start set_end nstates nstart nend].
  split; [lia|]. split; [lia|]. split; [lia|].
  split. { intros q Hq. unset. rewrite I7, I6, I5, I4, I3, I2, EL4, L1. nat_cases; auto; subst; auto. apply I1. lia. }
  split. { intros q. unset. rewrite O7, O6, O5, O4, O3, O2, O1, EN5, EL4, L1.
           replace (nstart n2) with (nstart n) by congruence.
           nat_cases; auto; subst; rewrite ?Hee; rewrite ?Em by lia; try reflexivity.
           all: replace (nend m + L n - L n) with (nend m) by lia; rewrite Hee'; reflexivity. }
  intros q. unset. rewrite T7, T6, T5, T4, T3, T2, T1. reflexivity.
Qed.

Lemma unite_ok n m : WF n -> WF m -> exists r, nfa_unite n m = Ok r /\ WF r.
Proof.
  intros W W'. destruct (unite_spec n m W W') as (r & E & Lr & Sr & Nr & Ir & Or & Tr).
  exists r. split; auto.
  destruct W as (Hid & Hdeg & Hre & Hrt & Hs & He & Hee & Het).
  destruct W' as (Hid' & Hdeg' & Hre' & Hrt' & Hs' & He' & Hee' & Het').
  unfold WF. rewrite Lr, Sr, Nr. repeat split; try lia.
  - exact Ir.
  - intros q. rewrite Or, Tr. nat_cases; auto; subst;
      rewrite ?Het, ?out_trs_oob, ?map_length by lia; cbn; auto; try lia.
    replace (nend m + L n - L n) with (nend m) by lia. rewrite Het'. cbn. lia.
  - intros q t. rewrite Or. nat_cases.
    + intros [<-|[<-|[]]]; lia.
    + intros [<-|[]]; lia.
    + intros [<-|[]]; lia.
    + intros HI. apply Hre in HI. lia.
    + intros HI. apply in_map_shift in HI as (t' & -> & HI). apply Hre' in HI. lia.
  - intros q cc t. rewrite Tr. nat_cases.
    + intros HI. apply Hrt in HI. lia.
    + intros HI. apply in_map_shift_tr in HI as (t' & -> & HI). apply Hrt' in HI. lia.
  - rewrite Or. nat_cases. rewrite out_eps_oob by lia. reflexivity.
  - rewrite Tr. nat_cases. rewrite out_trs_oob by lia. reflexivity.
Qed.

Lemma alternation_ok n m : WF n -> WF m -> exists r, nfa_alternation n m = Ok r /\ WF r.
Proof.
  intros W W'. unfold nfa_alternation. destruct (nfa_is_empty n).
  - exists m. rewrite adopt_eq. auto.
  - apply unite_ok; auto.
Qed.

(* ---- Nfa::new and the leaf ---- *)
Lemma WF_new : WF nfa_new.
Proof.
  unfold WF; cbn. repeat split; auto.
  - intros [|q] Hq; [reflexivity|lia].
  - intros [|[|q]]; cbn; lia.
  - intros [|[|q]] t; cbn; tauto.
  - intros [|[|q]] cc t; cbn; tauto.
Qed.

Definition leaf_nfa (cc:N) : nfa :=
  {| nstates := [ {| sid := 0; seps := []; strs := [(cc,1)] |}; empty_state 1 ];
     nstart := 0; nend := 1 |}.
Lemma leaf_eq cc : nfa_leaf cc = Ok (leaf_nfa cc).
Proof. reflexivity. Qed.
Lemma WF_leaf cc : WF (leaf_nfa cc).
Proof.
  unfold WF; cbn. repeat split; auto.
  - intros [|[|q]] Hq; try reflexivity; lia.
  - intros [|[|[|q]]]; cbn; lia.
  - intros [|[|[|q]]] t; cbn; tauto.
  - intros [|[|[|q]]] c t; cbn; try tauto. intros [H|[]]. inversion H. lia.
Qed.

(* ---- the repetition counts ---- *)
Lemma repeat_concat_ok k : forall acc m, WF acc -> WF m ->
  exists r, repeat_concat k acc m = Ok r /\ WF r.
Proof.
  induction k as [|k IH]; intros acc m Wa Wm; cbn [repeat_concat].
  - eauto.
  - destruct (concat_ok acc m Wa Wm) as (a & E & Wa'). rewrite E. cbn [rbind]. apply IH; auto.
Qed.

Lemma rep_build_ok k n : WF n -> exists r, rep_build k n = Ok r /\ WF r.
Proof.
  intros W. destruct k as [| | |c|c|lo hi]; cbn [rep_build].
  - apply zero_or_one_ok; auto.
  - apply zero_or_more_ok; auto.
  - apply one_or_more_ok; auto.
  - apply repeat_concat_ok; auto using WF_new.
  - destruct (repeat_concat_ok c nfa_new n WF_new W) as (a & E & Wa). rewrite E. cbn [rbind].
    destruct (zero_or_more_ok n W) as (z & Ez & Wz). rewrite Ez. cbn [rbind].
    apply concat_ok; auto.
  - destruct (repeat_concat_ok lo nfa_new n WF_new W) as (a & E & Wa). rewrite E. cbn [rbind].
    destruct (zero_or_one_ok n W) as (z & Ez & Wz). rewrite Ez. cbn [rbind].
    apply repeat_concat_ok; auto.
Qed.

(* ================= stage 1: try_from_ast ================= *)
Definition good (a:ast) : Prop :=
  (supported a = true -> exists n, try_from_ast a = Built n /\ WF n) /\
  (supported a = false -> try_from_ast a = Unsupported).

Lemma cat_loop_good l : Forall good l -> forall acc, WF acc ->
  (forallb supported l = true -> exists n, cat_loop try_from_ast acc l = Built n /\ WF n) /\
  (forallb supported l = false -> cat_loop try_from_ast acc l = Unsupported).
Proof.
  induction 1 as [|a l [Ht Hf] _ IH]; intros acc Wa; cbn [forallb cat_loop].
  - split; [eauto|discriminate].
  - destruct (supported a) eqn:Sa; cbn [andb].
    + destruct (Ht eq_refl) as (n2 & E & W2). rewrite E.
      destruct (concat_ok acc n2 Wa W2) as (acc' & Ec & Wa'). rewrite Ec. apply IH; auto.
    + rewrite (Hf eq_refl). split; [discriminate|auto].
Qed.

Lemma alt_loop_good l : Forall good l -> forall first acc, WF acc ->
  (forallb supported l = true -> exists n, alt_loop try_from_ast first acc l = Built n /\ WF n) /\
  (forallb supported l = false -> alt_loop try_from_ast first acc l = Unsupported).
Proof.
  induction 1 as [|a l [Ht Hf] _ IH]; intros first acc Wa; cbn [forallb alt_loop].
  - split; [eauto|discriminate].
  - destruct (supported a) eqn:Sa; cbn [andb].
    + destruct (Ht eq_refl) as (n2 & E & W2). rewrite E.
      assert (exists acc', (if first then nfa_alternation acc n2 else nfa_unite acc n2) = Ok acc' /\ WF acc')
        as (acc' & Ec & Wa').
      { destruct first; [apply alternation_ok|apply unite_ok]; auto. }
      rewrite Ec. apply IH; auto.
    + rewrite (Hf eq_refl). split; [discriminate|auto].
Qed.

Lemma try_from_ast_good a : good a.
Proof.
  induction a as [|x| | |k g a IH|fl a IH|l IH|l IH] using ast_ind'; unfold good; cbn [supported try_from_ast].
  - split; [intros _; exists nfa_new; split; [reflexivity|apply WF_new] | discriminate].
  - rewrite leaf_eq. cbn [lift]. split; [intros _; eexists; split; [reflexivity|apply WF_leaf] | discriminate].
  - split; [discriminate|auto].
  - split; [discriminate|auto].
  - destruct IH as [Ht Hf]. destruct (supported a) eqn:Sa.
    + destruct (Ht eq_refl) as (n2 & E & W2). rewrite E. destruct g; cbn [andb negb].
      * split; [intros _|discriminate].
        destruct (rep_build_ok k n2 W2) as (r & Er & Wr). rewrite Er. cbn [lift]. eauto.
      * split; [discriminate|auto].
    + rewrite (Hf eq_refl). rewrite andb_false_r. split; [discriminate|auto].
  - destruct IH as [Ht Hf]. destruct fl; cbn [negb andb].
    + split; [discriminate|auto].
    + split; auto.
  - apply alt_loop_good; auto using WF_new.
  - apply cat_loop_good; auto using WF_new.
Qed.

Theorem try_from_ast_total a : try_from_ast a <> Panicked.
Proof.
  destruct (try_from_ast_good a) as [Ht Hf]. destruct (supported a).
  - destruct (Ht eq_refl) as (n & E & _). rewrite E. discriminate.
  - rewrite (Hf eq_refl). discriminate.
Qed.

Theorem supported_builds a : supported a = true -> exists n, try_from_ast a = Built n.
Proof. intros H. destruct (try_from_ast_good a) as [Ht _]. destruct (Ht H) as (n & E & _). eauto. Qed.

Theorem unsupported_rejected a : supported a = false -> try_from_ast a = Unsupported.
Proof. intros H. destruct (try_from_ast_good a) as [_ Hf]. auto. Qed.

Theorem built_wf a n : try_from_ast a = Built n -> WF n.
Proof.
  intros E. destruct (try_from_ast_good a) as [Ht Hf]. destruct (supported a).
  - destruct (Ht eq_refl) as (n' & E' & W). congruence.
  - rewrite (Hf eq_refl) in E. discriminate.
Qed.

Theorem built_supported a n : try_from_ast a = Built n -> supported a = true.
Proof.
  intros E. destruct (supported a) eqn:S; auto. rewrite (unsupported_rejected a S) in E. discriminate.
Qed.

(* the list translations of Spec.core_of_ast as top-level functions *)
Fixpoint core_alts (l:list ast) : option re :=
  match l with
  | [] => Some Emp
  | [a'] => core_of_ast a'
  | a' :: l' => match core_of_ast a', core_alts l' with Some r, Some s => Some (Alt r s) | _, _ => None end
  end.
Fixpoint core_cats (l:list ast) : option re :=
  match l with
  | [] => Some Eps
  | a' :: l' => match core_of_ast a', core_cats l' with Some r, Some s => Some (Cat r s) | _, _ => None end
  end.
Lemma core_alt_eq l : core_of_ast (AAlt l) = core_alts l.
Proof. reflexivity. Qed.
Lemma core_concat_eq l : core_of_ast (AConcat l) = core_cats l.
Proof. reflexivity. Qed.

(* supported agrees with the specification's translation *)
Lemma supported_core a : supported a = true <-> core_of_ast a <> None.
Proof.
  induction a as [|x| | |k g a IH|fl a IH|l IH|l IH] using ast_ind';
    rewrite ?core_alt_eq, ?core_concat_eq; cbn [supported core_of_ast].
  - split; [discriminate|auto].
  - split; [discriminate|auto].
  - split; [discriminate|congruence].
  - split; [discriminate|congruence].
  - destruct IH as [I1 I2]. destruct (core_of_ast a) as [r|] eqn:Ca.
    + rewrite I2 by discriminate. destruct g; cbn [negb andb];
        split; try discriminate; congruence.
    + assert (supported a = false) as ->.
      { destruct (supported a); auto. exfalso. apply I1; auto. }
      rewrite andb_false_r. split; [discriminate|congruence].
  - destruct fl; cbn [negb andb]; [split; [discriminate|congruence]|exact IH].
  - induction IH as [|a l Ha Hl IHl]; cbn [forallb].
    + split; [discriminate|auto].
    + rewrite andb_true_iff, Ha, IHl. destruct l as [|b l'].
      * cbn [core_alts]. split; [tauto|]. intros H. split; [auto|discriminate].
      * change (core_alts (a :: b :: l')) with
          (match core_of_ast a, core_alts (b :: l') with Some r, Some s => Some (Alt r s) | _, _ => None end).
        destruct (core_of_ast a); destruct (core_alts (b :: l'));
          split; try discriminate; try tauto; try (intros [? ?]; congruence).
        intros _; split; discriminate.
  - induction IH as [|a l Ha Hl IHl]; cbn [forallb core_cats].
    + split; [discriminate|auto].
    + rewrite andb_true_iff, Ha, IHl. destruct (core_of_ast a); destruct (core_cats l);
        split; try discriminate; try tauto; try (intros [? ?]; congruence).
      intros _; split; discriminate.
Qed.

(* ================= stage 2: languages ================= *)
Section GPathLemmas.
Variable E : nat -> nat -> Prop.
Variable C : nat -> N -> nat -> Prop.
Lemma gpath_app q u q1 v q' : gpath E C q u q1 -> gpath E C q1 v q' -> gpath E C q (u ++ v) q'.
Proof.
  induction 1; intros H2; cbn [app]; auto.
  - eapply GEps; eauto.
  - eapply GCh; eauto.
Qed.
Lemma gpath_stuck q w q' : (forall b, ~ E q b) -> (forall c b, ~ C q c b) ->
  gpath E C q w q' -> w = [] /\ q' = q.
Proof.
  intros HE HC H. destruct H; auto.
  - exfalso. eapply HE; eauto.
  - exfalso. eapply HC; eauto.
Qed.
End GPathLemmas.

Lemma gpath_map (f:nat -> nat) (E E':nat -> nat -> Prop) (C C':nat -> N -> nat -> Prop) :
  (forall a b, E a b -> E' (f a) (f b)) -> (forall a c b, C a c b -> C' (f a) c (f b)) ->
  forall q w q', gpath E C q w q' -> gpath E' C' (f q) w (f q').
Proof.
  intros HE HC q w q' H. induction H.
  - constructor.
  - eapply GEps; eauto.
  - eapply GCh; eauto.
Qed.

Section Lang.
Variable tbl : N -> N -> bool.

Lemma eps_edge_range n a b : WF n -> eps_edge n a b -> a < L n /\ b < L n.
Proof.
  intros (_ & _ & Hre & _) H. split; [|eapply Hre; eauto].
  destruct (Nat.lt_ge_cases a (L n)); auto. unfold eps_edge in H. rewrite out_eps_oob in H by lia. destruct H.
Qed.
Lemma ch_edge_range n a c b : WF n -> ch_edge tbl n a c b -> a < L n /\ b < L n.
Proof.
  intros (_ & _ & _ & Hrt & _) (cc & H & _). split; [|eapply Hrt; eauto].
  destruct (Nat.lt_ge_cases a (L n)); auto. rewrite out_trs_oob in H by lia. destruct H.
Qed.

Lemma path_end_stuck n w q' : WF n -> nfa_path tbl n (nend n) w q' -> w = [] /\ q' = nend n.
Proof.
  intros (_ & _ & _ & _ & _ & _ & Hee & Het). apply gpath_stuck.
  - intros b H. unfold eps_edge in H. rewrite Hee in H. destruct H.
  - intros c b (cc & H & _). rewrite Het in H. destruct H.
Qed.

(* embedding of the paths of n into an NFA whose edges extend those of n *)
Lemma path_embed n r q w q' :
  (forall a b, eps_edge n a b -> eps_edge r a b) ->
  (forall a cc b, In (cc,b) (out_trs n a) -> In (cc,b) (out_trs r a)) ->
  nfa_path tbl n q w q' -> nfa_path tbl r q w q'.
Proof.
  intros HE HT H. unfold nfa_path.
  exact (gpath_map (fun x => x) _ _ _ _ HE
           (fun a c b '(ex_intro _ cc (conj H1 H2)) => ex_intro _ cc (conj (HT a cc b H1) H2)) q w q' H).
Qed.
Lemma path_embed_shift k n r q w q' :
  (forall a b, eps_edge n a b -> eps_edge r (a + k) (b + k)) ->
  (forall a cc b, In (cc,b) (out_trs n a) -> In (cc,b + k) (out_trs r (a + k))) ->
  nfa_path tbl n q w q' -> nfa_path tbl r (q + k) w (q' + k).
Proof.
  intros HE HT H. unfold nfa_path.
  exact (gpath_map (fun x => x + k) _ _ _ _ HE
           (fun a c b '(ex_intro _ cc (conj H1 H2)) => ex_intro _ cc (conj (HT a cc b H1) H2)) q w q' H).
Qed.

(* ---- zero_or_one ---- *)
Lemma zero_or_one_lang n r : WF n -> nfa_zero_or_one n = Ok r ->
  forall w, nfa_lang tbl r w <-> w = [] \/ nfa_lang tbl n w.
Proof.
  intros W E. destruct (zero_or_one_spec n W) as (r' & E' & Lr & Sr & Nr & Ir & Or & Tr).
  rewrite E in E'. inversion E'; subst r'. clear E'.
  pose proof W as (Hid & Hdeg & Hre & Hrt & Hs & He & Hee & Het).
  intros w. unfold nfa_lang. rewrite Sr, Nr. split.
  - assert (G : forall q w q', nfa_path tbl r q w q' -> q' = nend n ->
               (q < L n -> nfa_path tbl n q w (nend n)) /\
               (q = L n -> w = [] \/ nfa_path tbl n (nstart n) w (nend n))).
    { clear w. intros q w q' H. induction H as [q|q q1 w q' HE H IH|q c q1 w q' HC H IH]; intros ->.
      - split; [intros _; constructor|lia].
      - specialize (IH eq_refl) as [IH1 IH2]. unfold eps_edge in HE. rewrite Or in HE.
        split; intros Hq; nat_cases_in HE; try lia.
        + eapply GEps; [exact HE|]. apply IH1. eapply Hre; eauto.
        + destruct HE as [<-|[<-|[]]].
          * right. auto.
          * left. apply (path_end_stuck n w (nend n) W). auto.
      - specialize (IH eq_refl) as [IH1 IH2]. destruct HC as (cc & HC & Ht). rewrite Tr in HC.
        split; intros Hq.
        + eapply GCh; [exists cc; eauto|]. apply IH1. eapply Hrt; eauto.
        + subst. rewrite out_trs_oob in HC by lia. destruct HC. }
    intros H. apply (G _ _ _ H); auto.
  - assert (Emb : forall q w q', nfa_path tbl n q w q' -> nfa_path tbl r q w q').
    { intros q u q'. apply path_embed.
      - intros a b H. destruct (eps_edge_range n a b W H). unfold eps_edge in *. rewrite Or. nat_cases. auto.
      - intros a cc b H. rewrite Tr. auto. }
    intros [->|H].
    + eapply GEps; [|constructor]. unfold eps_edge. rewrite Or, Nat.eqb_refl. cbn; auto.
    + eapply GEps; [|apply Emb; exact H]. unfold eps_edge. rewrite Or, Nat.eqb_refl. cbn; auto.
Qed.

(* ---- one_or_more ---- *)
Lemma one_or_more_lang n r : WF n -> nfa_one_or_more n = Ok r ->
  forall w, nfa_lang tbl r w <->
            exists u v, w = u ++ v /\ nfa_lang tbl n u /\ lstar (nfa_lang tbl n) v.
Proof.
  intros W E. destruct (one_or_more_spec n W) as (r' & E' & Lr & Sr & Nr & Ir & Or & Tr).
  rewrite E in E'. inversion E'; subst r'. clear E'.
  pose proof W as (Hid & Hdeg & Hre & Hrt & Hs & He & Hee & Het).
  intros w. unfold nfa_lang at 1. rewrite Sr, Nr. split.
  - assert (G : forall q w q', nfa_path tbl r q w q' -> q' = S (L n) ->
               (q < L n -> exists u v, w = u ++ v /\ nfa_path tbl n q u (nend n) /\ lstar (nfa_lang tbl n) v) /\
               (q = L n -> exists u v, w = u ++ v /\ nfa_lang tbl n u /\ lstar (nfa_lang tbl n) v) /\
               (q = S (L n) -> w = [])).
    { clear w. intros q w q' H. induction H as [q|q q1 w q' HE H IH|q c q1 w q' HC H IH]; intros ->.
      - repeat split; auto; lia.
      - specialize (IH eq_refl) as (IH1 & IH2 & IH3). unfold eps_edge in HE. rewrite Or in HE.
        repeat split; intros Hq; nat_cases_in HE; try lia.
        + destruct HE as [<-|[<-|[]]].
          * rewrite (IH3 eq_refl). exists [], []. subst q. repeat split; constructor.
          * destruct (IH1 Hs) as (u & v & -> & Hu & Hv). exists [], (u ++ v). subst q.
            repeat split; [constructor|]. constructor; auto.
        + destruct (IH1 ltac:(eapply Hre; eauto)) as (u & v & -> & Hu & Hv).
          exists u, v. repeat split; auto. eapply GEps; eauto.
        + destruct HE as [<-|[]]. destruct (IH1 Hs) as (u & v & -> & Hu & Hv). exists u, v. auto.
        + rewrite out_eps_oob in HE by lia. destruct HE.
      - specialize (IH eq_refl) as (IH1 & IH2 & IH3). destruct HC as (cc & HC & Ht). rewrite Tr in HC.
        repeat split; intros Hq; try (subst; rewrite out_trs_oob in HC by lia; destruct HC).
        destruct (IH1 ltac:(eapply Hrt; eauto)) as (u & v & -> & Hu & Hv).
        exists (c :: u), v. repeat split; auto. eapply GCh; [exists cc; eauto|auto]. }
    intros H. apply (G _ _ _ H); auto.
  - assert (Emb : forall q w q', nfa_path tbl n q w q' -> nfa_path tbl r q w q').
    { intros q u q'. apply path_embed.
      - intros a b H. destruct (eps_edge_range n a b W H). unfold eps_edge in *. rewrite Or. nat_cases; auto.
        subst. rewrite Hee in H. destruct H.
      - intros a cc b H. rewrite Tr. auto. }
    assert (Loop : forall v, lstar (nfa_lang tbl n) v -> nfa_path tbl r (nend n) v (S (L n))).
    { induction 1 as [|u v Hu Hv IH].
      - eapply GEps; [|constructor]. unfold eps_edge. rewrite Or. nat_cases. cbn; auto.
      - eapply GEps with (q1 := nstart n).
        + unfold eps_edge. rewrite Or. nat_cases. cbn; auto.
        + eapply gpath_app; [apply Emb; exact Hu|exact IH]. }
    intros (u & v & -> & Hu & Hv).
    eapply GEps with (q1 := nstart n).
    + unfold eps_edge. rewrite Or, Nat.eqb_refl. cbn; auto.
    + eapply gpath_app; [apply Emb; exact Hu|apply Loop; exact Hv].
Qed.

(* ---- zero_or_more ---- *)
Lemma zero_or_more_lang n r : WF n -> nfa_zero_or_more n = Ok r ->
  forall w, nfa_lang tbl r w <-> lstar (nfa_lang tbl n) w.
Proof.
  intros W E. destruct (zero_or_more_spec n W) as (r' & E' & Lr & Sr & Nr & Ir & Or & Tr).
  rewrite E in E'. inversion E'; subst r'. clear E'.
  pose proof W as (Hid & Hdeg & Hre & Hrt & Hs & He & Hee & Het).
  intros w. unfold nfa_lang at 1. rewrite Sr, Nr. split.
  - assert (G : forall q w q', nfa_path tbl r q w q' -> q' = S (L n) ->
               (q < L n -> exists u v, w = u ++ v /\ nfa_path tbl n q u (nend n) /\ lstar (nfa_lang tbl n) v) /\
               (q = L n -> lstar (nfa_lang tbl n) w) /\
               (q = S (L n) -> w = [])).
    { clear w. intros q w q' H. induction H as [q|q q1 w q' HE H IH|q c q1 w q' HC H IH]; intros ->.
      - repeat split; auto; lia.
      - specialize (IH eq_refl) as (IH1 & IH2 & IH3). unfold eps_edge in HE. rewrite Or in HE.
        repeat split; intros Hq; nat_cases_in HE; try lia.
        + destruct HE as [<-|[<-|[]]].
          * rewrite (IH3 eq_refl). exists [], []. subst q. repeat split; constructor.
          * destruct (IH1 Hs) as (u & v & -> & Hu & Hv). exists [], (u ++ v). subst q.
            repeat split; [constructor|]. constructor; auto.
        + destruct (IH1 ltac:(eapply Hre; eauto)) as (u & v & -> & Hu & Hv).
          exists u, v. repeat split; auto. eapply GEps; eauto.
        + destruct HE as [<-|[<-|[]]].
          * destruct (IH1 Hs) as (u & v & -> & Hu & Hv). constructor; auto.
          * destruct (IH1 He) as (u & v & -> & Hu & Hv).
            apply (path_end_stuck n u (nend n) W) in Hu as [-> _]. exact Hv.
        + rewrite out_eps_oob in HE by lia. destruct HE.
      - specialize (IH eq_refl) as (IH1 & IH2 & IH3). destruct HC as (cc & HC & Ht). rewrite Tr in HC.
        repeat split; intros Hq; try (subst; rewrite out_trs_oob in HC by lia; destruct HC).
        destruct (IH1 ltac:(eapply Hrt; eauto)) as (u & v & -> & Hu & Hv).
        exists (c :: u), v. repeat split; auto. eapply GCh; [exists cc; eauto|auto]. }
    intros H. apply (G _ _ _ H); auto.
  - assert (Emb : forall q w q', nfa_path tbl n q w q' -> nfa_path tbl r q w q').
    { intros q u q'. apply path_embed.
      - intros a b H. destruct (eps_edge_range n a b W H). unfold eps_edge in *. rewrite Or. nat_cases; auto.
        subst. rewrite Hee in H. destruct H.
      - intros a cc b H. rewrite Tr. auto. }
    assert (Loop : forall v, lstar (nfa_lang tbl n) v -> nfa_path tbl r (nend n) v (S (L n))).
    { induction 1 as [|u v Hu Hv IH].
      - eapply GEps; [|constructor]. unfold eps_edge. rewrite Or. nat_cases. cbn; auto.
      - eapply GEps with (q1 := nstart n).
        + unfold eps_edge. rewrite Or. nat_cases. cbn; auto.
        + eapply gpath_app; [apply Emb; exact Hu|exact IH]. }
    intros Hv.
    eapply GEps with (q1 := nend n).
    + unfold eps_edge. rewrite Or, Nat.eqb_refl. cbn; auto.
    + apply Loop; exact Hv.
Qed.

(* ---- the one-state NFA of Nfa::new (and anything is_empty accepts) ---- *)
Lemma is_empty_lang n : nfa_is_empty n = true -> forall w, nfa_lang tbl n w <-> w = [].
Proof.
  intros H. apply is_empty_shape in H as (Hs & He & HL & Ho & Ht). intros w.
  unfold nfa_lang. rewrite Hs, He. split.
  - intros P. apply gpath_stuck in P; [tauto| |].
    + intros b Hb. unfold eps_edge in Hb. rewrite Ho in Hb. destruct Hb.
    + intros c b (cc & Hb & _). rewrite Ht in Hb. destruct Hb.
  - intros ->. constructor.
Qed.

Lemma sub_add a k : a + k - k = a.
Proof. lia. Qed.

(* ---- concat ---- *)
Lemma concat_lang n m r : WF n -> WF m -> nfa_concat n m = Ok r ->
  forall w, nfa_lang tbl r w <-> exists u v, w = u ++ v /\ nfa_lang tbl n u /\ nfa_lang tbl m v.
Proof.
  intros W W' E. destruct (nfa_is_empty n) eqn:Hemp.
  { unfold nfa_concat in E. rewrite Hemp, adopt_eq in E. inversion E; subst r. intros w. split.
    - intros H. exists [], w. repeat split; auto. apply (is_empty_lang n Hemp). auto.
    - intros (u & v & -> & Hu & Hv). apply (is_empty_lang n Hemp) in Hu. subst. exact Hv. }
  destruct (concat_spec n m W W' Hemp) as (r' & E' & Lr & Sr & Nr & Ir & Or & Tr).
  rewrite E in E'. inversion E'; subst r'. clear E'.
  pose proof W as (Hid & Hdeg & Hre & Hrt & Hs & He & Hee & Het).
  pose proof W' as (Hid' & Hdeg' & Hre' & Hrt' & Hs' & He' & Hee' & Het').
  intros w. unfold nfa_lang at 1. rewrite Sr, Nr. split.
  - assert (G : forall q w q', nfa_path tbl r q w q' -> q' = nend m + L n ->
               (q < L n -> exists u v, w = u ++ v /\ nfa_path tbl n q u (nend n) /\ nfa_lang tbl m v) /\
               (L n <= q -> nfa_path tbl m (q - L n) w (nend m))).
    { clear w. intros q w q' H. induction H as [q|q q1 w q' HE H IH|q c q1 w q' HC H IH]; intros ->.
      - split; [lia|]. intros _. rewrite sub_add. constructor.
      - specialize (IH eq_refl) as (IH1 & IH2). unfold eps_edge in HE. rewrite Or in HE.
        split; intros Hq; nat_cases_in HE; try lia.
        + destruct HE as [<-|[]]. exists [], w. subst q. repeat split; [constructor|].
          specialize (IH2 ltac:(lia)). rewrite sub_add in IH2. exact IH2.
        + destruct (IH1 ltac:(eapply Hre; eauto)) as (u & v & -> & Hu & Hv).
          exists u, v. repeat split; auto. eapply GEps; eauto.
        + apply in_map_shift in HE as (t' & -> & HE).
          specialize (IH2 ltac:(lia)). rewrite sub_add in IH2. eapply GEps; eauto.
      - specialize (IH eq_refl) as (IH1 & IH2). destruct HC as (cc & HC & Ht). rewrite Tr in HC.
        split; intros Hq; nat_cases_in HC; try lia.
        + destruct (IH1 ltac:(eapply Hrt; eauto)) as (u & v & -> & Hu & Hv).
          exists (c :: u), v. repeat split; auto. eapply GCh; [exists cc; eauto|auto].
        + apply in_map_shift_tr in HC as (t' & -> & HC).
          specialize (IH2 ltac:(lia)). rewrite sub_add in IH2. eapply GCh; [exists cc; eauto|auto]. }
    intros H. destruct (G _ _ _ H eq_refl) as [G1 _]. destruct (G1 Hs) as (u & v & -> & Hu & Hv). eauto.
  - assert (Emb : forall q w q', nfa_path tbl n q w q' -> nfa_path tbl r q w q').
    { intros q u q'. apply path_embed.
      - intros a b H. destruct (eps_edge_range n a b W H). unfold eps_edge in *. rewrite Or. nat_cases; auto.
        subst. rewrite Hee in H. destruct H.
      - intros a cc b H. rewrite Tr. nat_cases; auto.
        rewrite out_trs_oob in H by lia. destruct H. }
    assert (Emb' : forall q w q', nfa_path tbl m q w q' -> nfa_path tbl r (q + L n) w (q' + L n)).
    { intros q u q'. apply path_embed_shift.
      - intros a b H. unfold eps_edge in *. rewrite Or. nat_cases. rewrite sub_add.
        apply in_map_iff. eauto.
      - intros a cc b H. rewrite Tr. nat_cases. rewrite sub_add.
        apply in_map_iff. exists (cc,b). auto. }
    intros (u & v & -> & Hu & Hv). eapply gpath_app; [apply Emb; exact Hu|].
    eapply GEps with (q1 := nstart m + L n).
    + unfold eps_edge. rewrite Or, Nat.eqb_refl. cbn; auto.
    + apply Emb'. exact Hv.
Qed.

(* ---- unite ---- *)
Lemma unite_lang n m r : WF n -> WF m -> nfa_unite n m = Ok r ->
  forall w, nfa_lang tbl r w <-> nfa_lang tbl n w \/ nfa_lang tbl m w.
Proof.
  intros W W' E.
  destruct (unite_spec n m W W') as (r' & E' & Lr & Sr & Nr & Ir & Or & Tr).
  rewrite E in E'. inversion E'; subst r'. clear E'.
  pose proof W as (Hid & Hdeg & Hre & Hrt & Hs & He & Hee & Het).
  pose proof W' as (Hid' & Hdeg' & Hre' & Hrt' & Hs' & He' & Hee' & Het').
  intros w. unfold nfa_lang at 1. rewrite Sr, Nr. split.
  - assert (G : forall q w q', nfa_path tbl r q w q' -> q' = S (L n + L m) ->
               (q < L n -> nfa_path tbl n q w (nend n)) /\
               (L n <= q < L n + L m -> nfa_path tbl m (q - L n) w (nend m)) /\
               (q = L n + L m -> nfa_lang tbl n w \/ nfa_lang tbl m w) /\
               (q = S (L n + L m) -> w = [])).
    { clear w. intros q w q' H. induction H as [q|q q1 w q' HE H IH|q c q1 w q' HC H IH]; intros ->.
      - repeat split; auto; lia.
      - specialize (IH eq_refl) as (IH1 & IH2 & IH3 & IH4). unfold eps_edge in HE. rewrite Or in HE.
        repeat split; intros Hq; nat_cases_in HE; try lia.
        + destruct HE as [<-|[]]. rewrite (IH4 eq_refl). subst q. constructor.
        + eapply GEps; [exact HE|]. apply IH1. eapply Hre; eauto.
        + destruct HE as [<-|[]]. rewrite (IH4 eq_refl). subst q. rewrite sub_add. constructor.
        + apply in_map_shift in HE as (t' & -> & HE). pose proof (Hre' _ _ HE).
          specialize (IH2 ltac:(lia)). rewrite sub_add in IH2. eapply GEps; eauto.
        + destruct HE as [<-|[<-|[]]].
          * left. apply IH1. auto.
          * right. specialize (IH2 ltac:(lia)). rewrite sub_add in IH2. exact IH2.
        + rewrite out_eps_oob in HE by lia. destruct HE.
      - specialize (IH eq_refl) as (IH1 & IH2 & IH3 & IH4). destruct HC as (cc & HC & Ht). rewrite Tr in HC.
        repeat split; intros Hq; nat_cases_in HC; try lia;
          try (rewrite out_trs_oob in HC by lia; destruct HC).
        + eapply GCh; [exists cc; eauto|]. apply IH1. eapply Hrt; eauto.
        + apply in_map_shift_tr in HC as (t' & -> & HC). pose proof (Hrt' _ _ _ HC).
          specialize (IH2 ltac:(lia)). rewrite sub_add in IH2. eapply GCh; [exists cc; eauto|auto]. }
    intros H. apply (G _ _ _ H); auto.
  - assert (Emb : forall q w q', nfa_path tbl n q w q' -> nfa_path tbl r q w q').
    { intros q u q'. apply path_embed.
      - intros a b H. destruct (eps_edge_range n a b W H). unfold eps_edge in *. rewrite Or. nat_cases; auto.
        subst. rewrite Hee in H. destruct H.
      - intros a cc b H. rewrite Tr. nat_cases; auto.
        rewrite out_trs_oob in H by lia. destruct H. }
    assert (Emb' : forall q w q', nfa_path tbl m q w q' -> nfa_path tbl r (q + L n) w (q' + L n)).
    { intros q u q'. apply path_embed_shift.
      - intros a b H. destruct (eps_edge_range m a b W' H). unfold eps_edge in *. rewrite Or. nat_cases.
        + assert (a = nend m) by lia. subst. rewrite Hee' in H. destruct H.
        + rewrite sub_add. apply in_map_iff. eauto.
      - intros a cc b H. rewrite Tr. nat_cases. rewrite sub_add.
        apply in_map_iff. exists (cc,b). auto. }
    assert (Fin : forall x, x = nend n \/ x = nend m + L n -> nfa_path tbl r x [] (S (L n + L m))).
    { intros x Hx. eapply GEps; [|constructor]. unfold eps_edge. rewrite Or.
      destruct Hx; subst; nat_cases; cbn; auto. }
    intros [H|H].
    + eapply GEps with (q1 := nstart n).
      * unfold eps_edge. rewrite Or, Nat.eqb_refl. cbn; auto.
      * rewrite <- (app_nil_r w). eapply gpath_app; [apply Emb; exact H|apply Fin; auto].
    + eapply GEps with (q1 := nstart m + L n).
      * unfold eps_edge. rewrite Or, Nat.eqb_refl. cbn; auto.
      * rewrite <- (app_nil_r w). eapply gpath_app; [apply Emb'; exact H|apply Fin; auto].
Qed.

(* ================= NFAs and regular expressions ================= *)
Definition den (n:nfa) (r:re) : Prop := forall w, nfa_lang tbl n w <-> mt tbl r w.
Definition req (r s:re) : Prop := forall w, mt tbl r w <-> mt tbl s w.

Lemma den_req n r s : den n r -> req r s -> den n s.
Proof. unfold den, req. intros H1 H2 w. rewrite H1. apply H2. Qed.

Lemma req_cat_eps_r r : req (Cat r Eps) r.
Proof.
  intros w. split.
  - intros H. apply mt_Cat_inv in H as (u & v & -> & Hu & Hv). apply mt_Eps_inv in Hv. subst.
    rewrite app_nil_r. auto.
  - intros H. rewrite <- (app_nil_r w). constructor; auto. constructor.
Qed.
Lemma req_cat_eps_l r : req (Cat Eps r) r.
Proof.
  intros w. split.
  - intros H. apply mt_Cat_inv in H as (u & v & -> & Hu & Hv). apply mt_Eps_inv in Hu. subst. auto.
  - intros H. change w with ([] ++ w). constructor; auto. constructor.
Qed.
Lemma req_cat_assoc r s t : req (Cat (Cat r s) t) (Cat r (Cat s t)).
Proof.
  intros w. split.
  - intros H. apply mt_Cat_inv in H as (u & v & -> & Hu & Hv).
    apply mt_Cat_inv in Hu as (u1 & u2 & -> & H1 & H2). rewrite <- app_assoc.
    constructor; auto. constructor; auto.
  - intros H. apply mt_Cat_inv in H as (u & v & -> & Hu & Hv).
    apply mt_Cat_inv in Hv as (v1 & v2 & -> & H1 & H2). rewrite app_assoc.
    constructor; auto. constructor; auto.
Qed.
Lemma req_alt_assoc r s t : req (Alt (Alt r s) t) (Alt r (Alt s t)).
Proof.
  intros w. split; intros H.
  - apply mt_Alt_inv in H as [H|H]; [apply mt_Alt_inv in H as [H|H]|].
    + apply MAltL; auto.
    + apply MAltR, MAltL; auto.
    + apply MAltR, MAltR; auto.
  - apply mt_Alt_inv in H as [H|H]; [|apply mt_Alt_inv in H as [H|H]].
    + apply MAltL, MAltL; auto.
    + apply MAltL, MAltR; auto.
    + apply MAltR; auto.
Qed.
Lemma req_cat_cong r r' s s' : req r r' -> req s s' -> req (Cat r s) (Cat r' s').
Proof.
  intros H1 H2 w. split; intros H; apply mt_Cat_inv in H as (u & v & -> & Hu & Hv);
    constructor; solve [apply H1; auto | apply H2; auto].
Qed.
Lemma req_refl r : req r r.
Proof. intros w; tauto. Qed.
Lemma req_trans r s t : req r s -> req s t -> req r t.
Proof. unfold req. intros H1 H2 w. rewrite H1. apply H2. Qed.

Lemma mt_star_app r u v : mt tbl r u -> mt tbl (Star r) v -> mt tbl (Star r) (u ++ v).
Proof.
  destruct u as [|c u]; cbn [app]; auto. intros H1 H2.
  change (c :: u ++ v) with ((c :: u) ++ v). constructor; auto.
Qed.
Lemma lstar_mt Lg r : (forall w, Lg w <-> mt tbl r w) -> forall w, lstar Lg w <-> mt tbl (Star r) w.
Proof.
  intros H w. split.
  - induction 1 as [|u v Hu Hv IH]; [constructor|]. apply mt_star_app; auto. apply H; auto.
  - intros M. remember (Star r) as s eqn:Es. induction M; try discriminate.
    + constructor.
    + inversion Es; subst. constructor; [apply H; auto|auto].
Qed.

Lemma den_new : den nfa_new Eps.
Proof.
  intros w. rewrite (is_empty_lang nfa_new eq_refl). split.
  - intros ->. constructor.
  - apply mt_Eps_inv.
Qed.

Lemma den_leaf a : den (leaf_nfa a) (At a).
Proof.
  intros w. unfold nfa_lang; cbn [nstart nend leaf_nfa]. split.
  - intros H. inversion H as [|q q1 w' q' HE H'|q c q1 w' q' HC H']; subst.
    + destruct HE.
    + destruct HC as (cc & HC & Ht). cbn in HC. destruct HC as [HC|[]]. inversion HC; subst.
      apply gpath_stuck in H' as [-> _].
      * constructor; auto.
      * intros b Hb. destruct Hb.
      * intros c' b (cc' & Hb & _). destruct Hb.
  - intros H. apply mt_At_inv in H as (c & -> & Ht).
    eapply GCh; [|constructor]. exists a. split; auto. cbn. auto.
Qed.

Lemma den_concat n m x r s : WF n -> WF m -> den n r -> den m s -> nfa_concat n m = Ok x ->
  den x (Cat r s).
Proof.
  intros W W' D D' E w. rewrite (concat_lang n m x W W' E). split.
  - intros (u & v & -> & Hu & Hv). constructor; [apply D|apply D']; auto.
  - intros H. apply mt_Cat_inv in H as (u & v & -> & Hu & Hv). exists u, v.
    repeat split; [apply D|apply D']; auto.
Qed.
Lemma den_unite n m x r s : WF n -> WF m -> den n r -> den m s -> nfa_unite n m = Ok x ->
  den x (Alt r s).
Proof.
  intros W W' D D' E w. rewrite (unite_lang n m x W W' E). split.
  - intros [H|H]; [apply MAltL, D|apply MAltR, D']; auto.
  - intros H. apply mt_Alt_inv in H as [H|H]; [left; apply D|right; apply D']; auto.
Qed.
Lemma den_zero_or_one n x r : WF n -> den n r -> nfa_zero_or_one n = Ok x -> den x (ropt r).
Proof.
  intros W D E w. rewrite (zero_or_one_lang n x W E). unfold ropt. split.
  - intros [->|H]; [apply MAltL; constructor|apply MAltR, D; auto].
  - intros H. apply mt_Alt_inv in H as [H|H]; [left; apply (mt_Eps_inv tbl); auto|right; apply D; auto].
Qed.
Lemma den_zero_or_more n x r : WF n -> den n r -> nfa_zero_or_more n = Ok x -> den x (Star r).
Proof. intros W D E w. rewrite (zero_or_more_lang n x W E). apply lstar_mt. exact D. Qed.
Lemma den_one_or_more n x r : WF n -> den n r -> nfa_one_or_more n = Ok x -> den x (Cat r (Star r)).
Proof.
  intros W D E w. rewrite (one_or_more_lang n x W E). split.
  - intros (u & v & -> & Hu & Hv). constructor; [apply D; auto|]. apply (lstar_mt _ r D). auto.
  - intros H. apply mt_Cat_inv in H as (u & v & -> & Hu & Hv). exists u, v.
    repeat split; [apply D; auto|]. apply (lstar_mt _ r D). auto.
Qed.

(* results are well-formed *)
Lemma concat_wf n m x : WF n -> WF m -> nfa_concat n m = Ok x -> WF x.
Proof. intros W W' E. destruct (concat_ok n m W W') as (x' & E' & Wx). congruence. Qed.
Lemma unite_wf n m x : WF n -> WF m -> nfa_unite n m = Ok x -> WF x.
Proof. intros W W' E. destruct (unite_ok n m W W') as (x' & E' & Wx). congruence. Qed.
Lemma zero_or_one_wf n x : WF n -> nfa_zero_or_one n = Ok x -> WF x.
Proof. intros W E. destruct (zero_or_one_ok n W) as (x' & E' & Wx). congruence. Qed.
Lemma zero_or_more_wf n x : WF n -> nfa_zero_or_more n = Ok x -> WF x.
Proof. intros W E. destruct (zero_or_more_ok n W) as (x' & E' & Wx). congruence. Qed.
Lemma repeat_concat_wf k acc m x : WF acc -> WF m -> repeat_concat k acc m = Ok x -> WF x.
Proof. intros W W' E. destruct (repeat_concat_ok k acc m W W') as (x' & E' & Wx). congruence. Qed.

(* ---- the repetition counts ---- *)
Lemma den_repeat k : forall acc m x ra rm, WF acc -> WF m -> den acc ra -> den m rm ->
  repeat_concat k acc m = Ok x -> den x (Cat ra (rpow rm k)).
Proof.
  induction k as [|k IH]; intros acc m x ra rm Wa Wm Da Dm E; cbn [repeat_concat rpow] in *.
  - inversion E; subst. eapply den_req; [exact Da|]. intros w. symmetry. apply req_cat_eps_r.
  - destruct (nfa_concat acc m) as [a|] eqn:Ec; [|discriminate]. cbn [rbind] in E.
    eapply den_req.
    + eapply (IH a m x (Cat ra rm) rm); eauto using concat_wf, den_concat.
    + apply req_cat_assoc.
Qed.

Definition rep_re (k:repk) (r:re) : re :=
  match k with
  | RZeroOrOne => ropt r
  | RZeroOrMore => Star r
  | ROneOrMore => Cat r (Star r)
  | RExactly m => rpow r m
  | RAtLeast m => Cat (rpow r m) (Star r)
  | RBounded m n => Cat (rpow r m) (rpow (ropt r) (n - m))
  end.

Lemma den_rep_build k n x r : WF n -> den n r -> rep_build k n = Ok x -> den x (rep_re k r).
Proof.
  intros W D E. destruct k as [| | |c|c|lo hi]; cbn [rep_build rep_re] in *.
  - eapply den_zero_or_one; eauto.
  - eapply den_zero_or_more; eauto.
  - eapply den_one_or_more; eauto.
  - eapply den_req; [exact (den_repeat c nfa_new n x Eps r WF_new W den_new D E)|].
    apply req_cat_eps_l.
  - destruct (repeat_concat c nfa_new n) as [a|] eqn:Ea; [|discriminate]. cbn [rbind] in E.
    destruct (nfa_zero_or_more n) as [z|] eqn:Ez; [|discriminate]. cbn [rbind] in E.
    pose proof (repeat_concat_wf _ _ _ _ WF_new W Ea) as Wa.
    pose proof (zero_or_more_wf _ _ W Ez) as Wz.
    pose proof (den_repeat c nfa_new n a Eps r WF_new W den_new D Ea) as Da.
    pose proof (den_zero_or_more n z r W D Ez) as Dz.
    eapply den_req; [exact (den_concat a z x _ _ Wa Wz Da Dz E)|].
    apply req_cat_cong; [apply req_cat_eps_l|apply req_refl].
  - destruct (repeat_concat lo nfa_new n) as [a|] eqn:Ea; [|discriminate]. cbn [rbind] in E.
    destruct (nfa_zero_or_one n) as [z|] eqn:Ez; [|discriminate]. cbn [rbind] in E.
    pose proof (repeat_concat_wf _ _ _ _ WF_new W Ea) as Wa.
    pose proof (zero_or_one_wf _ _ W Ez) as Wz.
    pose proof (den_repeat lo nfa_new n a Eps r WF_new W den_new D Ea) as Da.
    pose proof (den_zero_or_one n z r W D Ez) as Dz.
    eapply den_req; [exact (den_repeat (hi - lo) a z x _ _ Wa Wz Da Dz E)|].
    apply req_cat_cong; [apply req_cat_eps_l|apply req_refl].
Qed.

(* ---- try_from_ast ---- *)
Definition correct (a:ast) : Prop :=
  forall n r, alts_nonempty a = true -> try_from_ast a = Built n -> core_of_ast a = Some r -> den n r.

Lemma cat_loop_den l : Forall correct l -> forall acc racc n s,
  forallb alts_nonempty l = true -> WF acc -> den acc racc ->
  cat_loop try_from_ast acc l = Built n -> core_cats l = Some s -> den n (Cat racc s).
Proof.
  induction 1 as [|a l Ha _ IH]; intros acc racc n s Hne Wa Da E Ec; cbn [cat_loop core_cats forallb] in *.
  - inversion E; inversion Ec; subst. eapply den_req; [exact Da|]. intros w. symmetry. apply req_cat_eps_r.
  - apply andb_true_iff in Hne as [Hne1 Hne2].
    destruct (try_from_ast a) as [n2| |] eqn:Ea; try discriminate.
    destruct (nfa_concat acc n2) as [acc'|] eqn:Ecc; [|discriminate].
    destruct (core_of_ast a) as [ra|] eqn:Ca; [|discriminate].
    destruct (core_cats l) as [s'|] eqn:Cl; [|discriminate]. inversion Ec; subst s.
    pose proof (built_wf a n2 Ea) as W2.
    pose proof (Ha n2 ra Hne1 Ea Ca) as D2.
    eapply den_req.
    + eapply (IH acc' (Cat racc ra) n s'); eauto using concat_wf, den_concat.
    + apply req_cat_assoc.
Qed.

Lemma alt_loop_den l : Forall correct l -> forall acc racc n,
  forallb alts_nonempty l = true -> WF acc -> den acc racc ->
  alt_loop try_from_ast false acc l = Built n ->
  match l with
  | [] => den n racc
  | _ => forall s, core_alts l = Some s -> den n (Alt racc s)
  end.
Proof.
  induction 1 as [|a l Ha _ IH]; intros acc racc n Hne Wa Da E; cbn [alt_loop forallb] in *.
  - inversion E; subst. exact Da.
  - apply andb_true_iff in Hne as [Hne1 Hne2].
    destruct (try_from_ast a) as [n2| |] eqn:Ea; try discriminate.
    destruct (nfa_unite acc n2) as [acc'|] eqn:Ecc; [|discriminate].
    pose proof (built_wf a n2 Ea) as W2.
    pose proof (unite_wf _ _ _ Wa W2 Ecc) as Wa'.
    intros s Cs. destruct l as [|b l'].
    + cbn [core_alts] in Cs. cbn [alt_loop] in E. inversion E; subst.
      exact (den_unite acc n2 n racc s Wa W2 Da (Ha n2 s Hne1 Ea Cs) Ecc).
    + change (core_alts (a :: b :: l')) with
        (match core_of_ast a, core_alts (b :: l') with Some r, Some s => Some (Alt r s) | _, _ => None end) in Cs.
      destruct (core_of_ast a) as [ra|] eqn:Ca; [|discriminate].
      destruct (core_alts (b :: l')) as [s'|] eqn:Cl; [|discriminate]. inversion Cs; subst s.
      pose proof (Ha n2 ra Hne1 Ea Ca) as D2.
      pose proof (den_unite acc n2 acc' racc ra Wa W2 Da D2 Ecc) as Da'.
      eapply den_req; [exact (IH acc' (Alt racc ra) n Hne2 Wa' Da' E s' eq_refl)|].
      apply req_alt_assoc.
Qed.

Lemma try_from_ast_correct a : correct a.
Proof.
  induction a as [|x| | |k g a IH|fl a IH|l IH|l IH] using ast_ind'; unfold correct;
    intros n r Hne E Cr; rewrite ?core_alt_eq, ?core_concat_eq in Cr;
    cbn [try_from_ast core_of_ast alts_nonempty] in *.
  - inversion E; inversion Cr; subst. apply den_new.
  - rewrite leaf_eq in E. inversion E; inversion Cr; subst. apply den_leaf.
  - discriminate.
  - discriminate.
  - destruct (try_from_ast a) as [n2| |] eqn:Ea; try discriminate.
    destruct (core_of_ast a) as [r0|] eqn:Ca; [|discriminate].
    destruct g; cbn [negb] in *; [|discriminate].
    destruct (rep_build k n2) as [x|] eqn:Eb; [|discriminate]. inversion E; subst x.
    pose proof (built_wf a n2 Ea) as W2.
    pose proof (IH n2 r0 Hne Ea Ca) as D2.
    pose proof (den_rep_build k n2 n r0 W2 D2 Eb) as D.
    inversion Cr; subst r. destruct k; exact D.
  - destruct fl; [discriminate|]. apply IH; auto.
  - destruct l as [|a l']; [discriminate|]. cbn [alt_loop] in E.
    inversion IH as [|? ? Ha Hl']; subst. cbn [forallb] in Hne.
    apply andb_true_iff in Hne as [Hne1 Hne2].
    destruct (try_from_ast a) as [n2| |] eqn:Ea; try discriminate.
    change (nfa_alternation nfa_new n2) with (Ok (adopt n2)) in E. rewrite adopt_eq in E.
    pose proof (built_wf a n2 Ea) as W2.
    destruct l' as [|b l''].
    + cbn [alt_loop] in E. inversion E; subst. cbn [core_alts] in Cr. apply Ha; auto.
    + change (core_alts (a :: b :: l'')) with
        (match core_of_ast a, core_alts (b :: l'') with Some r, Some s => Some (Alt r s) | _, _ => None end) in Cr.
      destruct (core_of_ast a) as [ra|] eqn:Ca; [|discriminate].
      destruct (core_alts (b :: l'')) as [s'|] eqn:Cl; [|discriminate]. inversion Cr; subst r.
      pose proof (Ha n2 ra Hne1 Ea Ca) as D2.
      exact (alt_loop_den (b :: l'') Hl' n2 ra n Hne2 W2 D2 E s' Cl).
  - eapply den_req.
    + eapply (cat_loop_den l IH nfa_new Eps n r); eauto using WF_new, den_new.
    + apply req_cat_eps_l.
Qed.

Theorem thompson_correct a n r : alts_nonempty a = true ->
  try_from_ast a = Built n -> core_of_ast a = Some r ->
  forall w, nfa_lang tbl n w <-> mt tbl r w.
Proof. intros H E C. exact (try_from_ast_correct a n r H E C). Qed.

(* the hypothesis alts_nonempty is needed: for an alternation without alternatives the code
   returns Nfa::new(), which accepts the empty word, the specification says Emp *)
Lemma alt_nil_differs :
  try_from_ast (AAlt []) = Built nfa_new /\ core_of_ast (AAlt []) = Some Emp /\
  nfa_lang tbl nfa_new [] /\ ~ mt tbl Emp [].
Proof.
  repeat split.
  - constructor.
  - apply mt_Emp_inv.
Qed.
End Lang.

(* ================= the executable matcher ================= *)
Lemma filter_len {A} (p:A -> bool) l : length (filter p l) <= length l.
Proof. induction l as [|a l IH]; cbn; [lia|]. destruct (p a); cbn; lia. Qed.
Lemma filter_length_le {A} (p p':A -> bool) l :
  (forall x, In x l -> p' x = true -> p x = true) -> length (filter p' l) <= length (filter p l).
Proof.
  induction l as [|a l IH]; intros Himp; cbn [filter]; [lia|].
  assert (IH' : length (filter p' l) <= length (filter p l)) by (apply IH; intros; apply Himp; cbn; auto).
  destruct (p' a) eqn:E'.
  - rewrite (Himp a (or_introl eq_refl) E'). cbn. lia.
  - destruct (p a); cbn; lia.
Qed.
Lemma filter_length_lt {A} (p p':A -> bool) l x :
  (forall x, In x l -> p' x = true -> p x = true) -> In x l -> p x = true -> p' x = false ->
  length (filter p' l) < length (filter p l).
Proof.
  induction l as [|a l IH]; intros Himp Hin Hp Hp'; [destruct Hin|]. cbn [filter].
  assert (Himp' : forall x, In x l -> p' x = true -> p x = true) by (intros; apply Himp; cbn; auto).
  destruct Hin as [->|Hin].
  - rewrite Hp, Hp'. cbn. pose proof (filter_length_le p p' l Himp'). lia.
  - pose proof (IH Himp' Hin Hp Hp') as IH'. destruct (p' a) eqn:E'.
    + rewrite (Himp a (or_introl eq_refl) E'). cbn. lia.
    + destruct (p a); cbn; lia.
Qed.
Lemma forallb_false_ex {A} (f:A -> bool) l : forallb f l = false -> exists x, In x l /\ f x = false.
Proof.
  induction l as [|a l IH]; cbn; [discriminate|]. destruct (f a) eqn:E; cbn.
  - intros H. destruct (IH H) as (x & Hx & Hf). eauto.
  - intros _. eauto.
Qed.
Lemma gpath_cons_inv E C q c w q' : gpath E C q (c :: w) q' ->
  exists q0 q1, gpath E C q [] q0 /\ C q0 c q1 /\ gpath E C q1 w q'.
Proof.
  intros H. remember (c :: w) as cw eqn:Ecw. revert c w Ecw.
  induction H as [q|q q1 w0 q' HE H IH|q c0 q1 w0 q' HC H IH]; intros c w Ecw; try discriminate.
  - destruct (IH c w Ecw) as (q0 & q2 & P0 & HC & P1). exists q0, q2. repeat split; auto.
    eapply GEps; eauto.
  - inversion Ecw; subst. exists q, q1. repeat split; auto. constructor.
Qed.

Section Matcher.
Variable tbl : N -> N -> bool.
Variable n : nfa.
Hypothesis W : WF n.

Definition eps_closed (X:list nat) : Prop := forall q t, In q X -> In t (out_eps n q) -> In t X.

Lemma eps_closedb_spec X : eps_closedb n X = true <-> eps_closed X.
Proof.
  unfold eps_closedb. rewrite forallb_forall. split.
  - intros H q t Hq Ht. apply natmem_in. apply H. apply in_flat_map. eauto.
  - intros H t Ht. apply in_flat_map in Ht as (q & Hq & Ht). apply natmem_in. eauto.
Qed.
Lemma close_step_in X t :
  In t (eps_close_step n X) <-> In t X \/ exists q, In q X /\ In t (out_eps n q).
Proof. unfold eps_close_step. rewrite norm_in, in_app_iff, in_flat_map. tauto. Qed.

Definition miss (X:list nat) : nat := length (filter (fun q => negb (natmem q X)) (seq 0 (L n))).

Lemma miss_zero X q : miss X = 0 -> q < L n -> In q X.
Proof.
  intros Hm Hq. destruct (natmem q X) eqn:E; [apply natmem_in; auto|].
  exfalso. unfold miss in Hm.
  assert (Hin : In q (filter (fun q => negb (natmem q X)) (seq 0 (L n)))).
  { apply filter_In. split; [apply in_seq; lia|]. rewrite E. reflexivity. }
  destruct (filter (fun q => negb (natmem q X)) (seq 0 (L n))); [destruct Hin|discriminate].
Qed.
Lemma miss_decr X : eps_closedb n X = false -> miss (eps_close_step n X) < miss X.
Proof.
  intros Hb. apply forallb_false_ex in Hb as (t & Ht & Hf).
  apply in_flat_map in Ht as (q & Hq & Ht).
  assert (Hr : t < L n) by (destruct W as (_ & _ & Hre & _); eapply Hre; eauto).
  unfold miss. apply filter_length_lt with (x := t).
  - intros x _ Hx. destruct (natmem x X) eqn:Ex; auto.
    apply natmem_in in Ex.
    assert (natmem x (eps_close_step n X) = true) as Hc by (apply natmem_in, close_step_in; auto).
    rewrite Hc in Hx. discriminate.
  - apply in_seq. lia.
  - rewrite Hf. reflexivity.
  - assert (natmem t (eps_close_step n X) = true) as -> ; [|reflexivity].
    apply natmem_in, close_step_in. right. eauto.
Qed.
Lemma iter_closed k : forall X, miss X <= k -> eps_closed (iter_close n k X).
Proof.
  induction k as [|k IH]; intros X Hm; cbn [iter_close].
  - intros q t Hq Ht. apply miss_zero; [lia|]. destruct W as (_ & _ & Hre & _). eapply Hre; eauto.
  - destruct (eps_closedb n X) eqn:Eb.
    + apply eps_closedb_spec; auto.
    + apply IH. pose proof (miss_decr X Eb). lia.
Qed.
Lemma iter_incl k : forall X q, In q X -> In q (iter_close n k X).
Proof.
  induction k as [|k IH]; intros X q Hq; cbn [iter_close]; auto.
  destruct (eps_closedb n X); auto. apply IH. apply close_step_in. auto.
Qed.
Lemma iter_sound k : forall X t, In t (iter_close n k X) ->
  exists q, In q X /\ nfa_path tbl n q [] t.
Proof.
  induction k as [|k IH]; intros X t Ht; cbn [iter_close] in Ht.
  - exists t. split; auto. constructor.
  - destruct (eps_closedb n X).
    + exists t. split; auto. constructor.
    + destruct (IH _ _ Ht) as (q' & Hq' & P). apply close_step_in in Hq' as [Hq'|(q & Hq & He)].
      * eauto.
      * exists q. split; auto. eapply GEps; eauto.
Qed.
Lemma closed_reach X : eps_closed X -> forall q w q', nfa_path tbl n q w q' -> w = [] -> In q X -> In q' X.
Proof.
  intros Hc q w q' H. induction H as [q|q q1 w q' HE H IH|q c q1 w q' HC H IH]; intros Hw Hq; auto.
  - apply IH; auto. eapply Hc; eauto.
  - discriminate.
Qed.

Lemma eclose_spec X q' : In q' (eclose n X) <-> exists q, In q X /\ nfa_path tbl n q [] q'.
Proof.
  unfold eclose. split.
  - apply iter_sound.
  - intros (q & Hq & P). eapply closed_reach; [apply iter_closed|exact P|reflexivity|apply iter_incl; auto].
    unfold miss. etransitivity; [apply filter_len|]. rewrite seq_length. lia.
Qed.

Lemma char_step_in X c q1 :
  In q1 (char_step tbl n X c) <-> exists q0, In q0 X /\ ch_edge tbl n q0 c q1.
Proof.
  unfold char_step, ch_edge. rewrite in_flat_map. split.
  - intros (q0 & H0 & H). apply in_map_iff in H as ([cc t] & Heq & Hf). cbn in Heq; subst.
    apply filter_In in Hf as [Hin Ht]. eauto.
  - intros (q0 & H0 & cc & Hin & Ht). exists q0. split; auto.
    apply in_map_iff. exists (cc,q1). split; auto. apply filter_In. auto.
Qed.

Lemma nfa_run_spec w : forall X q',
  In q' (nfa_run tbl n X w) <-> exists q, In q X /\ nfa_path tbl n q w q'.
Proof.
  induction w as [|c w IH]; intros X q'; cbn [nfa_run].
  - apply eclose_spec.
  - rewrite IH. split.
    + intros (q1 & H1 & P). apply char_step_in in H1 as (q0 & H0 & HC).
      apply eclose_spec in H0 as (q & Hq & P0). exists q. split; auto.
      change (c :: w) with ([] ++ c :: w). eapply gpath_app; [exact P0|]. eapply GCh; eauto.
    + intros (q & Hq & P). apply gpath_cons_inv in P as (q0 & q1 & P0 & HC & P1).
      exists q1. split; auto. apply char_step_in. exists q0. split; auto. apply eclose_spec. eauto.
Qed.

Lemma nfa_matchb_spec' w : nfa_matchb tbl n w = true <-> nfa_lang tbl n w.
Proof.
  unfold nfa_matchb, nfa_lang. rewrite natmem_in, nfa_run_spec. split.
  - intros (q & [<-|[]] & P). exact P.
  - intros P. exists (nstart n). cbn; auto.
Qed.
End Matcher.

Theorem nfa_matchb_spec tbl n w : WF n -> (nfa_matchb tbl n w = true <-> nfa_lang tbl n w).
Proof. intros W. apply nfa_matchb_spec'. exact W. Qed.

(* the matcher of a built NFA decides the pattern's language *)
Corollary built_matchb_spec tbl a n r : alts_nonempty a = true ->
  try_from_ast a = Built n -> core_of_ast a = Some r ->
  forall w, nfa_matchb tbl n w = true <-> mt tbl r w.
Proof.
  intros H E C w. rewrite (nfa_matchb_spec tbl n w (built_wf a n E)).
  apply (thompson_correct tbl a n r H E C).
Qed.

(* ================= sanity checks by computation ================= *)
Definition ex_tbl (a c:N) : bool := N.eqb c (97 + a).
(* (|a)b : the empty first alternative is kept (states as numbered by the Rust code) *)
Example ex_alt_empty_first :
  try_from_ast_enc (AConcat [AGroup false (AAlt [AEmpty; ALeaf 0]); ALeaf 1]) =
  [[3; 6]; [0; 1; 4]; [1; 0; 0; 2]; [2; 1; 4]; [3; 2; 0; 1]; [4; 1; 5]; [5; 0; 1; 6]; [6; 0]]%N.
Proof. vm_compute. reflexivity. Qed.
Example ex_alt_empty_first_lang :
  match try_from_ast (AConcat [AGroup false (AAlt [AEmpty; ALeaf 0]); ALeaf 1]) with
  | Built n => map (nfa_matchb ex_tbl n) [[98]; [97; 98]; [97]; []; [98; 98]]%N
  | _ => []
  end = [true; true; false; false; false].
Proof. vm_compute. reflexivity. Qed.
Example ex_rejected :
  map try_from_ast_enc [ARep RZeroOrMore false (ALeaf 0); AConcat [ALeaf 0; AGroup true AEmpty];
                        AAlt [ALeaf 0; ARep (RExactly 2) true AAssertion]] = [[[0]]; [[0]]; [[0]]]%N.
Proof. vm_compute. reflexivity. Qed.
