(* Automaton.v — the compiled automaton of scnr (compiled_dfa.rs: CompiledDfa) and its
   set-of-states semantics. Characters are Unicode scalar values as N. *)
From Scnr Require Import Base.

(* UTF-8 length of a scalar value (char::len_utf8) and byte length of a string *)
Definition len_utf8 (c:N) : nat :=
  if N.ltb c 128 then 1 else if N.ltb c 2048 then 2 else if N.ltb c 65536 then 3 else 4.
Fixpoint blen (s:list N) : nat := match s with [] => 0 | c::s => len_utf8 c + blen s end.

Lemma len_utf8_pos c : 0 < len_utf8 c.
Proof. unfold len_utf8. repeat match goal with |- context[if ?b then _ else _] => destruct b end; lia. Qed.
Lemma blen_app u v : blen (u ++ v) = blen u + blen v.
Proof. induction u; cbn [app blen]; lia. Qed.
Lemma blen_ge_length s : length s <= blen s.
Proof. induction s as [|c s IH]; cbn [length blen]; [lia|]. pose proof (len_utf8_pos c). lia. Qed.

(* the slice input[o..]: None when o is not on a character boundary *)
Fixpoint drop_bytes (o:nat) (s:list N) : option (list N) :=
  match o with
  | 0 => Some s
  | _ => match s with
         | [] => None
         | c :: s' => if len_utf8 c <=? o then drop_bytes (o - len_utf8 c) s' else None
         end
  end.
(* the last character of input[..o] (o on a boundary), '\0' if there is none *)
Fixpoint char_before (o:nat) (s:list N) (prev:N) : N :=
  match o with
  | 0 => prev
  | _ => match s with
         | [] => prev
         | c :: s' => if len_utf8 c <=? o then char_before (o - len_utf8 c) s' c else prev
         end
  end.


(* CompiledDfa: states[q].transitions = list of (class id, target); end_states; terminal_ids *)
Record dfa := { trans : list (list (N * nat)); fin : list (bool * N); tids : list N }.

Section Sem.
Variable tbl : N -> N -> bool.    (* match_char_class: class id -> char -> bool *)

Definition out (A:dfa) (q:nat) (c:N) : list nat :=
  map snd (filter (fun e => tbl (fst e) c) (nth q (trans A) [])).
(* the next state list in the order Rust builds `next_states` (push if not contained) *)
Definition step (A:dfa) (S:list nat) (c:N) : list nat := dedup (flat_map (fun q => out A q c) S).
Fixpoint run (A:dfa) (S:list nat) (w:list N) := match w with [] => S | c::w => run A (step A S c) w end.
Definition acc (A:dfa) (q:nat) (t:N) : bool :=
  match nth q (fin A) (false, 0%N) with (true, t') => N.eqb t t' | _ => false end.
Definition accepts_tok (A:dfa) (w:list N) (t:N) : Prop := exists q, In q (run A [0] w) /\ acc A q t = true.

(* canonical (sorted) variant used by the product explorations *)
Definition stepn (A:dfa) (S:list nat) (c:N) : list nat := norm (flat_map (fun q => out A q c) S).
Fixpoint runn (A:dfa) (S:list nat) (w:list N) := match w with [] => S | c::w => runn A (stepn A S c) w end.

Lemma out_in X q c q' : In q' (out X q c) <-> exists a, In (a,q') (nth q (trans X) []) /\ tbl a c = true.
Proof.
  unfold out. rewrite in_map_iff. split.
  - intros ([a q''] & E & H). cbn in E; subst. apply filter_In in H as [H1 H2]. eauto.
  - intros (a & H1 & H2). exists (a,q'). split; auto. apply filter_In. auto.
Qed.
Lemma step_in A S c q' : In q' (step A S c) <-> exists q, In q S /\ In q' (out A q c).
Proof. unfold step. rewrite dedup_in, in_flat_map. tauto. Qed.
Lemma stepn_in A S c q' : In q' (stepn A S c) <-> exists q, In q S /\ In q' (out A q c).
Proof. unfold stepn. rewrite norm_in, in_flat_map. tauto. Qed.

Definition same_set (S S':list nat) : Prop := forall q, In q S <-> In q S'.

Lemma step_stepn_same A S S' c : same_set S S' -> same_set (step A S c) (stepn A S' c).
Proof.
  intros H q'. rewrite step_in, stepn_in. split; intros (q & I & O); exists q; split; auto; apply H; auto.
Qed.
Lemma run_runn_same A w : forall S S', same_set S S' -> same_set (run A S w) (runn A S' w).
Proof.
  induction w as [|c w IH]; intros S S' H; cbn [run runn]; auto.
  apply IH. apply step_stepn_same; auto.
Qed.
Lemma same_set_refl S : same_set S S. Proof. intros q; tauto. Qed.

Lemma run_app A S u v : run A S (u ++ v) = run A (run A S u) v.
Proof. revert S; induction u; intros S; cbn; auto. Qed.
Lemma step_nil A c : step A [] c = [].
Proof. reflexivity. Qed.
Lemma run_nil A w : run A [] w = [].
Proof. induction w; cbn; auto. Qed.

Lemma accepts_tok_runn A w t : accepts_tok A w t <-> exists q, In q (runn A [0] w) /\ acc A q t = true.
Proof.
  unfold accepts_tok. pose proof (run_runn_same A w [0] [0] (same_set_refl _)) as H.
  split; intros (q & I & Ha); exists q; split; auto; apply H; auto.
Qed.
End Sem.

(* well-formedness of a dump: vectors of equal length, targets in range, class ids below n *)
Definition wf_dfa (nclasses:N) (A:dfa) : bool :=
  Nat.eqb (length (trans A)) (length (fin A))
  && Nat.ltb 0 (length (trans A))
  && forallb (fun es => forallb (fun e => N.ltb (fst e) nclasses && Nat.ltb (snd e) (length (trans A))) es) (trans A).
