(* CompileProofs.v — proofs about Compile.v (multi_pattern_nfa.rs, From<MultiPatternNfa> and
   From<Nfa> for CompiledDfa):
     1. list utilities
     2. Nfa::epsilon_closure computes the set of states reachable by epsilon moves (id-based view)
     3. the BFS over closure sets, generically: no panic, fuel suffices, simulation invariant,
        language of the result
     4. instance From<Nfa> (lookaheads): compile_single
     5. instance From<MultiPatternNfa>: compile_mp
     6. mp_build (try_from_patterns) gives a well-formed multi-pattern NFA
     7. a whole mode: Thompson + compile_mp + minimize *)
From Scnr Require Import Base Regex Automaton FindFrom Spec Nfa NfaProofs Minimizer MinimizerProofs RuleProofs Compile.

Local Notation L n := (length (nstates n)) (only parsing).

(* ================================================================== *)
(* 1. utilities                                                        *)
(* ================================================================== *)
Lemma natlist_eqb_iff a b : natlist_eqb a b = true <-> a = b.
Proof. split; [apply natlist_eqb_eq|intros ->; apply natlist_eqb_refl]. Qed.

Lemma sort_ins_in x l y : In y (sort_ins x l) <-> y = x \/ In y l.
Proof.
  induction l as [|z l IH]; cbn [sort_ins In]; [intuition congruence|].
  destruct (x <=? z); cbn [In]; [intuition congruence|]. rewrite IH. intuition congruence.
Qed.
Lemma sort_nat_in l y : In y (sort_nat l) <-> In y l.
Proof.
  induction l; cbn [sort_nat fold_right In]; [tauto|]. fold (sort_nat l).
  rewrite sort_ins_in, IHl. intuition congruence.
Qed.

Lemma pair_eqb_iff x y : pair_eqb x y = true <-> x = y.
Proof.
  unfold pair_eqb. destruct x as [a b], y as [c d]; cbn [fst snd].
  rewrite andb_true_iff, N.eqb_eq, Nat.eqb_eq. split; [intros [-> ->]; auto|intros E; inversion E; auto].
Qed.
Lemma pinsert_in x l y : In y (pinsert x l) <-> y = x \/ In y l.
Proof.
  induction l as [|z l IH]; cbn [pinsert In]; [intuition congruence|].
  destruct (pair_ltb x z); cbn [In]; [intuition congruence|].
  destruct (pair_eqb x z) eqn:E.
  - apply pair_eqb_iff in E; subst. cbn [In]. intuition congruence.
  - cbn [In]. rewrite IH. intuition congruence.
Qed.
Lemma pnorm_in l y : In y (pnorm l) <-> In y l.
Proof.
  induction l; cbn [pnorm fold_right In]; [tauto|]. fold (pnorm l).
  rewrite pinsert_in, IHl. intuition congruence.
Qed.
Lemma ins_by_target_in x l y : In y (ins_by_target x l) <-> y = x \/ In y l.
Proof.
  induction l as [|z l IH]; cbn [ins_by_target In]; [intuition congruence|].
  destruct (snd x <=? snd z); cbn [In]; [intuition congruence|]. rewrite IH. intuition congruence.
Qed.
Lemma sort_by_target_in l y : In y (sort_by_target l) <-> In y l.
Proof.
  induction l; cbn [sort_by_target fold_right In]; [tauto|]. fold (sort_by_target l).
  rewrite ins_by_target_in, IHl. intuition congruence.
Qed.
Lemma dedup_adj_in l y : In y (dedup_adj l) <-> In y l.
Proof.
  induction l as [|x l IH]; [cbn; tauto|].
  cbn [dedup_adj]. destruct l as [|z l']; [cbn; tauto|].
  destruct (pair_eqb x z) eqn:E.
  - apply pair_eqb_iff in E; subst. rewrite IH. cbn [In]. intuition congruence.
  - cbn [In] in *. rewrite IH. tauto.
Qed.

Lemma set_index_some X m j : set_index X m = Some j -> nth_error m j = Some X.
Proof.
  revert j; induction m as [|Y m IH]; intros j; cbn [set_index]; [discriminate|].
  destruct (natlist_eqb X Y) eqn:E.
  - apply natlist_eqb_eq in E; subst. intros H; inversion H; reflexivity.
  - destruct (set_index X m) as [k|]; cbn; [|discriminate]. intros H; inversion H; subst. cbn. auto.
Qed.
Lemma set_index_none X m : set_index X m = None -> ~ In X m.
Proof.
  induction m as [|Y m IH]; cbn [set_index In]; [tauto|].
  destruct (natlist_eqb X Y) eqn:E; [discriminate|].
  destruct (set_index X m); cbn; [discriminate|]. intros _ [->|H]; [rewrite natlist_eqb_refl in E; discriminate|].
  apply IH; auto.
Qed.

Lemma edge3_eqb_iff x y : edge3_eqb x y = true <-> x = y.
Proof.
  unfold edge3_eqb. destruct x as [[a b] c], y as [[d e] f]; cbn [fst snd].
  rewrite !andb_true_iff, N.eqb_eq, !Nat.eqb_eq. split; [intros [[-> ->] ->]; auto|intros E; inversion E; auto].
Qed.
Lemma add_edge_in e es e' : In e' (add_edge e es) <-> e' = e \/ In e' es.
Proof.
  unfold add_edge. destruct (existsb (edge3_eqb e) es) eqn:E.
  - apply existsb_exists in E as (x & Hx & Ex). apply edge3_eqb_iff in Ex; subst. intuition congruence.
  - rewrite in_app_iff. cbn. intuition congruence.
Qed.
Lemma acc_eqb_iff x y : acc_eqb x y = true <-> x = y.
Proof.
  unfold acc_eqb. destruct x as [a b], y as [c d]; cbn [fst snd].
  rewrite andb_true_iff, N.eqb_eq, Nat.eqb_eq. split; [intros [-> ->]; auto|intros E; inversion E; auto].
Qed.

(* a fold in the result monad whose body appends *)
Lemma rfold_append {A B} (F:res (list B) -> A -> res (list B)) (h:A -> list B) l :
  (forall x a, In x l -> F (Ok a) x = Ok (a ++ h x)) ->
  forall a, fold_left F l (Ok a) = Ok (a ++ flat_map h l).
Proof.
  induction l as [|x l IH]; intros H a; cbn [fold_left flat_map]; [rewrite app_nil_r; auto|].
  rewrite H by (left; auto). rewrite IH by (intros; apply H; right; auto). rewrite app_assoc. reflexivity.
Qed.

Lemma nth_map_seq {A} (f:nat -> A) d i n : i < n -> nth i (map f (seq 0 n)) d = f i.
Proof.
  intros H. rewrite (nth_indep _ d (f 0)) by (rewrite map_length, seq_length; auto).
  rewrite map_nth, seq_nth; auto.
Qed.
Lemma fold_push_new_ext l : forall acc, exists ext, fold_left push_new l acc = acc ++ ext.
Proof.
  induction l as [|x l IH]; intros acc; cbn [fold_left]; [exists []; rewrite app_nil_r; auto|].
  unfold push_new at 2. destruct (natmem x acc).
  - apply IH.
  - destruct (IH (acc ++ [x])) as (ext & E). exists (x :: ext). rewrite E, <- app_assoc. reflexivity.
Qed.
Lemma NoDup_snoc {A} (l:list A) x : NoDup l -> ~ In x l -> NoDup (l ++ [x]).
Proof.
  induction l as [|y l IH]; intros H Hn; cbn [app]; [constructor; auto; constructor|].
  inversion H; subst. constructor.
  - rewrite in_app_iff. cbn. intros [HI|[->|[]]]; [auto|]. apply Hn; left; auto.
  - apply IH; auto. intros HI; apply Hn; right; auto.
Qed.
Lemma fold_push_new_nodup l : forall acc, NoDup acc -> NoDup (fold_left push_new l acc).
Proof.
  induction l as [|x l IH]; intros acc H; cbn [fold_left]; auto. apply IH.
  unfold push_new. destruct (natmem x acc) eqn:E; auto.
  apply NoDup_snoc; auto. intros HI. apply natmem_in in HI. congruence.
Qed.

(* ================================================================== *)
(* 2. the id-based view of an NFA; Nfa::epsilon_closure                *)
(* ================================================================== *)
Inductive estar (E:nat -> nat -> Prop) : nat -> nat -> Prop :=
| es_refl q : estar E q q
| es_step q q1 q' : E q q1 -> estar E q1 q' -> estar E q q'.

Lemma estar_trans E a b c : estar E a b -> estar E b c -> estar E a c.
Proof. induction 1; auto. intros H2. eapply es_step; eauto. Qed.
Lemma estar_one (E:nat -> nat -> Prop) a b : E a b -> estar E a b.
Proof. intros H. eapply es_step; eauto. constructor. Qed.
Lemma estar_gpath E C a b : estar E a b <-> gpath E C a [] b.
Proof.
  split.
  - induction 1; [constructor|eapply GEps; eauto].
  - intros H. remember [] as w eqn:Ew. induction H; try discriminate; [constructor|].
    eapply es_step; eauto.
Qed.
Lemma estar_mono (E E':nat -> nat -> Prop) : (forall a b, E a b -> E' a b) -> forall a b, estar E a b -> estar E' a b.
Proof. intros H a b H1. induction H1; [constructor|eapply es_step; eauto]. Qed.

(* the edges of an NFA by state id (find_state), as opposed to Nfa.out_eps/out_trs (by index) *)
Definition ieps (n:nfa) (q q':nat) : Prop := exists s, find_state n q = Some s /\ In q' (seps s).
Definition itr (n:nfa) (q:nat) (cc:N) (t:nat) : Prop := exists s, find_state n q = Some s /\ In (cc, t) (strs s).
Definition ich (tbl:N -> N -> bool) (n:nfa) (q:nat) (c:N) (t:nat) : Prop := exists cc, itr n q cc t /\ tbl cc c = true.
Definition ipath (tbl:N -> N -> bool) (n:nfa) : nat -> list N -> nat -> Prop := gpath (ieps n) (ich tbl n).
(* the language of an NFA whose ids need not be its indices (a shifted NFA) *)
Definition ilang (tbl:N -> N -> bool) (n:nfa) (w:list N) : Prop := ipath tbl n (nstart n) w (nend n).
Definition ids (n:nfa) : list nat := map sid (nstates n).

Lemma find_state_some n q s : find_state n q = Some s -> In s (nstates n) /\ sid s = q.
Proof. unfold find_state. intros H. apply find_some in H as [H1 H2]. apply Nat.eqb_eq in H2. auto. Qed.
Lemma find_state_ex n q : In q (ids n) -> exists s, find_state n q = Some s.
Proof.
  unfold ids, find_state. induction (nstates n) as [|s l IH]; cbn [map In find]; [tauto|].
  intros H. destruct (Nat.eqb_spec (sid s) q); eauto. destruct H; [congruence|auto].
Qed.
Lemma contains_state_ids n q : contains_state n q = true <-> In q (ids n).
Proof.
  unfold contains_state, ids. rewrite existsb_exists, in_map_iff. split.
  - intros (s & H1 & H2). apply Nat.eqb_eq in H2. eauto.
  - intros (s & H1 & H2). exists s. split; auto. apply Nat.eqb_eq; auto.
Qed.

(* every epsilon target is the id of a state *)
Definition eps_closed_ids (n:nfa) : Prop := forall s t, In s (nstates n) -> In t (seps s) -> In t (ids n).

Section Closure.
Variable n : nfa.
Hypothesis Hc : eps_closed_ids n.
Variable q : nat.

Lemma closure_loop_inv : forall fuel cl i,
  NoDup cl -> incl cl (ids n) -> i <= length cl -> L n < fuel + i ->
  In q cl -> (forall x, In x cl -> estar (ieps n) q x) ->
  (forall k x, k < i -> nth_error cl k = Some x -> forall y, ieps n x y -> In y cl) ->
  exists r, closure_loop fuel n cl i = Ok r /\ forall x, In x r <-> estar (ieps n) q x.
Proof.
  induction fuel as [|f IH]; intros cl i Hnd Hincl Hi Hfuel Hq Hsound Hclosed.
  - exfalso. pose proof (NoDup_incl_length Hnd Hincl) as Hl. unfold ids in Hl. rewrite map_length in Hl. lia.
  - cbn [closure_loop]. destruct (nth_error cl i) as [x|] eqn:Ex.
    + assert (Hx : In x cl) by (eapply nth_error_In; eauto).
      destruct (find_state_ex n x (Hincl _ Hx)) as (s & Es). rewrite Es.
      assert (Hil : i < length cl) by (apply nth_error_Some; congruence).
      destruct (fold_push_new_ext (seps s) cl) as (ext & Eext).
      pose proof (find_state_some _ _ _ Es) as [Hs _].
      apply IH.
      * apply fold_push_new_nodup; auto.
      * intros y Hy. apply fold_push_new_in in Hy as [Hy|Hy]; auto. eapply Hc; eauto.
      * rewrite Eext, app_length. lia.
      * lia.
      * apply fold_push_new_in; auto.
      * intros y Hy. apply fold_push_new_in in Hy as [Hy|Hy]; auto.
        eapply estar_trans; [apply Hsound; exact Hx|]. apply estar_one. exists s; auto.
      * intros k x' Hk Ek y Hy. apply fold_push_new_in.
        rewrite Eext in Ek. rewrite nth_error_app1 in Ek by lia.
        destruct (Nat.eq_dec k i) as [->|Hne].
        -- rewrite Ex in Ek. inversion Ek; subst x'. destruct Hy as (s' & Es' & Hy). rewrite Es in Es'. inversion Es'; subst. auto.
        -- left. eapply Hclosed; eauto. lia.
    + exists cl. split; auto. intros x. split; auto.
      assert (Hil : i = length cl) by (apply nth_error_None in Ex; lia).
      intros H. assert (Hgen : forall a b, estar (ieps n) a b -> In a cl -> In b cl).
      { clear H. intros a b H. induction H; auto. intros Ha. apply IHestar.
        apply In_nth_error in Ha as (k & Ek). eapply Hclosed; eauto.
        rewrite Hil. apply nth_error_Some. congruence. }
      eapply Hgen; eauto.
Qed.

Lemma nfa_epsilon_closure_spec : In q (ids n) ->
  exists v, nfa_epsilon_closure n q = Ok v /\ forall x, In x v <-> estar (ieps n) q x.
Proof.
  intros Hq. unfold nfa_epsilon_closure.
  destruct (closure_loop_inv (S (L n)) [q] 0) as (r & Er & Hr).
  - constructor; [cbn; tauto|constructor].
  - intros x [<-|[]]; auto.
  - cbn; lia.
  - lia.
  - left; auto.
  - intros x [<-|[]]. constructor.
  - intros k x Hk. lia.
  - rewrite Er. cbn [rbind]. eexists; split; eauto. intros x. rewrite norm_in. apply Hr.
Qed.
End Closure.

(* ---------- NFAs whose ids are lo, lo+1, .. in vector order ---------- *)
Definition IWF (lo:nat) (n:nfa) : Prop :=
  (forall i s, nth_error (nstates n) i = Some s -> sid s = lo + i) /\
  (forall s t, In s (nstates n) -> In t (seps s) -> lo <= t < lo + L n) /\
  (forall s cc t, In s (nstates n) -> In (cc, t) (strs s) -> lo <= t < lo + L n) /\
  (lo <= nstart n < lo + L n) /\ (lo <= nend n < lo + L n).

Lemma ids_seq_gen (l:list nstate) : forall lo, (forall i s, nth_error l i = Some s -> sid s = lo + i) ->
  map sid l = seq lo (length l).
Proof.
  induction l as [|s l IH]; intros lo H; cbn [map length seq]; auto.
  rewrite (H 0 s eq_refl), Nat.add_0_r. f_equal. apply IH. intros i s' Hi.
  rewrite (H (S i) s' Hi). lia.
Qed.
Lemma ids_iwf lo n : IWF lo n -> ids n = seq lo (L n).
Proof. intros (H & _). apply ids_seq_gen; auto. Qed.
Lemma in_ids_iwf lo n q : IWF lo n -> (In q (ids n) <-> lo <= q < lo + L n).
Proof. intros H. rewrite (ids_iwf lo n H), in_seq. tauto. Qed.
Lemma find_gen (l:list nstate) : forall lo q, (forall i s, nth_error l i = Some s -> sid s = lo + i) ->
  lo <= q -> find (fun s => sid s =? q) l = nth_error l (q - lo).
Proof.
  induction l as [|s l IH]; intros lo q H Hq; cbn [find].
  - destruct (q - lo); reflexivity.
  - rewrite (H 0 s eq_refl), Nat.add_0_r. destruct (Nat.eqb_spec lo q) as [->|Hne].
    + rewrite Nat.sub_diag. reflexivity.
    + rewrite (IH (S lo) q); [|intros i s' Hi; rewrite (H (S i) s' Hi); lia|lia].
      replace (q - lo) with (S (q - S lo)) by lia. reflexivity.
Qed.
Lemma find_state_iwf lo n q : IWF lo n -> lo <= q -> find_state n q = nth_error (nstates n) (q - lo).
Proof. intros (H & _) Hq. unfold find_state. apply find_gen; auto. Qed.
Lemma iwf_eps_closed lo n : IWF lo n -> eps_closed_ids n.
Proof. intros H s t Hs Ht. apply (in_ids_iwf lo n t H). destruct H as (_ & H & _). eauto. Qed.
Lemma ieps_range lo n a b : IWF lo n -> ieps n a b -> (lo <= a < lo + L n) /\ (lo <= b < lo + L n).
Proof.
  intros H (s & Es & Hb). pose proof (find_state_some _ _ _ Es) as [Hs Hid]. split.
  - apply (in_ids_iwf lo n a H). unfold ids. rewrite <- Hid. apply in_map; auto.
  - destruct H as (_ & H & _). eauto.
Qed.
Lemma itr_range lo n a cc b : IWF lo n -> itr n a cc b -> (lo <= a < lo + L n) /\ (lo <= b < lo + L n).
Proof.
  intros H (s & Es & Hb). pose proof (find_state_some _ _ _ Es) as [Hs Hid]. split.
  - apply (in_ids_iwf lo n a H). unfold ids. rewrite <- Hid. apply in_map; auto.
  - destruct H as (_ & _ & H & _). eauto.
Qed.
Lemma estar_range lo n a b : IWF lo n -> lo <= a < lo + L n -> estar (ieps n) a b -> lo <= b < lo + L n.
Proof. intros H Ha H1. induction H1; auto. apply IHestar. eapply ieps_range; eauto. Qed.

Lemma WF_IWF n : WF n -> IWF 0 n.
Proof.
  intros (H1 & _ & H3 & H4 & H5 & H6 & _). unfold IWF. split; [|split; [|split; [|split; lia]]].
  - intros i s Hi. assert (Hl : i < L n) by (apply nth_error_Some; congruence).
    specialize (H1 i Hl). unfold sid_at in H1. rewrite Hi in H1. cbn in H1. inversion H1; auto.
  - intros s t Hs Ht. apply In_nth_error in Hs as (i & Hi). split; [lia|]. cbn. apply (H3 i). unfold out_eps. rewrite Hi; auto.
  - intros s cc t Hs Ht. apply In_nth_error in Hs as (i & Hi). split; [lia|]. cbn. apply (H4 i cc). unfold out_trs. rewrite Hi; auto.
Qed.
Lemma IWF_shift lo n k : IWF lo n -> IWF (lo + k) (nfa_shift_ids n k).
Proof.
  intros (H1 & H2 & H3 & H4 & H5). unfold IWF, nfa_shift_ids; cbn [nstates nstart nend]; rewrite ?map_length.
  split; [|split; [|split; [|split; lia]]].
  - intros i s Hi. rewrite nth_error_map in Hi. destruct (nth_error (nstates n) i) as [s0|] eqn:E; [|discriminate].
    inversion Hi; subst. cbn. rewrite (H1 i s0 E). lia.
  - intros s t Hs Ht. apply in_map_iff in Hs as (s0 & <- & Hs0). cbn in Ht. apply in_map_iff in Ht as (t0 & <- & Ht0).
    specialize (H2 _ _ Hs0 Ht0). lia.
  - intros s cc t Hs Ht. apply in_map_iff in Hs as (s0 & <- & Hs0). cbn in Ht. apply in_map_iff in Ht as ([c0 t0] & E0 & Ht0).
    cbn in E0. inversion E0; subst. specialize (H3 _ _ _ Hs0 Ht0). lia.
Qed.

(* ================================================================== *)
(* 3. the BFS over closure sets, generically                           *)
(* ================================================================== *)
Section Gen.
Variable cl : nat -> res (list nat).
Variable mt : list nat -> res (list (N * nat)).
Variable tokf : nat -> res N.
Variable accb : list nat -> bool.
Variable V : nat -> Prop.                 (* the NFA states that can be the target of a transition *)
Variable B : nat.
Variable start : nat.
Variable Tr : nat -> N -> nat -> Prop.    (* the transitions of the NFA *)

(* the BTreeSet of the closure of a state *)
Definition clS (t:nat) : list nat := match cl t with Ok v => norm v | Panic => [] end.
Definition good (X:list nat) : Prop := X = clS start \/ exists t, V t /\ X = clS t.

Hypothesis V_bound : forall t, V t -> t < B.
Hypothesis cl_start : cl start <> Panic.
Hypothesis cl_V : forall t, V t -> cl t <> Panic.
Hypothesis mt_spec : forall X, good X ->
  exists l, mt X = Ok l /\ forall cc t, In (cc, t) l <-> exists q, In q X /\ Tr q cc t.
Hypothesis Tr_V : forall X q cc t, good X -> In q X -> Tr q cc t -> V t.
Hypothesis tok_V : forall t, V t -> tokf t <> Panic.
Hypothesis tok_coh : forall t t', V t -> V t' -> clS t = clS t' -> tokf t = tokf t'.

Definition sset (st:bst) (i:nat) : list nat := nth i (smap st) [].
Definition len (st:bst) : nat := length (smap st).

Definition done_edge (st:bst) (i:nat) (cc:N) (t:nat) : Prop :=
  exists j, j < len st /\ sset st j = clS t /\ In (i, cc, j) (edges st).
Definition done (st:bst) (i:nat) : Prop :=
  forall q cc t, In q (sset st i) -> Tr q cc t -> done_edge st i cc t.

Record Inv (st:bst) : Prop := {
  inv_map : exists ts, smap st = clS start :: map clS ts /\ Forall V ts;
  inv_nodup : NoDup (smap st);
  inv_queue : forall i, In i (queue st) -> i < len st;
  inv_edges : forall i cc j, In (i, cc, j) (edges st) -> i < len st /\ j < len st /\
      exists q t, In q (sset st i) /\ Tr q cc t /\ V t /\ sset st j = clS t /\
                  (accb (clS t) = true -> exists tk, In (j, tk) (accs st));
  inv_accs : forall j tk, In (j, tk) (accs st) -> j < len st /\
      exists t, V t /\ sset st j = clS t /\ accb (clS t) = true /\ tokf t = Ok tk }.

Lemma inv_good st i : Inv st -> i < len st -> good (sset st i).
Proof.
  intros HI Hi. destruct (inv_map st HI) as (ts & E & HV). unfold sset, len in *. rewrite E in *.
  destruct i as [|i]; cbn [nth]; [left; auto|right].
  cbn [length] in Hi. rewrite map_length in Hi.
  exists (nth i ts 0). split.
  - rewrite Forall_forall in HV. apply HV. apply nth_In. lia.
  - rewrite <- (map_nth clS). apply nth_indep. rewrite map_length. lia.
Qed.
Lemma inv_size st : Inv st -> len st <= B + 1.
Proof.
  intros HI. destruct (inv_map st HI) as (ts & E & HV). pose proof (inv_nodup st HI) as Hnd.
  unfold len. rewrite E in *. cbn [length]. rewrite map_length.
  inversion Hnd; subst. apply NoDup_map_inv in H2.
  assert (Hincl : incl ts (seq 0 B)).
  { intros t Ht. apply in_seq. rewrite Forall_forall in HV. specialize (V_bound t (HV t Ht)). lia. }
  pose proof (NoDup_incl_length H2 Hincl) as Hl. rewrite seq_length in Hl. lia.
Qed.

(* st' extends st: new compiled states are appended and queued in order *)
Definition ext (st st':bst) : Prop :=
  exists sm2, smap st' = smap st ++ sm2 /\ queue st' = queue st ++ seq (len st) (length sm2) /\
              incl (edges st) (edges st') /\ incl (accs st) (accs st').
Lemma ext_refl st : ext st st.
Proof. exists []. rewrite !app_nil_r. repeat split; auto; apply incl_refl. Qed.
Lemma ext_trans a b c : ext a b -> ext b c -> ext a c.
Proof.
  intros (s1 & E1 & Q1 & I1 & J1) (s2 & E2 & Q2 & I2 & J2). exists (s1 ++ s2).
  rewrite E2, E1, Q2, Q1, <- !app_assoc. repeat split.
  - f_equal. rewrite app_length, seq_app. f_equal. unfold len. rewrite E1, app_length. reflexivity.
  - eapply incl_tran; eauto.
  - eapply incl_tran; eauto.
Qed.
Lemma ext_len a b : ext a b -> len a <= len b.
Proof. intros (s1 & E1 & _). unfold len. rewrite E1, app_length. lia. Qed.
Lemma ext_sset a b i : ext a b -> i < len a -> sset b i = sset a i.
Proof. intros (s1 & E1 & _) Hi. unfold sset. rewrite E1. apply app_nth1; auto. Qed.
Lemma ext_done_edge a b i cc t : ext a b -> done_edge a i cc t -> done_edge b i cc t.
Proof.
  intros He (j & Hj & Es & Hin). exists j. split; [pose proof (ext_len _ _ He); lia|]. split.
  - rewrite (ext_sset a b j He Hj); auto.
  - destruct He as (_ & _ & _ & Hi & _). auto.
Qed.
Lemma ext_done a b i : ext a b -> i < len a -> done a i -> done b i.
Proof.
  intros He Hi Hd q cc t Hq Ht. eapply ext_done_edge; eauto. apply (Hd q cc t); auto.
  rewrite <- (ext_sset a b i He Hi); auto.
Qed.

Lemma cl_clS t v : cl t = Ok v -> clS t = norm v.
Proof. unfold clS. intros ->. reflexivity. Qed.

(* one target *)
Lemma visit_ok st cur cc t : Inv st -> cur < len st ->
  (exists q, In q (sset st cur) /\ Tr q cc t) ->
  exists st', visit cl tokf accb cur (cc, t) st = Ok st' /\ Inv st' /\ ext st st' /\ done_edge st' cur cc t.
Proof.
  intros HI Hcur (q & Hq & Ht).
  assert (HV : V t) by (eapply Tr_V; eauto; apply inv_good; auto).
  unfold visit. cbn [fst snd].
  destruct (cl t) as [v|] eqn:Ecl; [|exfalso; eapply cl_V; eauto]. cbn [rbind].
  pose proof (cl_clS t v Ecl) as EX. rewrite <- EX.
  destruct (tokf t) as [tk|] eqn:Etk; [|exfalso; eapply tok_V; eauto].
  (* the common part of the two cases *)
  assert (Hcommon : forall sm2 j,
     NoDup (smap st ++ sm2) ->
     (exists ts, smap st ++ sm2 = clS start :: map clS ts /\ Forall V ts) ->
     j < length (smap st ++ sm2) -> nth j (smap st ++ sm2) [] = clS t ->
     let st' := {| smap := smap st ++ sm2; queue := queue st ++ seq (len st) (length sm2);
                   edges := add_edge (cur, cc, j) (edges st);
                   accs := if accb (clS t) && negb (existsb (acc_eqb (j, tk)) (accs st))
                           then accs st ++ [(j, tk)] else accs st |} in
     Inv st' /\ ext st st' /\ done_edge st' cur cc t).
  { intros sm2 j Hnd Hmap Hj Hnj st'.
    assert (Hacc_incl : incl (accs st) (accs st')).
    { unfold st'; cbn [accs]. destruct (accb (clS t) && negb _); [apply incl_appl|]; apply incl_refl. }
    assert (Hacc_new : accb (clS t) = true -> In (j, tk) (accs st')).
    { intros Ha. unfold st'; cbn [accs]. rewrite Ha. cbn [andb].
      destruct (existsb (acc_eqb (j, tk)) (accs st)) eqn:Ee; cbn [negb].
      - apply existsb_exists in Ee as (y & Hy & Ey). apply acc_eqb_iff in Ey; subst; auto.
      - apply in_app_iff; right; left; auto. }
    assert (Hext : ext st st').
    { exists sm2. unfold st'; cbn [smap queue edges accs]. repeat split; auto.
      intros e He. apply add_edge_in; auto. }
    assert (Hss : forall i, i < len st -> sset st' i = sset st i) by (intros; eapply ext_sset; eauto).
    assert (Hlen : len st <= len st') by (apply ext_len; auto).
    split; [|split; auto].
    - constructor.
      + exact Hmap.
      + exact Hnd.
      + intros i Hi. unfold st' in Hi; cbn [queue] in Hi. apply in_app_iff in Hi as [Hi|Hi].
        * pose proof (inv_queue st HI i Hi). lia.
        * apply in_seq in Hi. unfold len, st'; cbn [smap]. rewrite app_length. unfold len in Hi. lia.
      + intros i a k Hin. unfold st' in Hin; cbn [edges] in Hin. apply add_edge_in in Hin as [E|Hin].
        * inversion E; subst i a k. split; [lia|]. split; [exact Hj|].
          exists q, t. rewrite Hss by auto. repeat split; auto.
          intros Ha. eauto.
        * destruct (inv_edges st HI i a k Hin) as (H1 & H2 & q' & t' & G1 & G2 & G3 & G4 & G5).
          split; [lia|]. split; [lia|]. exists q', t'. rewrite !Hss by auto. repeat split; auto.
          intros Ha. destruct (G5 Ha) as (tk' & Htk'). exists tk'. apply Hacc_incl; auto.
      + intros k tk' Hin. unfold st' in Hin; cbn [accs] in Hin.
        assert (Hold : In (k, tk') (accs st) -> k < len st' /\ exists t0, V t0 /\ sset st' k = clS t0 /\ accb (clS t0) = true /\ tokf t0 = Ok tk').
        { intros Hin'. destruct (inv_accs st HI k tk' Hin') as (H1 & t0 & G1 & G2 & G3 & G4).
          split; [lia|]. exists t0. rewrite Hss by auto. auto. }
        destruct (accb (clS t)) eqn:Ea; cbn [andb] in Hin; [|auto].
        destruct (negb (existsb (acc_eqb (j, tk)) (accs st))); [|auto].
        apply in_app_iff in Hin as [Hin|[E|[]]]; [auto|]. inversion E; subst k tk'.
        split; [exact Hj|]. exists t. repeat split; auto.
    - exists j. split; [exact Hj|]. split; [exact Hnj|]. unfold st'; cbn [edges]. apply add_edge_in; auto. }
  destruct (set_index (clS t) (smap st)) as [j|] eqn:Ei.
  - apply set_index_some in Ei.
    assert (Hj : j < length (smap st)) by (apply nth_error_Some; congruence).
    specialize (Hcommon [] j). rewrite app_nil_r in Hcommon. cbn [length seq] in Hcommon. rewrite app_nil_r in Hcommon.
    eexists. split; [reflexivity|]. apply Hcommon; auto.
    + apply (inv_nodup st HI).
    + apply (inv_map st HI).
    + apply nth_error_nth; auto.
  - apply set_index_none in Ei.
    specialize (Hcommon [clS t] (length (smap st))). cbn [length seq] in Hcommon.
    eexists. split; [reflexivity|]. apply Hcommon.
    + apply NoDup_snoc; auto. apply (inv_nodup st HI).
    + destruct (inv_map st HI) as (ts & E & HVs). exists (ts ++ [t]). split.
      * rewrite E, map_app. reflexivity.
      * apply Forall_app; split; auto.
    + rewrite app_length. cbn. lia.
    + rewrite app_nth2 by lia. rewrite Nat.sub_diag. reflexivity.
Qed.

(* all targets of one compiled state *)
Lemma visits_ok targets : forall st cur, Inv st -> cur < len st ->
  (forall cc t, In (cc, t) targets -> exists q, In q (sset st cur) /\ Tr q cc t) ->
  exists st', fold_left (fun acc ct => rbind acc (fun s => visit cl tokf accb cur ct s)) targets (Ok st) = Ok st' /\
     Inv st' /\ ext st st' /\ forall cc t, In (cc, t) targets -> done_edge st' cur cc t.
Proof.
  induction targets as [|[cc t] targets IH]; intros st cur HI Hcur Hw; cbn [fold_left].
  - exists st. split; [reflexivity|]. split; [exact HI|]. split; [apply ext_refl|]. intros ? ? [].
  - destruct (visit_ok st cur cc t HI Hcur (Hw cc t (or_introl eq_refl))) as (st1 & E1 & HI1 & He1 & Hd1).
    cbn [rbind]. rewrite E1.
    destruct (IH st1 cur HI1) as (st' & E' & HI' & He' & Hd').
    + pose proof (ext_len _ _ He1). lia.
    + intros cc' t' Hin. rewrite (ext_sset st st1 cur He1 Hcur). apply Hw. right; auto.
    + exists st'. split; [exact E'|]. split; [exact HI'|]. split; [eapply ext_trans; eauto|].
      intros cc' t' [E|Hin]; [inversion E; subst; eapply ext_done_edge; eauto|auto].
Qed.

Lemma bfs_loop_ok : forall fuel st, Inv st ->
  (forall i, i < len st -> In i (queue st) \/ done st i) ->
  (B + 1 - len st) + length (queue st) < fuel ->
  exists st', bfs_loop cl mt tokf accb fuel st = Ok st' /\ Inv st' /\ (forall i, i < len st' -> done st' i).
Proof.
  induction fuel as [|f IH]; intros st HI Hp Hm; [lia|].
  cbn [bfs_loop]. destruct (queue st) as [|cur rest] eqn:Eq.
  - exists st. split; [reflexivity|]. split; [exact HI|]. intros i Hi. destruct (Hp i Hi) as [[]|]; auto.
  - assert (Hcur : cur < len st) by (apply (inv_queue st HI); rewrite Eq; left; auto).
    rewrite (nth_error_nth' (smap st) [] Hcur). fold (sset st cur).
    destruct (mt_spec (sset st cur) (inv_good st cur HI Hcur)) as (targets & Emt & Hmt). rewrite Emt. cbn [rbind].
    set (str := {| smap := smap st; queue := rest; edges := edges st; accs := accs st |}).
    assert (HIr : Inv str).
    { constructor; try apply HI. intros i Hi. apply (inv_queue st HI). rewrite Eq. right; auto. }
    destruct (visits_ok targets str cur HIr Hcur) as (st1 & E1 & HI1 & He1 & Hd1).
    { intros cc t Hin. apply Hmt; auto. }
    rewrite E1.
    pose proof (inv_size st1 HI1) as Hsz. pose proof (ext_len _ _ He1) as Hle.
    assert (Hq1 : length (queue st1) + len str = length rest + len st1).
    { destruct He1 as (sm2 & Es & Eqq & _). rewrite Eqq. unfold len. rewrite Es, !app_length, seq_length.
      unfold str; cbn [queue smap]. lia. }
    assert (Hlr : len str = len st) by reflexivity.
    destruct (IH st1 HI1) as (st' & E' & HI' & Hd').
    + intros i Hi. destruct (Nat.lt_ge_cases i (len str)) as [Hlt|Hge].
      * destruct (Nat.eq_dec i cur) as [->|Hne].
        -- right. intros q cc t Hq Ht. apply Hd1. apply Hmt. exists q. split; auto.
           rewrite (ext_sset str st1 cur He1 Hcur) in Hq. exact Hq.
        -- destruct (Hp i Hlt) as [Hin|Hdn].
           ++ left. destruct Hin as [->|Hin]; [congruence|].
              destruct He1 as (sm2 & _ & Eqq & _). rewrite Eqq. apply in_app_iff; left; auto.
           ++ right. eapply (ext_done str st1); eauto.
      * left. destruct He1 as (sm2 & Es & Eqq & _). rewrite Eqq. apply in_app_iff; right.
        apply in_seq. unfold len in Hi, Hge |- *. rewrite Es, app_length in Hi. lia.
    + cbn [length] in Hm. lia.
    + exists st'. auto.
Qed.

(* ---------- finish ---------- *)
Definition fin_of_accs (ac:list (nat * N)) (base:list (bool * N)) : list (bool * N) :=
  fold_left (fun f (e:nat * N) => set_nth (fst e) (true, snd e) f) ac base.
Lemma fin_of_accs_length ac : forall base, length (fin_of_accs ac base) = length base.
Proof. induction ac as [|e ac IH]; intros base; cbn; auto. unfold fin_of_accs in IH. rewrite IH. apply set_nth_length. Qed.
Lemma fin_of_accs_spec ac base j d :
  (forall tk tk', In (j, tk) ac -> In (j, tk') ac -> tk = tk') -> j < length base ->
  (forall tk, In (j, tk) ac -> nth j (fin_of_accs ac base) d = (true, tk)) /\
  ((forall tk, ~ In (j, tk) ac) -> nth j (fin_of_accs ac base) d = nth j base d).
Proof.
  intros Hf Hj. induction ac as [|e ac IH] using rev_ind.
  - split; [intros ? []|auto].
  - unfold fin_of_accs in *. rewrite fold_left_app. cbn [fold_left].
    rewrite nth_set_nth. fold (fin_of_accs ac base). rewrite fin_of_accs_length.
    destruct IH as [IH1 IH2].
    { intros tk tk' H1 H2. apply Hf; apply in_app_iff; auto. }
    destruct e as [k tke]. cbn [fst snd]. destruct (Nat.eqb_spec j k) as [->|Hne]; cbn [andb].
    + apply Nat.ltb_lt in Hj. rewrite Hj. split.
      * intros tk Hin. f_equal. apply Hf; auto. apply in_app_iff; right; left; auto.
      * intros Hn. exfalso. apply (Hn tke). apply in_app_iff; right; left; auto.
    + split.
      * intros tk Hin. apply in_app_iff in Hin as [Hin|[E|[]]]; [auto|inversion E; congruence].
      * intros Hn. apply IH2. intros tk Hin. apply (Hn tk). apply in_app_iff; auto.
Qed.

(* what the language proof needs to know about the result *)
Record Sim (A:dfa) (sm:list (list nat)) : Prop := {
  sim_len : length (trans A) = length sm /\ length (fin A) = length sm /\ 0 < length sm;
  sim_start : nth 0 sm [] = clS start;
  sim_good : forall i, i < length sm -> good (nth i sm []);
  sim_edge : forall i a j, In (a, j) (nth i (trans A) []) -> i < length sm /\ j < length sm /\
      exists q t, In q (nth i sm []) /\ Tr q a t /\ V t /\ nth j sm [] = clS t /\
                  (accb (clS t) = true -> exists tk, acc A j tk = true);
  sim_done : forall i q a t, i < length sm -> In q (nth i sm []) -> Tr q a t ->
      exists j, In (a, j) (nth i (trans A) []) /\ nth j sm [] = clS t;
  sim_acc : forall j tk, acc A j tk = true -> j < length sm /\
      exists t, V t /\ nth j sm [] = clS t /\ accb (clS t) = true /\ tokf t = Ok tk }.

Lemma finish_ok ti st : Inv st -> (forall i, i < len st -> done st i) ->
  exists A, finish ti st = Ok A /\ Sim A (smap st) /\ tids A = ti.
Proof.
  intros HI Hd. unfold finish. fold (len st).
  assert (E1 : forallb (fun e : nat * N * nat => fst (fst e) <? len st) (edges st) = true).
  { apply forallb_forall. intros [[i a] j] Hin. cbn. apply Nat.ltb_lt. apply (inv_edges st HI i a j Hin). }
  assert (E2 : forallb (fun e : nat * N => fst e <? len st) (accs st) = true).
  { apply forallb_forall. intros [j tk] Hin. cbn. apply Nat.ltb_lt. apply (inv_accs st HI j tk Hin). }
  rewrite E1, E2. cbn [andb]. eexists. split; [reflexivity|]. split; [|reflexivity].
  set (A := {| trans := _; fin := _; tids := ti |}).
  assert (Hpos : 0 < len st).
  { destruct (inv_map st HI) as (ts & E & _). unfold len. rewrite E. cbn. lia. }
  assert (Htr : forall i a j, In (a, j) (nth i (trans A) []) <-> In (i, a, j) (edges st)).
  { intros i a j. unfold A; cbn [trans]. destruct (Nat.lt_ge_cases i (len st)) as [Hlt|Hge].
    - rewrite nth_map_seq by auto. rewrite in_map_iff. split.
      + intros ([[i' a'] j'] & E & Hin). cbn in E. inversion E; subst. apply filter_In in Hin as [Hin Hq].
        cbn in Hq. apply Nat.eqb_eq in Hq. subst. auto.
      + intros Hin. exists (i, a, j). split; auto. apply filter_In. split; auto. cbn. apply Nat.eqb_refl.
    - rewrite nth_overflow by (rewrite map_length, seq_length; auto). split; [intros []|].
      intros Hin. pose proof (inv_edges st HI i a j Hin). lia. }
  assert (Hfun : forall j tk tk', In (j, tk) (accs st) -> In (j, tk') (accs st) -> tk = tk').
  { intros j tk tk' H1 H2. destruct (inv_accs st HI j tk H1) as (_ & t & G1 & G2 & _ & G4).
    destruct (inv_accs st HI j tk' H2) as (_ & t' & G1' & G2' & _ & G4').
    assert (E : tokf t = tokf t') by (apply tok_coh; auto; congruence). congruence. }
  assert (Hacc : forall j tk, acc A j tk = true <-> In (j, tk) (accs st)).
  { intros j tk. unfold acc, A; cbn [fin]. fold (fin_of_accs (accs st) (repeat (false, 0%N) (len st))).
    destruct (Nat.lt_ge_cases j (len st)) as [Hlt|Hge].
    - destruct (fin_of_accs_spec (accs st) (repeat (false, 0%N) (len st)) j (false, 0%N) (Hfun j)) as [S1 S2];
        [rewrite repeat_length; auto|].
      destruct (existsb (fun e : nat * N => fst e =? j) (accs st)) eqn:Ee.
      + apply existsb_exists in Ee as ([k tk'] & Hin & Ek). cbn in Ek. apply Nat.eqb_eq in Ek. subst k.
        rewrite (S1 tk' Hin). rewrite N.eqb_eq. split; [intros ->; auto|intros Hin'; eapply Hfun; eauto].
      + rewrite S2.
        * rewrite nth_repeat. split; [discriminate|]. intros Hin. exfalso.
          assert (Hx : existsb (fun e : nat * N => fst e =? j) (accs st) = true).
          { apply existsb_exists. exists (j, tk). split; auto. cbn. apply Nat.eqb_refl. }
          congruence.
        * intros tk' Hin. assert (Hx : existsb (fun e : nat * N => fst e =? j) (accs st) = true).
          { apply existsb_exists. exists (j, tk'). split; auto. cbn. apply Nat.eqb_refl. }
          congruence.
    - rewrite nth_overflow by (rewrite fin_of_accs_length, repeat_length; auto). split; [discriminate|].
      intros Hin. pose proof (inv_accs st HI j tk Hin). lia. }
  constructor.
  - unfold A; cbn [trans fin]. rewrite map_length, seq_length. fold (fin_of_accs (accs st) (repeat (false, 0%N) (len st))).
    rewrite fin_of_accs_length, repeat_length. auto.
  - destruct (inv_map st HI) as (ts & E & _). rewrite E. reflexivity.
  - intros i Hi. apply (inv_good st i HI Hi).
  - intros i a j Hin. apply Htr in Hin. destruct (inv_edges st HI i a j Hin) as (H1 & H2 & q & t & G1 & G2 & G3 & G4 & G5).
    split; auto. split; auto. exists q, t. repeat split; auto.
    intros Ha. destruct (G5 Ha) as (tk & Htk). exists tk. apply Hacc; auto.
  - intros i q a t Hi Hq Ht. destruct (Hd i Hi q a t Hq Ht) as (j & Hj & Es & Hin). exists j. split; auto. apply Htr; auto.
  - intros j tk Ha. apply Hacc in Ha. apply (inv_accs st HI j tk Ha).
Qed.

Theorem bfs_ok fuel ti : B + 2 <= fuel ->
  exists A sm, bfs cl mt tokf accb fuel start ti = Ok A /\ Sim A sm /\ tids A = ti /\ length sm <= B + 1.
Proof.
  intros Hf. unfold bfs. destruct (cl start) as [v0|] eqn:E0; [|congruence]. cbn [rbind].
  set (st0 := {| smap := [norm v0]; queue := [0]; edges := []; accs := [] |}).
  assert (HI : Inv st0).
  { constructor; cbn.
    - exists []. split; auto. rewrite (cl_clS start v0 E0). reflexivity.
    - constructor; [cbn; tauto|constructor].
    - intros i [<-|[]]. unfold len; cbn. lia.
    - intros ? ? ? [].
    - intros ? ? []. }
  destruct (bfs_loop_ok fuel st0 HI) as (st' & E' & HI' & Hd').
  - intros i Hi. unfold len in Hi; cbn in Hi. left. cbn. lia.
  - unfold len; cbn. lia.
  - rewrite E'. cbn [rbind]. destruct (finish_ok ti st' HI' Hd') as (A & EA & HS & Ht).
    exists A, (smap st'). split; [exact EA|]. split; [exact HS|]. split; [exact Ht|]. apply (inv_size st' HI').
Qed.

(* ---------- the language of the result ---------- *)
Variable tbl : N -> N -> bool.
Definition Cst (q:nat) (c:N) (t:nat) : Prop := exists cc, Tr q cc t /\ tbl cc c = true.

(* a word leads from a member of the (closed) set X to the state t by character moves and
   epsilon moves in between; the last move is a character move *)
Fixpoint hitS (X:list nat) (w:list N) (t:nat) : Prop :=
  match w with
  | [] => False
  | c :: w' =>
      match w' with
      | [] => exists q, In q X /\ Cst q c t
      | _ :: _ => exists q t1, In q X /\ Cst q c t1 /\ hitS (clS t1) w' t
      end
  end.

Lemma hitS_V : forall w X t, good X -> hitS X w t -> V t.
Proof.
  induction w as [|c w IH]; intros X t HX Hh; [destruct Hh|].
  destruct w as [|c' w'].
  - cbn in Hh. destruct Hh as (q & Hq & a & Ht & _). eapply Tr_V; eauto.
  - change (exists q0 t0, In q0 X /\ Cst q0 c t0 /\ hitS (clS t0) (c' :: w') t) in Hh.
    destruct Hh as (q & t1 & Hq & (a & Ht & _) & Hh). apply (IH (clS t1) t); auto.
    right. exists t1. split; auto. eapply Tr_V; eauto.
Qed.

Section Lang.
Variable A : dfa.
Variable sm : list (list nat).
Hypothesis HS : Sim A sm.

Lemma step_edge X c j : (forall i, In i X -> i < length sm) -> In j (step tbl A X c) ->
  exists i a, In i X /\ In (a, j) (nth i (trans A) []) /\ tbl a c = true.
Proof. intros _ H. apply step_in in H as (i & Hi & Ho). apply out_in in Ho as (a & H1 & H2). eauto. Qed.

Lemma run_sound : forall w X j, w <> [] -> (forall i, In i X -> i < length sm) -> In j (run tbl A X w) ->
  exists i t, In i X /\ hitS (nth i sm []) w t /\ V t /\ j < length sm /\ nth j sm [] = clS t /\
              (accb (clS t) = true -> exists tk, acc A j tk = true).
Proof.
  induction w as [|c w IH]; intros X j Hne HX Hj; [congruence|].
  cbn [run] in Hj. destruct w as [|c' w'].
  - cbn [run] in Hj. destruct (step_edge X c j HX Hj) as (i & a & Hi & Hin & Ht).
    destruct (sim_edge A sm HS i a j Hin) as (_ & Hjl & q & t & G1 & G2 & G3 & G4 & G5).
    exists i, t. split; auto. split; [|auto]. cbn. exists q. split; auto. exists a; auto.
  - destruct (IH (step tbl A X c) j) as (i' & t & Hi' & Hh & HVt & Hjl & Ej & Hacc); [discriminate| |exact Hj|].
    + intros i' Hi'. destruct (step_edge X c i' HX Hi') as (i & a & Hi & Hin & Ht).
      apply (sim_edge A sm HS i a i' Hin).
    + destruct (step_edge X c i' HX Hi') as (i & a & Hi & Hin & Ht).
      destruct (sim_edge A sm HS i a i' Hin) as (_ & _ & q & t1 & G1 & G2 & G3 & G4 & _).
      exists i, t. split; auto. split; [|auto].
      change (exists q0 t0, In q0 (nth i sm []) /\ Cst q0 c t0 /\ hitS (clS t0) (c' :: w') t).
      exists q, t1. split; auto. split; [exists a; auto|]. rewrite <- G4. exact Hh.
Qed.

Lemma run_complete : forall w X i t, w <> [] -> In i X -> i < length sm -> hitS (nth i sm []) w t ->
  exists j, In j (run tbl A X w) /\ nth j sm [] = clS t /\ j < length sm /\ V t /\
            (accb (clS t) = true -> exists tk, acc A j tk = true).
Proof.
  induction w as [|c w IH]; intros X i t Hne Hi Hil Hh; [congruence|].
  cbn [run]. destruct w as [|c' w'].
  - cbn in Hh. destruct Hh as (q & Hq & a & Ht & Hc).
    destruct (sim_done A sm HS i q a t Hil Hq Ht) as (j & Hin & Ej).
    destruct (sim_edge A sm HS i a j Hin) as (_ & Hjl & q' & t' & _ & _ & _ & G4 & G5).
    exists j. cbn [run]. split; [apply step_in; exists i; split; auto; apply out_in; eauto|].
    split; auto. split; auto. split; [eapply Tr_V; eauto; apply (sim_good A sm HS); auto|].
    intros Ha. apply G5. rewrite <- G4, Ej. exact Ha.
  - change (exists q0 t0, In q0 (nth i sm []) /\ Cst q0 c t0 /\ hitS (clS t0) (c' :: w') t) in Hh.
    destruct Hh as (q & t1 & Hq & (a & Ht & Hc) & Hh).
    destruct (sim_done A sm HS i q a t1 Hil Hq Ht) as (j1 & Hin & Ej1).
    destruct (sim_edge A sm HS i a j1 Hin) as (_ & Hj1l & _).
    apply (IH (step tbl A X c) j1 t); [discriminate| |auto|rewrite Ej1; exact Hh].
    apply step_in; exists i; split; auto; apply out_in; eauto.
Qed.

Theorem gen_accepts w tk : w <> [] ->
  (accepts_tok tbl A w tk <-> exists t, hitS (clS start) w t /\ accb (clS t) = true /\ tokf t = Ok tk).
Proof.
  intros Hne. pose proof (sim_len A sm HS) as (_ & _ & Hpos). split.
  - intros (q & Hq & Ha).
    destruct (run_sound w [0] q Hne) as (i & t & Hi & Hh & HVt & Hql & Eq & _); auto.
    { intros i [<-|[]]; auto. }
    destruct Hi as [<-|[]]. rewrite (sim_start A sm HS) in Hh.
    destruct (sim_acc A sm HS q tk Ha) as (_ & t' & HVt' & Eq' & Hacc' & Htk').
    exists t. split; auto. split; [rewrite <- Eq, Eq'; auto|].
    rewrite (tok_coh t t'); auto. congruence.
  - intros (t & Hh & Hacc & Htk). rewrite <- (sim_start A sm HS) in Hh.
    destruct (run_complete w [0] 0 t Hne) as (j & Hj & Ej & Hjl & HVt & Ha); auto; [left; auto|].
    destruct (Ha Hacc) as (tk' & Htk').
    destruct (sim_acc A sm HS j tk' Htk') as (_ & t' & HVt' & Ej' & _ & Htk'').
    assert (E : tokf t' = tokf t) by (apply tok_coh; auto; congruence).
    assert (tk' = tk) by congruence. subst tk'. exists j. auto.
Qed.

Lemma gen_start_not_accepting : (forall t, V t -> clS t <> clS start) -> forall tk, acc A 0 tk = false.
Proof.
  intros Hd tk. destruct (acc A 0 tk) eqn:E; auto. exfalso.
  destruct (sim_acc A sm HS 0 tk E) as (_ & t & HVt & E0 & _). apply (Hd t HVt). rewrite <- E0. apply (sim_start A sm HS).
Qed.

Lemma gen_wf_min : wf_min A = true.
Proof.
  pose proof (sim_len A sm HS) as (H1 & H2 & H3). unfold wf_min.
  rewrite H1, H2, Nat.eqb_refl. cbn [andb]. apply andb_true_iff. split; [apply Nat.ltb_lt; auto|].
  apply forallb_forall. intros es Hes. apply forallb_forall. intros [a j] Hin. cbn [snd]. apply Nat.ltb_lt.
  apply (In_nth _ _ []) in Hes as (i & Hi & Ei). subst es.
  apply (sim_edge A sm HS i a j Hin).
Qed.
End Lang.

(* ---------- from hitS to paths, given that clS is the epsilon closure ---------- *)
Section Paths.
Variable E : nat -> nat -> Prop.
Hypothesis clS_spec : forall t, (t = start \/ V t) -> forall x, In x (clS t) <-> estar E t x.

Lemma good_node s : (s = start \/ V s) -> good (clS s).
Proof. intros [->|H]; [left; auto|right; eauto]. Qed.

Lemma hit_path : forall w s, (s = start \/ V s) -> w <> [] -> forall qf,
  ((exists t, hitS (clS s) w t /\ In qf (clS t)) <-> gpath E Cst s w qf).
Proof.
  induction w as [|c w IH]; intros s Hs Hne qf; [congruence|]. split.
  - intros (t & Hh & Hqf). destruct w as [|c' w'].
    + cbn in Hh. destruct Hh as (q & Hq & Hc).
      assert (HVt : V t) by (destruct Hc as (a & Ht & _); exact (Tr_V (clS s) q a t (good_node s Hs) Hq Ht)).
      apply (clS_spec s Hs) in Hq. apply (estar_gpath E Cst) in Hq.
      apply (clS_spec t (or_intror HVt)) in Hqf. apply (estar_gpath E Cst) in Hqf.
      apply (gpath_app E Cst s [] q [c] qf Hq). eapply GCh; eauto.
    + change (exists q0 t0, In q0 (clS s) /\ Cst q0 c t0 /\ hitS (clS t0) (c' :: w') t) in Hh.
      destruct Hh as (q & t1 & Hq & Hc & Hh).
      assert (HVt : V t1) by (destruct Hc as (a & Ht & _); exact (Tr_V (clS s) q a t1 (good_node s Hs) Hq Ht)).
      apply (clS_spec s Hs) in Hq. apply (estar_gpath E Cst) in Hq.
      apply (gpath_app E Cst s [] q (c :: c' :: w') qf Hq). eapply GCh; eauto.
      apply (IH t1 (or_intror HVt)); [discriminate|]. eauto.
  - intros Hp. apply gpath_cons_inv in Hp as (q0 & q1 & P0 & Hc & P1).
    apply (estar_gpath E Cst) in P0. apply (clS_spec s Hs) in P0.
    assert (HVt : V q1) by (destruct Hc as (a & Ht & _); exact (Tr_V (clS s) q0 a q1 (good_node s Hs) P0 Ht)).
    destruct w as [|c' w'].
    + exists q1. split; [cbn; eauto|]. apply (clS_spec q1 (or_intror HVt)). apply (estar_gpath E Cst). exact P1.
    + apply (IH q1 (or_intror HVt)) in P1 as (t & Hh & Hqf); [|discriminate].
      exists t. split; auto.
      change (exists q0 t0, In q0 (clS s) /\ Cst q0 c t0 /\ hitS (clS t0) (c' :: w') t). eauto.
Qed.
End Paths.
End Gen.

(* ================================================================== *)
(* 4. From<Nfa> for CompiledDfa (lookaheads)                           *)
(* ================================================================== *)
Section Single.
Variable n : nfa.
Variable tid : N.
Hypothesis W : IWF 0 n.

Let cl1 := nfa_epsilon_closure n.
Let V1 (t:nat) : Prop := t < L n.
Let Tr1 (q:nat) (cc:N) (t:nat) : Prop := In (cc, t) (out_trs n q).

Lemma find_state_index q : find_state n q = nth_error (nstates n) q.
Proof. rewrite (find_state_iwf 0 n q W) by lia. rewrite Nat.sub_0_r. reflexivity. Qed.
Lemma ieps_eps_edge a b : ieps n a b <-> eps_edge n a b.
Proof.
  unfold ieps, eps_edge, out_eps. rewrite find_state_index. destruct (nth_error (nstates n) a) as [s|].
  - split; [intros (s' & E & H); inversion E; subst; auto|eauto].
  - split; [intros (s' & E & _); discriminate|intros []].
Qed.
Lemma in_ids_single q : q < L n -> In q (ids n).
Proof. intros H. apply (in_ids_iwf 0 n q W). lia. Qed.

Lemma cl1_spec t : t < L n -> exists v, cl1 t = Ok v /\ forall x, In x (clS cl1 t) <-> estar (eps_edge n) t x.
Proof.
  intros Ht. destruct (nfa_epsilon_closure_spec n (iwf_eps_closed 0 n W) t (in_ids_single t Ht)) as (v & E & H).
  exists v. split; auto. intros x. unfold clS, cl1. rewrite E, norm_in, H. split; apply estar_mono; intros a b; apply ieps_eps_edge.
Qed.
Lemma start_lt : nstart n < L n. Proof. destruct W as (_ & _ & _ & H & _). lia. Qed.
Lemma good1_range X x : good cl1 V1 (nstart n) X -> In x X -> x < L n.
Proof.
  intros HX Hx. assert (Hg : exists t, t < L n /\ X = clS cl1 t).
  { destruct HX as [->|(t & Ht & ->)]; [exists (nstart n); split; auto; apply start_lt|eauto]. }
  destruct Hg as (t & Ht & ->). destruct (cl1_spec t Ht) as (_ & _ & H). apply H in Hx.
  assert (Hr : 0 <= x < 0 + L n); [|lia].
  apply (estar_range 0 n t x W); [lia|]. revert Hx. apply estar_mono. intros a b. apply ieps_eps_edge.
Qed.

Lemma single_mt_spec X : good cl1 V1 (nstart n) X ->
  exists l, nfa_match_transitions n X = Ok l /\ forall cc t, In (cc, t) l <-> exists q, In q X /\ Tr1 q cc t.
Proof.
  intros HX. unfold nfa_match_transitions.
  rewrite (rfold_append _ (out_trs n) X).
  - cbn [rbind app]. eexists; split; [reflexivity|]. intros cc t. rewrite pnorm_in, in_flat_map. reflexivity.
  - intros x a Hx. cbn [rbind]. pose proof (good1_range X x HX Hx) as Hl. unfold out_trs.
    destruct (nth_error (nstates n) x) eqn:E; auto. apply nth_error_None in E. lia.
Qed.
Lemma single_Tr_V X q cc t : good cl1 V1 (nstart n) X -> In q X -> Tr1 q cc t -> V1 t.
Proof.
  intros _ _ Ht. unfold Tr1, out_trs in Ht. destruct (nth_error (nstates n) q) as [s|] eqn:E; [|destruct Ht].
  destruct W as (_ & _ & H & _). apply nth_error_In in E. specialize (H s cc t E Ht). unfold V1. lia.
Qed.

Lemma single_bfs_ok :
  exists A sm, compile_single n tid = Ok A /\ Sim cl1 (fun _ => Ok tid) (natmem (nend n)) V1 (nstart n) Tr1 A sm /\
               tids A = [tid] /\ length sm <= L n + 1.
Proof.
  unfold compile_single. apply (bfs_ok cl1 (nfa_match_transitions n) (fun _ => Ok tid) (natmem (nend n)) V1 (L n) (nstart n) Tr1).
  - auto.
  - destruct (cl1_spec (nstart n) start_lt) as (v & E & _). congruence.
  - intros t Ht. destruct (cl1_spec t Ht) as (v & E & _). congruence.
  - apply single_mt_spec.
  - apply single_Tr_V.
  - intros; discriminate.
  - auto.
  - lia.
Qed.

Theorem compile_single_total_iwf : exists A, compile_single n tid = Ok A.
Proof. destruct single_bfs_ok as (A & sm & E & _). eauto. Qed.

Theorem compile_single_correct_iwf tbl A : compile_single n tid = Ok A ->
  forall w tk, w <> [] -> (accepts_tok tbl A w tk <-> tk = tid /\ nfa_lang tbl n w).
Proof.
  intros EA w tk Hne. destruct single_bfs_ok as (A' & sm & E & HS & _). rewrite EA in E. inversion E; subst A'.
  rewrite (gen_accepts cl1 (fun _ => Ok tid) (natmem (nend n)) V1 (nstart n) Tr1 single_Tr_V (fun _ _ _ _ _ => eq_refl) tbl A sm HS w tk Hne).
  pose proof (hit_path cl1 V1 (nstart n) Tr1 single_Tr_V tbl (eps_edge n)) as HP.
  assert (Hspec : forall t, t = nstart n \/ V1 t -> forall x, In x (clS cl1 t) <-> estar (eps_edge n) t x).
  { intros t Ht. assert (Hl : t < L n) by (destruct Ht as [->|Ht]; [apply start_lt|exact Ht]).
    destruct (cl1_spec t Hl) as (_ & _ & H). exact H. }
  specialize (HP Hspec w (nstart n) (or_introl eq_refl) Hne (nend n)).
  unfold nfa_lang, nfa_path. change (ch_edge tbl n) with (Cst Tr1 tbl). rewrite <- HP. split.
  - intros (t & Hh & Ha & Et). split; [congruence|]. exists t. split; auto. apply natmem_in; auto.
  - intros (-> & t & Hh & Hin). exists t. split; auto. split; auto. apply natmem_in; auto.
Qed.

Lemma compile_single_wf_min_iwf A : compile_single n tid = Ok A -> wf_min A = true /\ length (trans A) <= L n + 1 /\ tids A = [tid].
Proof.
  intros EA. destruct single_bfs_ok as (A' & sm & E & HS & Ht & Hl). rewrite EA in E. inversion E; subst A'.
  split; [eapply gen_wf_min; eauto|]. split; auto. destruct (sim_len _ _ _ _ _ _ _ _ HS) as (H1 & _). lia.
Qed.
End Single.

Theorem compile_single_total n tid : WF n -> exists A, compile_single n tid = Ok A.
Proof. intros H. apply compile_single_total_iwf. apply WF_IWF; auto. Qed.
Theorem compile_single_no_panic n tid : WF n -> compile_single n tid <> Panic.
Proof. intros H. destruct (compile_single_total n tid H) as (A & E). congruence. Qed.
Theorem compile_single_correct tbl n tid A : WF n -> compile_single n tid = Ok A ->
  forall w tk, w <> [] -> (accepts_tok tbl A w tk <-> tk = tid /\ nfa_lang tbl n w).
Proof. intros H. apply compile_single_correct_iwf. apply WF_IWF; auto. Qed.
Theorem compile_single_wf_min n tid A : WF n -> compile_single n tid = Ok A ->
  wf_min A = true /\ length (trans A) <= length (nstates n) + 1 /\ tids A = [tid].
Proof. intros H. apply compile_single_wf_min_iwf. apply WF_IWF; auto. Qed.

(* ================================================================== *)
(* 5. From<MultiPatternNfa> for CompiledDfa                            *)
(* ================================================================== *)
(* consecutive, disjoint id ranges starting at lo; every NFA is well formed in its range *)
Fixpoint mp_wf_from (lo:nat) (mp:mp_nfa) : Prop :=
  match mp with
  | [] => True
  | tn :: mp' => IWF lo (snd tn) /\ mp_wf_from (lo + L (snd tn)) mp'
  end.
(* state 0 is the start of the multi-pattern NFA; the NFAs occupy 1 .. total_states *)
Definition mp_wf (mp:mp_nfa) : Prop := mp_wf_from 1 mp.

Lemma total_states_cons tn mp : total_states (tn :: mp) = L (snd tn) + total_states mp.
Proof. reflexivity. Qed.

Lemma mp_member : forall mp lo tn, mp_wf_from lo mp -> In tn mp ->
  exists lo', IWF lo' (snd tn) /\ lo <= lo' /\ lo' + L (snd tn) <= lo + total_states mp.
Proof.
  induction mp as [|hd mp IH]; intros lo tn H Hin; [destruct Hin|].
  destruct H as [H1 H2]. rewrite total_states_cons. destruct Hin as [->|Hin].
  - exists lo. split; auto. lia.
  - destruct (IH _ tn H2 Hin) as (lo' & G1 & G2 & G3). exists lo'. split; auto. lia.
Qed.
Lemma mp_unique : forall mp lo tn tn' q, mp_wf_from lo mp -> In tn mp -> In tn' mp ->
  In q (ids (snd tn)) -> In q (ids (snd tn')) -> tn = tn'.
Proof.
  induction mp as [|hd mp IH]; intros lo tn tn' q H Hin Hin' Hq Hq'; [destruct Hin|].
  destruct H as [H1 H2]. destruct Hin as [->|Hin], Hin' as [->|Hin']; auto.
  - exfalso. destruct (mp_member _ _ tn' H2 Hin') as (lo' & G1 & G2 & _).
    apply (in_ids_iwf lo (snd tn) q H1) in Hq. apply (in_ids_iwf lo' (snd tn') q G1) in Hq'. lia.
  - exfalso. destruct (mp_member _ _ tn H2 Hin) as (lo' & G1 & G2 & _).
    apply (in_ids_iwf lo (snd tn') q H1) in Hq'. apply (in_ids_iwf lo' (snd tn) q G1) in Hq. lia.
  - eapply IH; eauto.
Qed.
Lemma mp_cover : forall mp lo q, mp_wf_from lo mp -> lo <= q < lo + total_states mp ->
  exists tn, In tn mp /\ In q (ids (snd tn)).
Proof.
  induction mp as [|hd mp IH]; intros lo q H Hq; [cbn in Hq; lia|].
  destruct H as [H1 H2]. rewrite total_states_cons in Hq.
  destruct (Nat.lt_ge_cases q (lo + L (snd hd))) as [Hlt|Hge].
  - exists hd. split; [left; auto|]. apply (in_ids_iwf lo (snd hd) q H1). lia.
  - destruct (IH _ q H2) as (tn & G1 & G2); [lia|]. exists tn. split; [right; auto|auto].
Qed.

Lemma find_nfa_in mp q tn : find_nfa mp q = Some tn -> In tn mp /\ In q (ids (snd tn)).
Proof. unfold find_nfa. intros H. apply find_some in H as [H1 H2]. apply contains_state_ids in H2. auto. Qed.
Lemma find_nfa_unique mp lo q tn : mp_wf_from lo mp -> In tn mp -> In q (ids (snd tn)) -> find_nfa mp q = Some tn.
Proof.
  intros H Hin Hq. destruct (find_nfa mp q) as [tn'|] eqn:E.
  - apply find_nfa_in in E as [G1 G2]. f_equal. eapply mp_unique; eauto.
  - exfalso. unfold find_nfa in E. pose proof (find_none _ _ E tn Hin) as Hn. cbn in Hn.
    apply contains_state_ids in Hq. congruence.
Qed.

(* the multi-pattern NFA as one graph: 0 has an epsilon edge to every start *)
Definition mpE (mp:mp_nfa) (q q':nat) : Prop :=
  (q = 0 /\ exists tn, In tn mp /\ q' = nstart (snd tn)) \/ (exists tn, In tn mp /\ ieps (snd tn) q q').
Definition mpTr (mp:mp_nfa) (q:nat) (cc:N) (t:nat) : Prop := exists tn, In tn mp /\ itr (snd tn) q cc t.

Lemma find_state_ids n q s : find_state n q = Some s -> In q (ids n).
Proof. intros H. apply find_state_some in H as [H1 <-]. unfold ids. apply in_map; auto. Qed.

(* closures of the starts collected into one vector *)
Lemma rfold_push {A} (f:A -> res (list nat)) l :
  (forall x, In x l -> exists c, f x = Ok c) -> forall a,
  exists r, fold_left (fun acc x => rbind acc (fun a => rbind (f x) (fun c => Ok (fold_left push_new c a)))) l (Ok a) = Ok r /\
            forall y, In y r <-> In y a \/ exists x c, In x l /\ f x = Ok c /\ In y c.
Proof.
  induction l as [|x l IH]; intros H a; cbn [fold_left].
  - exists a. split; auto. intros y. split; auto. intros [|(x & c & [] & _)]; auto.
  - destruct (H x (or_introl eq_refl)) as (c & Ec). cbn [rbind]. rewrite Ec. cbn [rbind].
    destruct (IH (fun x' Hx' => H x' (or_intror Hx')) (fold_left push_new c a)) as (r & Er & Hr).
    exists r. split; auto. intros y. rewrite Hr, fold_push_new_in. split.
    + intros [[Hy|Hy]|(x' & c' & Hx' & Ec' & Hy)]; auto.
      * right. exists x, c. split; [left; auto|auto].
      * right. exists x', c'. split; [right; auto|auto].
    + intros [Hy|(x' & c' & [<-|Hx'] & Ec' & Hy)]; auto.
      * left. right. congruence.
      * right. exists x', c'. auto.
Qed.

Section Mp.
Variable mp : mp_nfa.
Hypothesis W : mp_wf mp.

Let total := total_states mp.
Let clm := mp_closure mp.
Let Vm (t:nat) : Prop := 1 <= t < 1 + total.

Lemma member_range tn : In tn mp -> exists lo, IWF lo (snd tn) /\ 1 <= lo /\ lo + L (snd tn) <= 1 + total.
Proof. intros H. apply (mp_member mp 1 tn W H). Qed.
Lemma owner t : Vm t -> exists tn, In tn mp /\ In t (ids (snd tn)).
Proof. intros H. apply (mp_cover mp 1 t W H). Qed.
Lemma ids_V tn q : In tn mp -> In q (ids (snd tn)) -> Vm q.
Proof.
  intros H Hq. destruct (member_range tn H) as (lo & G1 & G2 & G3).
  apply (in_ids_iwf lo (snd tn) q G1) in Hq. unfold Vm. lia.
Qed.
Lemma zero_not_id tn : In tn mp -> ~ In 0 (ids (snd tn)).
Proof. intros H H0. pose proof (ids_V tn 0 H H0) as Hv. unfold Vm in Hv. lia. Qed.
Lemma uniq tn tn' q : In tn mp -> In tn' mp -> In q (ids (snd tn)) -> In q (ids (snd tn')) -> tn = tn'.
Proof. apply (mp_unique mp 1); auto. Qed.
Lemma find_nfa_owner tn q : In tn mp -> In q (ids (snd tn)) -> find_nfa mp q = Some tn.
Proof. apply (find_nfa_unique mp 1); auto. Qed.

Lemma mpE_local tn q q' : In tn mp -> In q (ids (snd tn)) ->
  (mpE mp q q' <-> ieps (snd tn) q q') /\ (mpE mp q q' -> In q' (ids (snd tn))).
Proof.
  intros H Hq. assert (Hl : mpE mp q q' -> ieps (snd tn) q q').
  { intros [[-> _]|(tn' & H' & He)]; [exfalso; eapply zero_not_id; eauto|].
    destruct He as (s & Es & Hs). rewrite (uniq tn tn' q H H' Hq (find_state_ids _ _ _ Es)). exists s; auto. }
  split; [split; auto; intros He; right; eauto|].
  intros He. apply Hl in He. destruct (member_range tn H) as (lo & G1 & _).
  apply (in_ids_iwf lo (snd tn) q' G1). apply (ieps_range lo (snd tn) q q' G1 He).
Qed.
Lemma mpTr_local tn q cc t : In tn mp -> In q (ids (snd tn)) ->
  (mpTr mp q cc t <-> itr (snd tn) q cc t) /\ (mpTr mp q cc t -> In t (ids (snd tn))).
Proof.
  intros H Hq. assert (Hl : mpTr mp q cc t -> itr (snd tn) q cc t).
  { intros (tn' & H' & (s & Es & Hs)). rewrite (uniq tn tn' q H H' Hq (find_state_ids _ _ _ Es)). exists s; auto. }
  split; [split; auto; intros He; exists tn; auto|].
  intros He. apply Hl in He. destruct (member_range tn H) as (lo & G1 & _).
  apply (in_ids_iwf lo (snd tn) t G1). apply (itr_range lo (snd tn) q cc t G1 He).
Qed.
Lemma mpTr_owner q cc t : mpTr mp q cc t -> exists tn, In tn mp /\ In q (ids (snd tn)) /\ In t (ids (snd tn)).
Proof.
  intros H. pose proof H as (tn & Hin & (s & Es & _)). exists tn. split; auto.
  pose proof (find_state_ids _ _ _ Es) as Hq. split; auto. apply (mpTr_local tn q cc t Hin Hq); auto.
Qed.

Lemma estar_local tn q x : In tn mp -> In q (ids (snd tn)) ->
  (estar (mpE mp) q x <-> estar (ieps (snd tn)) q x) /\ (estar (mpE mp) q x -> In x (ids (snd tn))).
Proof.
  intros H Hq. assert (Hl : estar (mpE mp) q x -> estar (ieps (snd tn)) q x /\ In x (ids (snd tn))).
  { intros He. induction He as [q|q q1 x Hs He IH]; [split; auto; constructor|].
    destruct (mpE_local tn q q1 H Hq) as [G1 G2]. destruct (IH (G2 Hs)) as [I1 I2]. split; auto.
    eapply es_step; eauto. apply G1; auto. }
  split; [split; [apply Hl|]|apply Hl].
  apply estar_mono. intros a b He. right. eauto.
Qed.

(* ---- mp_closure ---- *)
Lemma closure_member tn q : In tn mp -> In q (ids (snd tn)) ->
  exists v, nfa_epsilon_closure (snd tn) q = Ok v /\ forall x, In x v <-> estar (mpE mp) q x.
Proof.
  intros H Hq. destruct (member_range tn H) as (lo & G1 & _).
  destruct (nfa_epsilon_closure_spec (snd tn) (iwf_eps_closed lo _ G1) q Hq) as (v & E & Hv).
  exists v. split; auto. intros x. rewrite Hv. symmetry. apply (estar_local tn q x H Hq).
Qed.
Lemma start_id tn : In tn mp -> In (nstart (snd tn)) (ids (snd tn)).
Proof. intros H. destruct (member_range tn H) as (lo & G1 & _). apply (in_ids_iwf lo _ _ G1). apply G1. Qed.
Lemma end_id tn : In tn mp -> In (nend (snd tn)) (ids (snd tn)).
Proof. intros H. destruct (member_range tn H) as (lo & G1 & _). apply (in_ids_iwf lo _ _ G1). apply G1. Qed.

Lemma estar_zero x : estar (mpE mp) 0 x <-> x = 0 \/ exists tn, In tn mp /\ estar (mpE mp) (nstart (snd tn)) x.
Proof.
  split.
  - intros H. inversion H as [|? q1 ? Hs He]; subst; auto. right.
    destruct Hs as [[_ (tn & Hin & ->)]|(tn & Hin & (s & Es & _))]; [eauto|].
    exfalso. eapply zero_not_id; eauto. eapply find_state_ids; eauto.
  - intros [->|(tn & Hin & He)]; [constructor|]. eapply es_step; eauto. left. eauto.
Qed.

Lemma clm_V t : Vm t -> exists v, clm t = Ok v /\ forall x, In x (clS clm t) <-> estar (mpE mp) t x.
Proof.
  intros Ht. destruct (owner t Ht) as (tn & Hin & Hq). unfold clS, clm, mp_closure.
  destruct (Nat.eqb_spec t 0) as [->|_]; [unfold Vm in Ht; lia|].
  rewrite (find_nfa_owner tn t Hin Hq). destruct (closure_member tn t Hin Hq) as (v & E & Hv).
  exists v. split; auto. intros x. rewrite E, norm_in. apply Hv.
Qed.
Lemma clm_zero : exists v, clm 0 = Ok v /\ forall x, In x (clS clm 0) <-> estar (mpE mp) 0 x.
Proof.
  unfold clS, clm, mp_closure. cbn [Nat.eqb].
  destruct (rfold_push (fun tn : N * nfa => nfa_epsilon_closure (snd tn) (nstart (snd tn))) mp) with (a := [0]) as (r & Er & Hr).
  { intros tn Hin. destruct (closure_member tn _ Hin (start_id tn Hin)) as (v & E & _). eauto. }
  rewrite Er. cbn [rbind]. eexists. split; [reflexivity|]. intros x. rewrite norm_in, sort_nat_in, Hr, estar_zero. split.
  - intros [[<-|[]]|(tn & c & Hin & Ec & Hx)]; auto. right. exists tn. split; auto.
    destruct (closure_member tn _ Hin (start_id tn Hin)) as (v & E & Hv). rewrite Ec in E. inversion E; subst. apply Hv; auto.
  - intros [->|(tn & Hin & He)]; [left; left; auto|]. right.
    destruct (closure_member tn _ Hin (start_id tn Hin)) as (v & E & Hv). exists tn, v. split; auto. split; auto. apply Hv; auto.
Qed.
Lemma clm_spec t : t = 0 \/ Vm t -> forall x, In x (clS clm t) <-> estar (mpE mp) t x.
Proof. intros [->|Ht]; [destruct clm_zero as (_ & _ & H); exact H|destruct (clm_V t Ht) as (_ & _ & H); exact H]. Qed.

(* members of the sets *)
Lemma good_members X x : good clm Vm 0 X -> In x X ->
  (x = 0 /\ X = clS clm 0) \/ (exists tn, In tn mp /\ In x (ids (snd tn))).
Proof.
  intros [->|(t & Ht & ->)] Hx.
  - apply (clm_spec 0 (or_introl eq_refl)) in Hx. apply estar_zero in Hx as [->|(tn & Hin & He)]; auto.
    right. exists tn. split; auto. apply (estar_local tn _ x Hin (start_id tn Hin)); auto.
  - right. apply (clm_spec t (or_intror Ht)) in Hx. destruct (owner t Ht) as (tn & Hin & Hq).
    exists tn. split; auto. apply (estar_local tn t x Hin Hq); auto.
Qed.

(* ---- get_match_transitions ---- *)
Definition trs_of (q:nat) : list (N * nat) :=
  match find_nfa mp q with
  | Some tn => match find_state (snd tn) q with Some s => strs s | None => [] end
  | None => []
  end.
Lemma trs_of_spec q cc t : In (cc, t) (trs_of q) <-> mpTr mp q cc t.
Proof.
  unfold trs_of. split.
  - destruct (find_nfa mp q) as [tn|] eqn:E; [|intros []]. apply find_nfa_in in E as [Hin Hq].
    destruct (find_state (snd tn) q) as [s|] eqn:Es; [|intros []]. intros H. exists tn. split; auto. exists s; auto.
  - intros (tn & Hin & (s & Es & Hs)). rewrite (find_nfa_owner tn q Hin (find_state_ids _ _ _ Es)), Es. auto.
Qed.
Lemma state_trs_member tn q b : In tn mp -> In q (ids (snd tn)) -> state_trs mp q b = Ok (trs_of q).
Proof.
  intros Hin Hq. unfold state_trs, trs_of. rewrite (find_nfa_owner tn q Hin Hq).
  destruct (find_state_ex (snd tn) q Hq) as (s & Es). rewrite Es. reflexivity.
Qed.

Lemma mp_mt_spec X : good clm Vm 0 X ->
  exists l, mp_match_transitions mp X = Ok l /\ forall cc t, In (cc, t) l <-> exists q, In q X /\ mpTr mp q cc t.
Proof.
  intros HX. unfold mp_match_transitions.
  set (h := fun q => if q =? 0 then flat_map (fun tn : N * nfa => trs_of (nstart (snd tn))) mp else trs_of q).
  rewrite (rfold_append _ h X).
  - cbn [rbind app]. eexists; split; [reflexivity|]. intros cc t.
    rewrite dedup_adj_in, sort_by_target_in, in_flat_map. split.
    + intros (q & Hq & Hin). unfold h in Hin. destruct (Nat.eqb_spec q 0) as [->|Hne].
      * apply in_flat_map in Hin as (tn & Htn & Hin). apply trs_of_spec in Hin.
        exists (nstart (snd tn)). split; auto.
        destruct (good_members X 0 HX Hq) as [[_ ->]|(tn' & Htn' & H0)]; [|exfalso; eapply zero_not_id; eauto].
        apply (clm_spec 0 (or_introl eq_refl)). apply estar_one. left. eauto.
      * apply trs_of_spec in Hin. eauto.
    + intros (q & Hq & Ht). exists q. split; auto. unfold h.
      destruct (Nat.eqb_spec q 0) as [->|Hne]; [|apply trs_of_spec; auto].
      exfalso. destruct (mpTr_owner 0 cc t Ht) as (tn & Hin & H0 & _). eapply zero_not_id; eauto.
  - intros x a Hx. cbn [rbind]. unfold h. destruct (Nat.eqb_spec x 0) as [->|Hne].
    + apply (rfold_append _ (fun tn : N * nfa => trs_of (nstart (snd tn))) mp).
      intros tn a' Htn. cbn [rbind]. rewrite (state_trs_member tn _ true Htn (start_id tn Htn)). reflexivity.
    + destruct (good_members X x HX Hx) as [[-> _]|(tn & Htn & Hq)]; [congruence|].
      rewrite (state_trs_member tn x false Htn Hq). reflexivity.
Qed.
Lemma mp_Tr_V X q cc t : good clm Vm 0 X -> In q X -> mpTr mp q cc t -> Vm t.
Proof. intros _ _ Ht. destruct (mpTr_owner q cc t Ht) as (tn & Hin & _ & Htt). eapply ids_V; eauto. Qed.

(* ---- terminal ids ---- *)
Lemma mp_tok_owner tn t : In tn mp -> In t (ids (snd tn)) -> mp_tok mp t = Ok (fst tn).
Proof. intros Hin Ht. unfold mp_tok. rewrite (find_nfa_owner tn t Hin Ht). reflexivity. Qed.
Lemma mp_tok_coh t t' : Vm t -> Vm t' -> clS clm t = clS clm t' -> mp_tok mp t = mp_tok mp t'.
Proof.
  intros Ht Ht' E. destruct (owner t' Ht') as (tn' & Hin' & Hq').
  assert (Hx : In t (clS clm t')) by (rewrite <- E; apply (clm_spec t (or_intror Ht)); constructor).
  apply (clm_spec t' (or_intror Ht')) in Hx. apply (estar_local tn' t' t Hin' Hq') in Hx.
  rewrite (mp_tok_owner tn' t Hin' Hx), (mp_tok_owner tn' t' Hin' Hq'). reflexivity.
Qed.

Lemma mp_bfs_ok :
  exists A sm, compile_mp mp = Ok A /\
    Sim clm (mp_tok mp) (existsb (is_accepting_state mp)) Vm 0 (mpTr mp) A sm /\
    tids A = map fst mp /\ length sm <= total + 2.
Proof.
  unfold compile_mp.
  destruct (bfs_ok clm (mp_match_transitions mp) (mp_tok mp) (existsb (is_accepting_state mp)) Vm (1 + total) 0 (mpTr mp))
    with (fuel := total + 3) (ti := map fst mp) as (A & sm & E & HS & Ht & Hl).
  - unfold Vm. intros; lia.
  - destruct clm_zero as (v & E & _). congruence.
  - intros t Ht. destruct (clm_V t Ht) as (v & E & _). congruence.
  - apply mp_mt_spec.
  - apply mp_Tr_V.
  - intros t Ht. destruct (owner t Ht) as (tn & Hin & Hq). rewrite (mp_tok_owner tn t Hin Hq). discriminate.
  - apply mp_tok_coh.
  - lia.
  - exists A, sm. split; [exact E|]. split; [exact HS|]. split; [exact Ht|]. lia.
Qed.

(* ---- paths ---- *)
Lemma gpath_local tbl tn : In tn mp -> forall q w e, gpath (mpE mp) (Cst (mpTr mp) tbl) q w e ->
  In q (ids (snd tn)) -> ipath tbl (snd tn) q w e /\ In e (ids (snd tn)).
Proof.
  intros Hin q w e H. induction H as [q|q q1 w e Hs H IH|q c q1 w e Hc H IH]; intros Hq.
  - split; auto. constructor.
  - destruct (mpE_local tn q q1 Hin Hq) as [G1 G2]. destruct (IH (G2 Hs)) as [I1 I2]. split; auto.
    eapply GEps; eauto. apply G1; auto.
  - destruct Hc as (cc & Ht & Hb). destruct (mpTr_local tn q cc q1 Hin Hq) as [G1 G2].
    destruct (IH (G2 Ht)) as [I1 I2]. split; auto. eapply GCh; eauto. exists cc. split; auto. apply G1; auto.
Qed.
Lemma gpath_from_zero tbl w e : w <> [] -> gpath (mpE mp) (Cst (mpTr mp) tbl) 0 w e ->
  exists tn, In tn mp /\ ipath tbl (snd tn) (nstart (snd tn)) w e /\ In e (ids (snd tn)).
Proof.
  intros Hne H. inversion H as [|? q1 ? ? Hs Hp|? c q1 ? ? Hc Hp]; subst; [congruence| |].
  - destruct Hs as [[_ (tn & Hin & ->)]|(tn & Hin & (s & Es & _))].
    + exists tn. split; auto. apply (gpath_local tbl tn Hin _ _ _ Hp (start_id tn Hin)).
    + exfalso. eapply zero_not_id; eauto. eapply find_state_ids; eauto.
  - exfalso. destruct Hc as (cc & Ht & _). destruct (mpTr_owner 0 cc q1 Ht) as (tn & Hin & H0 & _). eapply zero_not_id; eauto.
Qed.
Lemma gpath_to_zero tbl tn w : In tn mp -> ilang tbl (snd tn) w ->
  gpath (mpE mp) (Cst (mpTr mp) tbl) 0 w (nend (snd tn)).
Proof.
  intros Hin H. apply (GEps _ _ 0 (nstart (snd tn))); [left; eauto|].
  revert H. unfold ilang, ipath. apply (gpath_map (fun x => x)).
  - intros a b He. right. eauto.
  - intros a c b (cc & Ht & Hb). exists cc. split; auto. exists tn. auto.
Qed.

Theorem compile_mp_total_ : exists A, compile_mp mp = Ok A.
Proof. destruct mp_bfs_ok as (A & sm & E & _). eauto. Qed.

Theorem compile_mp_correct_ tbl A : compile_mp mp = Ok A ->
  forall w tk, w <> [] -> (accepts_tok tbl A w tk <-> exists n, In (tk, n) mp /\ ilang tbl n w).
Proof.
  intros EA w tk Hne. destruct mp_bfs_ok as (A' & sm & E & HS & _). rewrite EA in E. inversion E; subst A'.
  rewrite (gen_accepts clm (mp_tok mp) (existsb (is_accepting_state mp)) Vm 0 (mpTr mp) mp_Tr_V mp_tok_coh tbl A sm HS w tk Hne).
  pose proof (hit_path clm Vm 0 (mpTr mp) mp_Tr_V tbl (mpE mp) clm_spec w 0 (or_introl eq_refl) Hne) as HP.
  split.
  - intros (t & Hh & Ha & Etk).
    apply existsb_exists in Ha as (e & He & Hacc). apply existsb_exists in Hacc as (tnE & HinE & EE). apply Nat.eqb_eq in EE.
    assert (Hp : gpath (mpE mp) (Cst (mpTr mp) tbl) 0 w e) by (apply HP; eauto).
    destruct (gpath_from_zero tbl w e Hne Hp) as (tn & Hin & Hpath & Hid).
    assert (tnE = tn) by (apply (uniq tnE tn e); auto; rewrite <- EE; apply end_id; auto). subst tnE.
    (* the token is the one of the NFA that owns t, which is tn *)
    assert (HVt : Vm t) by (apply (hitS_V clm Vm 0 (mpTr mp) mp_Tr_V tbl w (clS clm 0) t); [left; auto|exact Hh]).
    destruct (owner t HVt) as (tn' & Hin' & Hq').
    apply (clm_spec t (or_intror HVt)) in He. apply (estar_local tn' t e Hin' Hq') in He.
    assert (tn' = tn) by (apply (uniq tn' tn e); auto). subst tn'.
    rewrite (mp_tok_owner tn t Hin Hq') in Etk. inversion Etk; subst tk.
    exists (snd tn). split; [destruct tn; auto|]. unfold ilang. rewrite EE. exact Hpath.
  - intros (n & Hin & Hl). pose proof (gpath_to_zero tbl (tk, n) w Hin Hl) as Hp. cbn [snd] in Hp.
    apply HP in Hp as (t & Hh & He). exists t. split; auto.
    assert (HVt : Vm t) by (apply (hitS_V clm Vm 0 (mpTr mp) mp_Tr_V tbl w (clS clm 0) t); [left; auto|exact Hh]).
    split.
    + apply existsb_exists. exists (nend n). split; auto. apply existsb_exists. exists (tk, n). split; auto. apply Nat.eqb_refl.
    + destruct (owner t HVt) as (tn' & Hin' & Hq').
      apply (clm_spec t (or_intror HVt)) in He. apply (estar_local tn' t (nend n) Hin' Hq') in He.
      assert (tn' = (tk, n)) by (apply (uniq tn' (tk, n) (nend n)); auto; apply (end_id (tk, n) Hin)). subst tn'.
      rewrite (mp_tok_owner (tk, n) t Hin Hq'). reflexivity.
Qed.

Lemma compile_mp_facts_ A : compile_mp mp = Ok A ->
  wf_min A = true /\ length (trans A) <= total_states mp + 2 /\ tids A = map fst mp /\ forall tk, acc A 0 tk = false.
Proof.
  intros EA. destruct mp_bfs_ok as (A' & sm & E & HS & Ht & Hl). rewrite EA in E. inversion E; subst A'.
  split; [eapply gen_wf_min; eauto|]. split; [destruct (sim_len _ _ _ _ _ _ _ _ HS) as (H1 & _); fold total; lia|]. split; auto.
  apply (gen_start_not_accepting _ _ _ _ _ _ A sm HS).
  intros t HVt Eq. assert (H0 : In 0 (clS clm t)) by (rewrite Eq; apply (clm_spec 0 (or_introl eq_refl)); constructor).
  apply (clm_spec t (or_intror HVt)) in H0. destruct (owner t HVt) as (tn & Hin & Hq).
  apply (estar_local tn t 0 Hin Hq) in H0. eapply zero_not_id; eauto.
Qed.
End Mp.

Theorem compile_mp_total mp : mp_wf mp -> exists A, compile_mp mp = Ok A.
Proof. apply compile_mp_total_. Qed.
Theorem compile_mp_no_panic mp : mp_wf mp -> compile_mp mp <> Panic.
Proof. intros H. destruct (compile_mp_total mp H) as (A & E). congruence. Qed.
(* the language theorem for the unminimized automaton; `ilang` reads the NFAs by state id *)
Theorem compile_mp_correct tbl mp A : mp_wf mp -> compile_mp mp = Ok A ->
  forall w t, w <> [] -> (accepts_tok tbl A w t <-> exists n, In (t, n) mp /\ ilang tbl n w).
Proof. intros H. apply compile_mp_correct_; auto. Qed.
Theorem compile_mp_facts mp A : mp_wf mp -> compile_mp mp = Ok A ->
  wf_min A = true /\ length (trans A) <= total_states mp + 2 /\ tids A = map fst mp /\ forall tk, acc A 0 tk = false.
Proof. intros H. apply compile_mp_facts_; auto. Qed.
Theorem compile_mp_empty_word tbl mp A : mp_wf mp -> compile_mp mp = Ok A -> forall t, ~ accepts_tok tbl A [] t.
Proof.
  intros H E t (q & Hq & Ha). cbn in Hq. destruct Hq as [<-|[]].
  destruct (compile_mp_facts mp A H E) as (_ & _ & _ & H0). rewrite H0 in Ha. discriminate.
Qed.

(* ================================================================== *)
(* 6. try_from_patterns builds a well-formed multi-pattern NFA         *)
(* ================================================================== *)
Lemma fold_max_ids (l:list nstate) : forall off m0, (forall i s, nth_error l i = Some s -> sid s = off + i) ->
  l <> [] -> m0 <= off + length l - 1 ->
  fold_left (fun m s => Nat.max m (sid s)) l m0 = off + length l - 1.
Proof.
  induction l as [|s l IH]; intros off m0 H Hne Hm; [congruence|]. cbn [fold_left length].
  rewrite (H 0 s eq_refl), Nat.add_0_r. destruct l as [|s' l'].
  - cbn [fold_left length] in *. lia.
  - rewrite (IH (S off)); [cbn [length]; lia| |discriminate|cbn [length] in *; lia].
    intros i s0 Hi. rewrite (H (S i) s0 Hi). lia.
Qed.
Lemma highest_iwf lo n : IWF lo n -> highest_state_number n + 1 = lo + L n.
Proof.
  intros H. pose proof H as (H1 & _ & _ & H4 & _). unfold highest_state_number.
  rewrite (fold_max_ids (nstates n) lo 0 H1); [lia| |lia].
  intros E. rewrite E in H4. cbn in H4. lia.
Qed.
Lemma shift_length n k : L (nfa_shift_ids n k) = L n.
Proof. unfold nfa_shift_ids; cbn [nstates]. apply map_length. Qed.

Lemma mp_build_from_wf : forall l next, (forall tn, In tn l -> WF (snd tn)) -> mp_wf_from next (mp_build_from next l).
Proof.
  induction l as [|[t n] l IH]; intros next H; cbn [mp_build_from mp_wf_from]; auto.
  assert (Hi : IWF next (nfa_shift_ids n next)).
  { change next with (0 + next) at 1. apply IWF_shift. apply WF_IWF. apply (H (t, n)). left; auto. }
  cbn [snd]. split; auto. rewrite (highest_iwf next _ Hi). apply IH. intros tn Hin. apply H. right; auto.
Qed.
Theorem mp_build_wf l : (forall tn, In tn l -> WF (snd tn)) -> mp_wf (mp_build l).
Proof. apply mp_build_from_wf. Qed.

Lemma mp_build_in1 : forall l next t n', In (t, n') (mp_build_from next l) -> exists n k, In (t, n) l /\ n' = nfa_shift_ids n k.
Proof.
  induction l as [|[t0 n0] l IH]; intros next t n' Hin; cbn [mp_build_from] in Hin; [destruct Hin|].
  destruct Hin as [E|Hin].
  - inversion E; subst. exists n0, next. split; [left; auto|auto].
  - destruct (IH _ t n' Hin) as (n & k & H1 & H2). exists n, k. split; [right; auto|auto].
Qed.
Lemma mp_build_in2 : forall l next t n, In (t, n) l -> exists k, In (t, nfa_shift_ids n k) (mp_build_from next l).
Proof.
  induction l as [|[t0 n0] l IH]; intros next t n Hin; [destruct Hin|]. cbn [mp_build_from].
  destruct Hin as [E|Hin].
  - inversion E; subst. exists next. left; auto.
  - destruct (IH (highest_state_number (nfa_shift_ids n0 next) + 1) t n Hin) as (k & Hk). exists k. right; auto.
Qed.
Lemma mp_build_total : forall l next, total_states (mp_build_from next l) = total_states l.
Proof.
  induction l as [|[t n] l IH]; intros next; cbn [mp_build_from]; auto.
  rewrite !total_states_cons, IH. cbn [snd]. rewrite shift_length. reflexivity.
Qed.

(* shifting the ids does not change the language (read by id) *)
Section Shift.
Variable tbl : N -> N -> bool.
Variable n : nfa.
Variable k : nat.
Hypothesis W : WF n.
Let n' := nfa_shift_ids n k.

Lemma Wk : IWF k n'.
Proof. change k with (0 + k). apply IWF_shift. apply WF_IWF; auto. Qed.
Lemma find_state_shift q : k <= q -> find_state n' q = option_map (shift_state k) (nth_error (nstates n) (q - k)).
Proof. intros H. rewrite (find_state_iwf k n' q Wk H). unfold n', nfa_shift_ids; cbn [nstates]. apply nth_error_map. Qed.

Lemma ieps_shift_fw a b : eps_edge n a b -> ieps n' (a + k) (b + k).
Proof.
  unfold eps_edge, out_eps. destruct (nth_error (nstates n) a) as [s|] eqn:E; [|intros []]. intros Hb.
  exists (shift_state k s). rewrite find_state_shift by lia. replace (a + k - k) with a by lia. rewrite E. split; auto.
  cbn. apply in_map_iff. eauto.
Qed.
Lemma ich_shift_fw a c b : ch_edge tbl n a c b -> ich tbl n' (a + k) c (b + k).
Proof.
  intros (cc & Hin & Hb). unfold out_trs in Hin. destruct (nth_error (nstates n) a) as [s|] eqn:E; [|destruct Hin].
  exists cc. split; auto. exists (shift_state k s). rewrite find_state_shift by lia. replace (a + k - k) with a by lia. rewrite E. split; auto.
  cbn. apply in_map_iff. exists (cc, b). auto.
Qed.
Lemma ieps_shift_bw a' b' : ieps n' a' b' -> exists a b, a' = a + k /\ b' = b + k /\ eps_edge n a b.
Proof.
  intros (s' & Es & Hb). pose proof (find_state_ids _ _ _ Es) as Hid. apply (in_ids_iwf k n' a' Wk) in Hid.
  rewrite find_state_shift in Es by lia. destruct (nth_error (nstates n) (a' - k)) as [s|] eqn:E; [|discriminate].
  inversion Es; subst s'. cbn in Hb. apply in_map_iff in Hb as (b & <- & Hb).
  exists (a' - k), b. split; [lia|]. split; auto. unfold eps_edge, out_eps. rewrite E. auto.
Qed.
Lemma ich_shift_bw a' c b' : ich tbl n' a' c b' -> exists a b, a' = a + k /\ b' = b + k /\ ch_edge tbl n a c b.
Proof.
  intros (cc & (s' & Es & Hb) & Ht). pose proof (find_state_ids _ _ _ Es) as Hid. apply (in_ids_iwf k n' a' Wk) in Hid.
  rewrite find_state_shift in Es by lia. destruct (nth_error (nstates n) (a' - k)) as [s|] eqn:E; [|discriminate].
  inversion Es; subst s'. cbn in Hb. apply in_map_iff in Hb as ([cc0 b] & E0 & Hb). cbn in E0. inversion E0; subst.
  exists (a' - k), b. split; [lia|]. split; auto. exists cc. split; auto. unfold out_trs. rewrite E. auto.
Qed.
Lemma ipath_shift_bw a' w e' : ipath tbl n' a' w e' -> forall a, a' = a + k -> exists e, e' = e + k /\ nfa_path tbl n a w e.
Proof.
  intros H. induction H as [q|q q1 w e' Hs H IH|q c q1 w e' Hc H IH]; intros a ->.
  - exists a. split; auto. constructor.
  - apply ieps_shift_bw in Hs as (a0 & b0 & E1 & -> & He). assert (a0 = a) by lia. subst a0.
    destruct (IH b0 eq_refl) as (e & -> & Hp). exists e. split; auto. eapply GEps; eauto.
  - apply ich_shift_bw in Hc as (a0 & b0 & E1 & -> & He). assert (a0 = a) by lia. subst a0.
    destruct (IH b0 eq_refl) as (e & -> & Hp). exists e. split; auto. eapply GCh; eauto.
Qed.
Theorem ilang_shift w : ilang tbl n' w <-> nfa_lang tbl n w.
Proof.
  unfold ilang, nfa_lang. split.
  - intros H. destruct (ipath_shift_bw _ _ _ H (nstart n) eq_refl) as (e & Ee & Hp).
    unfold n', nfa_shift_ids in Ee; cbn [nend] in Ee. assert (e = nend n) by lia. subst e. exact Hp.
  - intros H. apply (gpath_map (fun x => x + k) _ _ _ _ ieps_shift_fw ich_shift_fw) in H. exact H.
Qed.
End Shift.

(* the statement on the unshifted NFAs *)
Theorem compile_mp_build_correct tbl l A : (forall tn, In tn l -> WF (snd tn)) -> compile_mp (mp_build l) = Ok A ->
  forall w t, w <> [] -> (accepts_tok tbl A w t <-> exists n, In (t, n) l /\ nfa_lang tbl n w).
Proof.
  intros HW E w t Hne. rewrite (compile_mp_correct tbl (mp_build l) A (mp_build_wf l HW) E w t Hne). split.
  - intros (n' & Hin & Hl). apply mp_build_in1 in Hin as (n & k & Hin & ->). exists n. split; auto.
    apply (ilang_shift tbl n k (HW (t, n) Hin)). exact Hl.
  - intros (n & Hin & Hl). destruct (mp_build_in2 l 1 t n Hin) as (k & Hk). exists (nfa_shift_ids n k). split; auto.
    apply (ilang_shift tbl n k (HW (t, n) Hin)). exact Hl.
Qed.

(* ================================================================== *)
(* 7. a whole mode: Thompson + compile_mp + minimize                   *)
(* ================================================================== *)
Fixpoint rs_of (pats:list (N * ast)) : option (list (N * re)) :=
  match pats with
  | [] => Some []
  | (t, a) :: ps =>
      match core_of_ast a, rs_of ps with
      | Some r, Some rs => Some ((t, r) :: rs)
      | _, _ => None
      end
  end.

Lemma nfas_of_in1 : forall pats l t n, nfas_of pats = NBuilt l -> In (t, n) l -> exists a, In (t, a) pats /\ try_from_ast a = Built n.
Proof.
  induction pats as [|[t0 a0] ps IH]; intros l t n E Hin; cbn [nfas_of] in E.
  - inversion E; subst. destruct Hin.
  - destruct (try_from_ast a0) as [n0| |] eqn:E0; try discriminate.
    destruct (nfas_of ps) as [l'| |] eqn:E1; try discriminate. inversion E; subst.
    destruct Hin as [E2|Hin].
    + inversion E2; subst. exists a0. split; [left; auto|auto].
    + destruct (IH l' t n eq_refl Hin) as (a & H1 & H2). exists a. split; [right; auto|auto].
Qed.
Lemma nfas_of_in2 : forall pats l t a, nfas_of pats = NBuilt l -> In (t, a) pats -> exists n, In (t, n) l /\ try_from_ast a = Built n.
Proof.
  induction pats as [|[t0 a0] ps IH]; intros l t a E Hin; [destruct Hin|]. cbn [nfas_of] in E.
  destruct (try_from_ast a0) as [n0| |] eqn:E0; try discriminate.
  destruct (nfas_of ps) as [l'| |] eqn:E1; try discriminate. inversion E; subst.
  destruct Hin as [E2|Hin].
  - inversion E2; subst. exists n0. split; [left; auto|auto].
  - destruct (IH l' t a eq_refl Hin) as (n & H1 & H2). exists n. split; [right; auto|auto].
Qed.
Lemma rs_of_in1 : forall pats rs t r, rs_of pats = Some rs -> In (t, r) rs -> exists a, In (t, a) pats /\ core_of_ast a = Some r.
Proof.
  induction pats as [|[t0 a0] ps IH]; intros rs t r E Hin; cbn [rs_of] in E.
  - inversion E; subst. destruct Hin.
  - destruct (core_of_ast a0) as [r0|] eqn:E0; try discriminate.
    destruct (rs_of ps) as [rs'|] eqn:E1; try discriminate. inversion E; subst.
    destruct Hin as [E2|Hin].
    + inversion E2; subst. exists a0. split; [left; auto|auto].
    + destruct (IH rs' t r eq_refl Hin) as (a & H1 & H2). exists a. split; [right; auto|auto].
Qed.
Lemma rs_of_in2 : forall pats rs t a, rs_of pats = Some rs -> In (t, a) pats -> exists r, In (t, r) rs /\ core_of_ast a = Some r.
Proof.
  induction pats as [|[t0 a0] ps IH]; intros rs t a E Hin; [destruct Hin|]. cbn [rs_of] in E.
  destruct (core_of_ast a0) as [r0|] eqn:E0; try discriminate.
  destruct (rs_of ps) as [rs'|] eqn:E1; try discriminate. inversion E; subst.
  destruct Hin as [E2|Hin].
  - inversion E2; subst. exists r0. split; [left; auto|auto].
  - destruct (IH rs' t a eq_refl Hin) as (r & H1 & H2). exists r. split; [right; auto|auto].
Qed.
Lemma nfas_of_wf pats l : nfas_of pats = NBuilt l -> forall tn, In tn l -> WF (snd tn).
Proof. intros E [t n] Hin. destruct (nfas_of_in1 pats l t n E Hin) as (a & _ & Ha). cbn. eapply built_wf; eauto. Qed.

Lemma compile_mode_unmin_inv pats A : compile_mode_unmin pats = Compiled A ->
  exists l, nfas_of pats = NBuilt l /\ compile_mp (mp_build l) = Ok A.
Proof.
  unfold compile_mode_unmin. destruct (nfas_of pats) as [l| |]; try discriminate.
  destruct (compile_mp (mp_build l)) as [A0|] eqn:E; try discriminate. intros H; inversion H; subst. eauto.
Qed.

(* the unminimized automaton of a mode accepts exactly the pattern languages *)
Theorem compile_mode_unmin_correct tbl pats A rs :
  (forall t a, In (t, a) pats -> alts_nonempty a = true) ->
  compile_mode_unmin pats = Compiled A -> rs_of pats = Some rs -> lang_equiv tbl tbl A rs.
Proof.
  intros Hne HA Hrs w t Hw. apply compile_mode_unmin_inv in HA as (l & El & EA).
  rewrite (compile_mp_build_correct tbl l A (nfas_of_wf pats l El) EA w t Hw). split.
  - intros (n & Hin & Hl). destruct (nfas_of_in1 pats l t n El Hin) as (a & Ha & Hb).
    destruct (rs_of_in2 pats rs t a Hrs Ha) as (r & Hr & Hc). exists r. split; auto.
    apply (thompson_correct tbl a n r (Hne t a Ha) Hb Hc). exact Hl.
  - intros (r & Hr & Hm). destruct (rs_of_in1 pats rs t r Hrs Hr) as (a & Ha & Hc).
    destruct (nfas_of_in2 pats l t a El Ha) as (n & Hn & Hb). exists n. split; auto.
    apply (thompson_correct tbl a n r (Hne t a Ha) Hb Hc). exact Hm.
Qed.

(* the width condition of the minimizer theorem (StateGroupIDBase = u32), as a boolean *)
Definition mode_width_ok (pats:list (N * ast)) : bool :=
  match compile_mode_unmin pats with
  | Compiled A0 => N.leb (N.of_nat (length (trans A0))) (2 ^ N.of_nat 32)
  | _ => true
  end.

Lemma compile_mode_inv pats A : compile_mode pats = Compiled A ->
  exists A0, compile_mode_unmin pats = Compiled A0 /\ minimize 32 A0 = Some A.
Proof.
  unfold compile_mode. destruct (compile_mode_unmin pats) as [A0| |]; try discriminate.
  destruct (minimize 32 A0) as [B|] eqn:E; try discriminate. intros H; inversion H; subst. eauto.
Qed.
Lemma compile_mode_min_preserves tbl pats A0 A : mode_width_ok pats = true ->
  compile_mode_unmin pats = Compiled A0 -> minimize 32 A0 = Some A ->
  forall w t, accepts_tok tbl A w t <-> accepts_tok tbl A0 w t.
Proof.
  intros Hw E0 Em. apply (minimize_preserves_N tbl 32 A0 A); auto.
  - apply compile_mode_unmin_inv in E0 as (l & El & EA).
    apply (compile_mp_facts (mp_build l) A0 (mp_build_wf l (nfas_of_wf pats l El)) EA).
  - unfold mode_width_ok in Hw. rewrite E0 in Hw. apply N.leb_le; auto.
Qed.

(* END TO END: patterns -> Thompson NFAs -> multi-pattern NFA -> closure automaton -> minimizer *)
Theorem compile_mode_correct tbl pats A rs :
  (forall t a, In (t, a) pats -> alts_nonempty a = true) -> mode_width_ok pats = true ->
  compile_mode pats = Compiled A -> rs_of pats = Some rs -> lang_equiv tbl tbl A rs.
Proof.
  intros Hne Hw HA Hrs w t Hnw. apply compile_mode_inv in HA as (A0 & E0 & Em).
  rewrite (compile_mode_min_preserves tbl pats A0 A Hw E0 Em w t).
  apply (compile_mode_unmin_correct tbl pats A0 rs Hne E0 Hrs w t Hnw).
Qed.

(* the number of compiled states is bounded by the number of NFA states, which gives a static
   sufficient condition for the width check *)
Theorem compile_mode_size pats l A0 : nfas_of pats = NBuilt l -> compile_mode_unmin pats = Compiled A0 ->
  length (trans A0) <= total_states l + 2.
Proof.
  intros El E0. apply compile_mode_unmin_inv in E0 as (l' & El' & EA). rewrite El in El'. inversion El'; subst l'.
  destruct (compile_mp_facts (mp_build l) A0 (mp_build_wf l (nfas_of_wf pats l El)) EA) as (_ & H & _).
  unfold mp_build in H. rewrite mp_build_total in H. exact H.
Qed.

(* the empty word is never accepted: state 0 (the closure of the multi-pattern start, the only
   set containing NFA state 0) is never the closure of a transition target *)
Theorem compile_mode_unmin_start pats A0 : compile_mode_unmin pats = Compiled A0 -> forall t, acc A0 0 t = false.
Proof.
  intros E0. apply compile_mode_unmin_inv in E0 as (l & El & EA).
  apply (compile_mp_facts (mp_build l) A0 (mp_build_wf l (nfas_of_wf pats l El)) EA).
Qed.
Theorem compile_mode_empty_word tbl pats A : mode_width_ok pats = true -> compile_mode pats = Compiled A ->
  forall t, ~ accepts_tok tbl A [] t.
Proof.
  intros Hw HA t. apply compile_mode_inv in HA as (A0 & E0 & Em).
  rewrite (compile_mode_min_preserves tbl pats A0 A Hw E0 Em [] t).
  intros (q & Hq & Ha). cbn in Hq. destruct Hq as [<-|[]]. rewrite (compile_mode_unmin_start pats A0 E0) in Ha. discriminate.
Qed.

(* no panic anywhere in the pipeline *)
Lemma nfas_of_no_panic pats : nfas_of pats <> NPanicked.
Proof.
  induction pats as [|[t a] ps IH]; cbn [nfas_of]; [discriminate|].
  pose proof (try_from_ast_total a) as Ht. destruct (try_from_ast a); try congruence.
  destruct (nfas_of ps); congruence.
Qed.
Theorem compile_mode_unmin_no_panic pats : compile_mode_unmin pats <> ModePanic.
Proof.
  unfold compile_mode_unmin. pose proof (nfas_of_no_panic pats) as Hn. destruct (nfas_of pats) as [l| |] eqn:El; try congruence.
  destruct (compile_mp_total (mp_build l) (mp_build_wf l (nfas_of_wf pats l El))) as (A & EA). rewrite EA. discriminate.
Qed.
Theorem compile_mode_no_panic pats : compile_mode pats <> ModePanic.
Proof.
  unfold compile_mode. pose proof (compile_mode_unmin_no_panic pats) as Hn.
  destruct (compile_mode_unmin pats) as [A0| |] eqn:E0; try congruence.
  pose proof E0 as E0'. apply compile_mode_unmin_inv in E0' as (l & El & EA).
  destruct (compile_mp_facts (mp_build l) A0 (mp_build_wf l (nfas_of_wf pats l El)) EA) as (Hwf & _).
  destruct (minimize_total 32 A0 Hwf) as (B & EB). rewrite EB. discriminate.
Qed.
Theorem compile_mode_supported pats : (forall t a, In (t, a) pats -> supported a = true) -> exists A, compile_mode pats = Compiled A.
Proof.
  intros Hs. assert (Hl : exists l, nfas_of pats = NBuilt l).
  { induction pats as [|[t a] ps IH]; cbn [nfas_of]; [eauto|].
    destruct (supported_builds a (Hs t a (or_introl eq_refl))) as (n & En). rewrite En.
    destruct IH as (l & El); [intros t' a' Hin; apply (Hs t' a'); right; auto|]. rewrite El. eauto. }
  destruct Hl as (l & El). pose proof (compile_mode_no_panic pats) as Hn.
  unfold compile_mode, compile_mode_unmin in *. rewrite El in *.
  destruct (compile_mp (mp_build l)); [|congruence]. destruct (minimize 32 x); [eauto|congruence].
Qed.

(* ---------- lookaheads: Nfa::try_from_ast, From<Nfa>, minimize ---------- *)
Definition la_width_ok (a:ast) : bool :=
  match compile_la_unmin a with
  | Compiled A0 => N.leb (N.of_nat (length (trans A0))) (2 ^ N.of_nat 32)
  | _ => true
  end.
Theorem compile_la_correct tbl a A r : alts_nonempty a = true -> la_width_ok a = true ->
  compile_la a = Compiled A -> core_of_ast a = Some r ->
  forall w t, w <> [] -> (accepts_tok tbl A w t <-> t = 0%N /\ mt tbl r w).
Proof.
  intros Hne Hw HA Hr w t Hnw. unfold compile_la, la_width_ok in *.
  destruct (compile_la_unmin a) as [A0| |] eqn:E0; try discriminate.
  destruct (minimize 32 A0) as [B|] eqn:Em; try discriminate. inversion HA; subst B.
  unfold compile_la_unmin in E0. destruct (try_from_ast a) as [n| |] eqn:En; try discriminate.
  destruct (compile_single n 0%N) as [A1|] eqn:Es; try discriminate. inversion E0; subst A1.
  pose proof (built_wf a n En) as Wn.
  destruct (compile_single_wf_min n 0%N A0 Wn Es) as (Hwf & _).
  rewrite (minimize_preserves_N tbl 32 A0 A Hwf (proj1 (N.leb_le _ _) Hw) Em w t).
  rewrite (compile_single_correct tbl n 0%N A0 Wn Es w t Hnw).
  rewrite (thompson_correct tbl a n r Hne En Hr w). reflexivity.
Qed.
Theorem compile_la_no_panic a : compile_la a <> ModePanic.
Proof.
  unfold compile_la, compile_la_unmin. pose proof (try_from_ast_total a) as Ht.
  destruct (try_from_ast a) as [n| |] eqn:En; try congruence.
  pose proof (built_wf a n En) as Wn. destruct (compile_single_total n 0%N Wn) as (A0 & E0). rewrite E0.
  destruct (compile_single_wf_min n 0%N A0 Wn E0) as (Hwf & _).
  destruct (minimize_total 32 A0 Hwf) as (B & EB). rewrite EB. discriminate.
Qed.

(* ---------- a concrete mode (non-vacuity); the expected values are the automata the
   implementation recorded at the entry and at the exit of Minimizer::minimize for the patterns
   a(b|c)* (token 3), ab (token 1) and the empty pattern (token 7); classes a=0, b=1, c=2 ---------- *)
Definition ex_mode : list (N * ast) :=
  [(3%N, AConcat [ALeaf 0; ARep RZeroOrMore true (AGroup false (AAlt [ALeaf 1; ALeaf 2]))]);
   (1%N, AConcat [ALeaf 0; ALeaf 1]);
   (7%N, AEmpty)].
Lemma ex_mode_compiles :
  compile_mode_unmin_enc ex_mode =
    [[0; 0; 0; 1; 0; 2]; [1; 3; 1; 3; 2; 4]; [0; 0; 1; 5]; [1; 3; 1; 3; 2; 4]; [1; 3; 1; 3; 2; 4]; [1; 1]]%N
  /\ compile_mode_enc ex_mode = [[0; 0; 0; 1; 0; 3]; [0; 0; 1; 2]; [1; 1]; [1; 3; 1; 3; 2; 3]]%N
  /\ compile_mode_tids ex_mode = [3; 1; 7]%N
  /\ mode_width_ok ex_mode = true
  /\ rs_of ex_mode = Some [(3, Cat (At 0) (Cat (Star (Alt (At 1) (At 2))) Eps)); (1, Cat (At 0) (Cat (At 1) Eps)); (7, Eps)]%N.
Proof. vm_compute. repeat split; reflexivity. Qed.
