(* Minimizer.v — Gallina transcription of scnr/src/internal/minimizer.rs (Minimizer::minimize).
   Executable definitions only; the proofs are in MinimizerProofs.v.

   Data representation
     StateID            nat (index into `trans`/`fin`)
     CharClassID        N
     StateGroupID       N, produced by `as StateGroupIDBase` = reduction modulo 2^group_bits
     BTreeSet<StateID>  strictly ascending list of nat
     BTreeMap<CharClassID, Vec<StateID>>   list (N * list nat), ascending in the class id
     TransitionMap      list indexed by the state id (every state has an entry)
     Vec<(StateID, BTreeMap..)> in update_transitions : list (nat * tmap)
   Panics of the Rust code (indexing `end_states` out of range, `find_group(..).unwrap()`,
   "State not found in partition") can only happen for automata that fail `wf_min`; `minimize`
   returns None for those and when the fuel of the refinement loop is exhausted (never for
   fuel = number of states + 2, see MinimizerProofs.minimize_total). *)
From Scnr Require Import Base Automaton.

(* ---------- small list utilities ---------- *)
Fixpoint set_nth {X} (i:nat) (x:X) (l:list X) : list X :=
  match l with
  | [] => []                                   (* out of range: Rust would panic; not reached *)
  | y :: l' => match i with 0 => x :: l' | S i' => y :: set_nth i' x l' end
  end.
Fixpoint remove_at {X} (i:nat) (l:list X) : list X :=
  match l with
  | [] => []
  | y :: l' => match i with 0 => l' | S i' => y :: remove_at i' l' end
  end.

Definition tmap := list (N * list nat).         (* BTreeMap<CharClassID, Vec<StateID>> *)

(* t_of_s.entry(c).or_default().push(t); sort(); dedup()  — the Vec is kept sorted and
   duplicate free, so push+sort+dedup is a sorted insertion without duplicates *)
Fixpoint tm_insert (c:N) (t:nat) (m:tmap) : tmap :=
  match m with
  | [] => [(c, [t])]
  | (c', l) :: m' =>
      if N.ltb c c' then (c, [t]) :: m
      else if N.eqb c c' then (c', insert t l) :: m'
      else (c', l) :: tm_insert c t m'
  end.
Definition tm_of_edges (es:list (N * nat)) : tmap :=
  fold_left (fun m e => tm_insert (fst e) (snd e) m) es [].
Definition build_tmaps (A:dfa) : list tmap := map tm_of_edges (trans A).

(* ---------- partitions ---------- *)
Definition group := list nat.
Definition partition := list group.

Definition fin_of (fi:list (bool * N)) (q:nat) : bool * N := nth q fi (false, 0%N).

(* calculate_initial_partition *)
Definition terminal_map (fi:list (bool * N)) : list N :=
  nnorm (flat_map (fun e : bool * N => if fst e then [snd e] else []) fi).
Definition initial_partition (n:nat) (fi:list (bool * N)) : partition :=
  filter (fun q => negb (fst (fin_of fi q))) (seq 0 n)
  :: map (fun t => filter (fun q => fst (fin_of fi q) && N.eqb (snd (fin_of fi q)) t) (seq 0 n))
         (terminal_map fi).

(* position(|group| group.contains(&state)); `length P` when there is none (Rust: None) *)
Fixpoint gidx (P:partition) (q:nat) : nat :=
  match P with
  | [] => 0
  | G :: P' => if natmem q G then 0 else S (gidx P' q)
  end.
(* find_group: the index `as StateGroupIDBase`; md = 2^group_bits *)
Definition find_group (md:N) (P:partition) (q:nat) : N := N.modulo (N.of_nat (gidx P q)) md.

(* build_transitions_to_partition_group *)
Definition sigt := list (N * N).               (* TransitionsToPartitionGroups *)
Definition sig_of (md:N) (P:partition) (m:tmap) : sigt :=
  flat_map (fun cl : N * list nat => map (fun t => (fst cl, find_group md P t)) (snd cl)) m.

(* derived Ord of Vec<(CharClassID, StateGroupID)>: lexicographic *)
Fixpoint sig_cmp (a b:sigt) : comparison :=
  match a, b with
  | [], [] => Eq
  | [], _ :: _ => Lt
  | _ :: _, [] => Gt
  | (c1, g1) :: a', (c2, g2) :: b' =>
      match N.compare c1 c2 with
      | Eq => match N.compare g1 g2 with Eq => sig_cmp a' b' | r => r end
      | r => r
      end
  end.

(* transition_map_to_states.entry(key).or_default().insert(state): the states arrive in
   ascending order, so BTreeSet insertion is an append *)
Fixpoint bucket_insert (k:sigt) (q:nat) (b:list (sigt * group)) : list (sigt * group) :=
  match b with
  | [] => [(k, [q])]
  | (k', l) :: b' =>
      match sig_cmp k k' with
      | Lt => (k, [q]) :: b
      | Eq => (k', l ++ [q]) :: b'
      | Gt => (k', l) :: bucket_insert k q b'
      end
  end.

Definition split_group (md:N) (tms:list tmap) (P:partition) (G:group) : partition :=
  if Nat.eqb (length G) 1 then [G]
  else map snd (fold_left (fun b q => bucket_insert (sig_of md P (nth q tms [])) q b) G []).

Definition new_partition (md:N) (tms:list tmap) (P:partition) : partition :=
  flat_map (split_group md tms P) P.

Fixpoint group_eqb (a b:partition) : bool :=
  match a, b with
  | [], [] => true
  | x :: a', y :: b' => natlist_eqb x y && group_eqb a' b'
  | _, _ => false
  end.

(* while changed { new = calculate_new_partition(old); changed = new != old; old = new } *)
Fixpoint refine_loop (fuel:nat) (md:N) (tms:list tmap) (P:partition) : option partition :=
  match fuel with
  | 0 => None
  | S f => let P' := new_partition md tms P in
           if group_eqb P' P then Some P' else refine_loop f md tms P'
  end.

(* ---------- create_from_partition ---------- *)
(* partition.sort_by(..): stable; the group containing state 0 moves to the front *)
Definition reorder (P:partition) : partition :=
  filter (fun G => natmem 0 G) P ++ filter (fun G => negb (natmem 0 G)) P.

(* add_representative_state: every accepting member overwrites end_states[state_id] *)
Definition add_rep (fiA:list (bool * N)) (sid:nat) (G:group) (fi:list (bool * N)) : list (bool * N) :=
  fold_left (fun fi s => if fst (fin_of fiA s) then set_nth sid (true, snd (fin_of fiA s)) fi else fi) G fi.
(* for (id, group) in partition.iter().enumerate(): state_id = id as StateGroupIDBase *)
Fixpoint add_reps (md:N) (fiA:list (bool * N)) (i:nat) (P:partition) (fi:list (bool * N)) : list (bool * N) :=
  match P with
  | [] => fi
  | G :: P' => add_reps md fiA (S i) P' (add_rep fiA (N.to_nat (N.modulo (N.of_nat i) md)) G fi)
  end.

(* merge_transitions_of_state *)
Definition tvec := list (nat * tmap).
Fixpoint pos_of (k:nat) (v:tvec) : option nat :=
  match v with
  | [] => None
  | e :: v' => if Nat.eqb (fst e) k then Some 0 else option_map S (pos_of k v')
  end.
(* and_modify: push the targets that are not contained *)
Definition push_targets (e ts:list nat) : list nat := fold_left push_new ts e.
(* rep_trans.entry(c).and_modify(..).or_insert(ts.clone()) *)
Fixpoint tm_merge_class (c:N) (ts:list nat) (m:tmap) : tmap :=
  match m with
  | [] => [(c, ts)]
  | (c', l) :: m' =>
      if N.ltb c c' then (c, ts) :: m
      else if N.eqb c c' then (c', push_targets l ts) :: m'
      else (c', l) :: tm_merge_class c ts m'
  end.
Definition tm_merge (rep_trans other:tmap) : tmap :=
  fold_left (fun m cl => tm_merge_class (fst cl) (snd cl) m) other rep_trans.

Definition merge_state (s rep:nat) (v:tvec) : tvec :=
  match pos_of rep v with
  | None => v
  | Some rp =>
      let rt := snd (nth rp v (0, [])) in
      match pos_of s v with
      | None => set_nth rp (fst (nth rp v (0, [])), rt) v
      | Some p =>
          let rt' := tm_merge rt (snd (nth p v (0, []))) in
          let v' := remove_at p v in
          set_nth rp (fst (nth rp v' (0, [])), rt') v'       (* transitions[rep_pos].1 = rep_trans *)
      end
  end.

(* merge_transitions *)
Definition merge_group (v:tvec) (G:group) : tvec :=
  if Nat.eqb (length G) 1 then v
  else match G with
       | [] => v                                  (* debug_assert / unwrap: not reached *)
       | rep :: rest => fold_left (fun v s => merge_state s rep v) rest v
       end.
Definition merge_transitions (P:partition) (v:tvec) : tvec := fold_left merge_group P v.

(* renumber_states_in_transitions: group index `as StateIDBase` (u32, not reduced here) *)
Definition renumber (P:partition) (v:tvec) : tvec :=
  map (fun e : nat * tmap =>
         (gidx P (fst e), map (fun cl : N * list nat => (fst cl, map (gidx P) (snd cl))) (snd e))) v.

(* if !transitions.contains(&(c, t)) { transitions.push((c, t)) } *)
Definition edge_eqb (x y:N * nat) : bool := N.eqb (fst x) (fst y) && Nat.eqb (snd x) (snd y).
Definition push_edge (es:list (N * nat)) (e:N * nat) : list (N * nat) :=
  if existsb (edge_eqb e) es then es else es ++ [e].
Definition tm_edges (m:tmap) : list (N * nat) :=
  flat_map (fun cl : N * list nat => map (fun t => (fst cl, t)) (snd cl)) m.
Definition add_entry (st:list (list (N * nat))) (e:nat * tmap) : list (list (N * nat)) :=
  set_nth (fst e) (fold_left push_edge (tm_edges (snd e)) (nth (fst e) st [])) st.

Definition update_transitions (P:partition) (tms:list tmap) : list (list (N * nat)) :=
  let v := combine (seq 0 (length tms)) tms in
  let v1 := merge_transitions P v in
  let v2 := renumber P v1 in
  fold_left add_entry v2 (repeat [] (length P)).

Definition create_from_partition (md:N) (A:dfa) (P0:partition) (tms:list tmap) : dfa :=
  let P := reorder P0 in
  {| trans := update_transitions P tms;
     fin := add_reps md (fin A) 0 P (repeat (false, 0%N) (length P));
     tids := tids A |}.

(* ---------- minimize ---------- *)
Definition wf_min (A:dfa) : bool :=
  Nat.eqb (length (trans A)) (length (fin A))
  && Nat.ltb 0 (length (trans A))
  && forallb (fun es => forallb (fun e : N * nat => Nat.ltb (snd e) (length (trans A))) es) (trans A).

Definition minimize_fuel (fuel:nat) (group_bits:nat) (A:dfa) : option dfa :=
  if wf_min A then
    let md := N.pow 2 (N.of_nat group_bits) in
    let tms := build_tmaps A in
    match refine_loop fuel md tms (initial_partition (length (trans A)) (fin A)) with
    | Some P => Some (create_from_partition md A P tms)
    | None => None
    end
  else None.

Definition minimize (group_bits:nat) (A:dfa) : option dfa :=
  minimize_fuel (length (trans A) + 2) group_bits A.

(* the map state of A -> state of B used by the correctness statement *)
Definition final_partition (group_bits:nat) (A:dfa) : option partition :=
  option_map reorder
    (refine_loop (length (trans A) + 2) (N.pow 2 (N.of_nat group_bits)) (build_tmaps A)
                 (initial_partition (length (trans A)) (fin A))).
Definition state_map (group_bits:nat) (A:dfa) (q:nat) : nat :=
  match final_partition group_bits A with Some P => gidx P q | None => 0 end.

(* ---------- certificate: the four quotient conditions as a boolean ---------- *)
Definition fin_eqb (x y:bool * N) : bool :=
  match x, y with
  | (true, t), (true, t') => N.eqb t t'
  | (false, _), (false, _) => true
  | _, _ => false
  end.
Definition quotient_ok (A B:dfa) (g:nat -> nat) : bool :=
  let n := length (trans A) in
  Nat.eqb (g 0) 0
  && Nat.ltb 0 n
  && forallb (fun q =>
       Nat.ltb (g q) (length (trans B))
       && fin_eqb (fin_of (fin B) (g q)) (fin_of (fin A) q)
       && forallb (fun e : N * nat =>
            Nat.ltb (snd e) n && existsb (edge_eqb (fst e, g (snd e))) (nth (g q) (trans B) []))
            (nth q (trans A) [])
       && forallb (fun e : N * nat =>
            existsb (fun e' : N * nat => N.eqb (fst e') (fst e) && Nat.eqb (g (snd e')) (snd e))
                    (nth q (trans A) []))
            (nth (g q) (trans B) []))
     (seq 0 n).

(* ---------- interface for generated test files ---------- *)
Definition mk_dfa_min (tr:list (list (N * N))) (fi:list (bool * N)) (ti:list N) : dfa :=
  {| trans := map (map (fun e => (fst e, N.to_nat (snd e)))) tr; fin := fi; tids := ti |}.

Definition edge_leb (x y:N * N) : bool :=
  N.ltb (fst x) (fst y) || (N.eqb (fst x) (fst y) && N.leb (snd x) (snd y)).
Fixpoint edge_ins (e:N * N) (l:list (N * N)) : list (N * N) :=
  match l with
  | [] => [e]
  | y :: l' => if edge_leb e y then e :: l else y :: edge_ins e l'
  end.
Definition edge_sort (l:list (N * N)) : list (N * N) := fold_right edge_ins [] l.

(* per state: [accepting (0/1); token type; cc1; target1; cc2; target2; ...], edges sorted *)
Definition enc_dfa_state (es:list (N * nat)) (f:bool * N) : list N :=
  (if fst f then 1%N else 0%N) :: snd f ::
  flat_map (fun e : N * N => [fst e; snd e]) (edge_sort (map (fun e : N * nat => (fst e, N.of_nat (snd e))) es)).
Definition enc_dfa (A:dfa) : list (list N) :=
  map (fun q => enc_dfa_state (nth q (trans A) []) (fin_of (fin A) q)) (seq 0 (length (trans A))).
Definition minimize_enc (bits:N) (A:dfa) : list (list N) :=
  match minimize (N.to_nat bits) A with Some B => enc_dfa B | None => [[0%N]] end.

(* decidable acceptance of one word, used by the examples *)
Definition accepts_tokb (tbl:N -> N -> bool) (A:dfa) (w:list N) (t:N) : bool :=
  existsb (fun q => acc A q t) (run tbl A [0] w).

(* ---------- example automata (used in MinimizerProofs.v / Properties/C03.v) ---------- *)
Definition ex_min_tbl (a c:N) : bool := N.eqb c (97 + a).       (* class k = the letter 'a'+k *)
(* (a|b)c : 0 -a-> 1, 0 -b-> 2, 1 -c-> 3, 2 -c-> 4; states 3 and 4 accept token type 0 *)
Definition ex_min_A : dfa :=
  mk_dfa_min [[(0,1);(1,2)]; [(2,3)]; [(2,4)]; []; []]%N
             [(false,0); (false,0); (false,0); (true,0); (true,0)]%N [0%N].
Definition ex_min_B : dfa :=
  mk_dfa_min [[(0,1);(1,1)]; [(2,2)]; []]%N [(false,0); (false,0); (true,0)]%N [0%N].
(* aaaaa : a chain of six states, six groups *)
Definition ex_chain6 : dfa :=
  mk_dfa_min [[(0,1)]; [(0,2)]; [(0,3)]; [(0,4)]; [(0,5)]; []]%N
             [(false,0); (false,0); (false,0); (false,0); (false,0); (true,0)]%N [0%N].
