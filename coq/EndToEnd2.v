(* EndToEnd2.v — consequences of the capstone for scanners built from source patterns: no call of
   any history panics; and the properties proved for the specification-driven iterator transfer. *)
From Scnr Require Import Base Regex Automaton FindFrom FindFromProofs ModeProofs Spec SpecRun Iter IterRun IterProofs IterInst
  HistoryProofs Nfa Compile CompileProofs OkProofs ExtProofs EndToEnd.

Definition trans_valid (l:list src_mode) : Prop :=
  forall m, In m l -> forall t m', In (t, m') (s_trans m) -> m' < length l.
Definition trans_validb (l:list src_mode) : bool :=
  forallb (fun m => forallb (fun e : N * nat => snd e <? length l) (s_trans m)) l.
Lemma trans_validb_ok l : trans_validb l = true -> trans_valid l.
Proof.
  unfold trans_validb, trans_valid. rewrite forallb_forall. intros H m Hin t m' Ht.
  specialize (H m Hin). rewrite forallb_forall in H. specialize (H _ Ht). cbn in H. apply Nat.ltb_lt in H. exact H.
Qed.

Lemma all_some_length {A B} (f:A -> option B) l r : all_some (map f l) = Some r -> length r = length l.
Proof. intros H. apply all_some_forall2 in H. induction H; cbn; auto. Qed.

Lemma build_mode_trans m cm : build_mode m = Some cm -> mtrans cm = s_trans m.
Proof.
  unfold build_mode. destruct (compile_mode _); try discriminate. destruct (build_las _); try discriminate.
  intros E; inversion E; reflexivity.
Qed.

Theorem built_modes_ok l cms : build_scanner l = Some cms -> trans_valid l -> modes_ok cms.
Proof.
  intros Hb Hv cm Hin. pose proof (all_some_length _ _ _ Hb) as Hlen.
  destruct (forall2_in_r _ _ _ (all_some_forall2 _ _ _ Hb) cm Hin) as (m & Hm & Hbm).
  split; [apply (build_mode_ok m cm Hbm)|].
  intros t m' Hh. apply has_transition_in in Hh. rewrite (build_mode_trans m cm Hbm) in Hh.
  rewrite Hlen. apply (Hv m Hm t m' Hh).
Qed.

(* NO PANIC. For a scanner built (in the model of the pipeline) from any source configuration with
   at least one mode whose transitions lead to existing modes, every history of operations whose
   set_offset arguments are character boundaries (or beyond the end) and whose set_mode arguments
   are existing modes runs to completion: no unwrap, no indexing, no slicing fails. *)
Theorem built_scanner_never_panics tbl l cms :
  build_scanner l = Some cms -> 0 < length l -> trans_valid l ->
  forall input ops sm, Forall (op_valid (length cms) input) ops ->
  exists st' outs, run_history (impl_scanner tbl cms) (find_iter sm input) ops = Some (st', outs).
Proof.
  intros Hb Hn Hv input ops sm Hops. pose proof (all_some_length _ _ _ Hb) as Hlen.
  assert (Hn' : 0 < length cms) by (rewrite Hlen; exact Hn).
  destruct (history_total (impl_scanner tbl cms) (length cms) (impl_scanner_ok tbl cms (built_modes_ok l cms Hb Hv)) ops
              (find_iter sm input) (find_iter_RInv _ sm input Hn') Hops) as (st' & outs & E & _). eauto.
Qed.

(* THE RULE AT THE SOURCE LEVEL. For a mode built from source patterns, at every position of every
   haystack: the search never panics; it reports nothing iff no pattern has a candidate (a non-empty
   prefix it matches in full with its lookahead condition satisfied on the rest); otherwise the
   reported (token type, end) belongs to ONE candidate of pattern number i whose extent x (match
   end plus length of the longest lookahead match, 0 for negative or absent lookahead) is maximal,
   and among the candidates of that extent i is the smallest pattern index: longest extent first,
   then the pattern listed first. *)
From Scnr Require Import SpecProofs.
Theorem built_mode_rule tbl m cm sm :
  build_mode m = Some cm -> spec_mode m = Some sm -> mode_valid m -> forall s,
  match find_mode tbl (aut cm) s with
  | Panic => False
  | Ok None => forall x i t e, ~ SCand tbl (sm_pats sm) s x i t e
  | Ok (Some (t, e)) => exists x i, SCand tbl (sm_pats sm) s x i t e /\
      forall x' i' t' e', SCand tbl (sm_pats sm) s x' i' t' e' -> x' < x \/ (x' = x /\ i <= i')
  end.
Proof.
  intros Hb Hs Hv s. rewrite (compiled_find_is_specification tbl m cm sm Hb Hs Hv s).
  apply (best_cand_spec tbl (sm_pats sm) s).
Qed.

(* the patterns of the specification mode are the source patterns, in order: pattern number i of
   SCand is the i-th configured pattern, with its token type, its regular expression and its
   lookahead (polarity and regular expression) *)
Theorem spec_mode_patterns m sm : spec_mode m = Some sm ->
  Forall2 (fun p sp => sp_tok sp = s_tok p /\ core_of_ast (s_ast p) = Some (sp_re sp) /\
             match s_la p with
             | None => sp_la sp = None
             | Some (pos, al) => exists rl, core_of_ast al = Some rl /\ sp_la sp = Some (pos, rl)
             end) (s_pats m) (sm_pats sm).
Proof.
  unfold spec_mode. destruct (all_some _) as [sps|] eqn:E; [|discriminate]. intros H; inversion H; subst sm. cbn [sm_pats].
  apply all_some_forall2 in E. clear H. induction E as [|p sp ps sps Hmk _ IH]; [constructor|]. constructor; [|exact IH].
  split; [eapply mk_spat_tok; eauto|]. split; [eapply mk_spat_re; eauto|]. apply (mk_spat_la _ _ _ _ Hmk).
Qed.
