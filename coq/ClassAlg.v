(* ClassAlg.v — character-class evaluation of scnr (src/internal/match_function.rs).
   Definitions only; the proofs are in ClassAlgProofs.v, the property statements in
   Properties/C08.v.

   Characters are Unicode scalar values of type N.  The "named" sets (Perl classes, POSIX
   bracket classes, Unicode property classes) are not defined here: every evaluation function
   takes a parameter  named : named_item -> N -> bool  that gives the NON-negated set.  In the
   Rust code these are calls into std / seshat (is_numeric, is_whitespace, alpha, ...).
   Unicode classes the Rust code rejects with UnsupportedFeature (unknown names, name=value
   forms) have no counterpart here: a term of type leaf stands for a class that was accepted. *)
From Scnr Require Import Base.
Local Open Scope N_scope.

(* ------------------------------------------------------------------------------------------ *)
(* AST mirror (regex_syntax::ast)                                                             *)
(* ------------------------------------------------------------------------------------------ *)
Inductive perl_kind := PDigit | PSpace | PWord.
Inductive ascii_kind :=
  AAlnum | AAlpha | AAscii | ABlank | ACntrl | ADigit | AGraph | ALower | APrint | APunct
| ASpace | AUpper | AWord | AXdigit.
(* the non-negated named set; NUnicode id: id is a caller-chosen number for the one-letter or
   named Unicode property *)
Inductive named_item := NPerl (k:perl_kind) | NAscii (k:ascii_kind) | NUnicode (id:N).

Inductive binop := OAnd | ODiff | OSym.          (* ClassSetBinaryOpKind: &&  --  ~~ *)

Inductive cset :=                                (* ClassSet *)
| CItem (i:citem)                                (*   ClassSet::Item *)
| COp (op:binop) (l r:cset)                      (*   ClassSet::BinaryOp *)
with citem :=                                    (* ClassSetItem *)
| IEmpty
| ILit (c:N) (verbatim:bool)                     (*   Literal, verbatim = (kind == Verbatim) *)
| IRange (s e:N)
| IAscii (k:ascii_kind) (neg:bool)
| IUnicode (id:N) (neg:bool)                     (*   neg = ClassUnicode::is_negated() *)
| IPerl (k:perl_kind) (neg:bool)
| IBracketed (neg:bool) (s:cset)                 (*   Box<ClassBracketed> {negated, kind} *)
| IUnion (items:list citem).                     (*   ClassSetUnion {items} *)

(* the Ast variants MatchFunction::try_from accepts *)
Inductive leaf :=
| LEmpty                                         (* Ast::Empty *)
| LLit (c:N) (verbatim:bool)                     (* Ast::Literal *)
| LDot                                           (* Ast::Dot *)
| LUnicode (id:N) (neg:bool)                     (* Ast::ClassUnicode *)
| LPerl (k:perl_kind) (neg:bool)                 (* Ast::ClassPerl *)
| LBracketed (neg:bool) (s:cset).                (* Ast::ClassBracketed *)

(* induction principle covering the list nested in IUnion *)
Section CsetInd.
  Variables (P : cset -> Prop) (Q : citem -> Prop).
  Hypothesis HItem : forall i, Q i -> P (CItem i).
  Hypothesis HOp : forall op l r, P l -> P r -> P (COp op l r).
  Hypothesis HEmpty : Q IEmpty.
  Hypothesis HLit : forall c v, Q (ILit c v).
  Hypothesis HRange : forall s e, Q (IRange s e).
  Hypothesis HAscii : forall k n, Q (IAscii k n).
  Hypothesis HUnicode : forall id n, Q (IUnicode id n).
  Hypothesis HPerl : forall k n, Q (IPerl k n).
  Hypothesis HBracketed : forall n s, P s -> Q (IBracketed n s).
  Hypothesis HUnion : forall items, Forall Q items -> Q (IUnion items).

  Fixpoint cset_mut (s:cset) : P s :=
    match s with
    | CItem i => HItem i (citem_mut i)
    | COp op l r => HOp op l r (cset_mut l) (cset_mut r)
    end
  with citem_mut (i:citem) : Q i :=
    match i with
    | IEmpty => HEmpty
    | ILit c v => HLit c v
    | IRange s e => HRange s e
    | IAscii k n => HAscii k n
    | IUnicode id n => HUnicode id n
    | IPerl k n => HPerl k n
    | IBracketed n s => HBracketed n s (cset_mut s)
    | IUnion items =>
        HUnion items
          ((fix go (l:list citem) : Forall Q l :=
              match l with
              | [] => Forall_nil Q
              | x :: l' => Forall_cons x (citem_mut x) (go l')
              end) items)
    end.

  Lemma cset_citem_mut : (forall s, P s) /\ (forall i, Q i).
  Proof. split; [exact cset_mut | exact citem_mut]. Qed.
End CsetInd.

(* ------------------------------------------------------------------------------------------ *)
(* Shared elementary predicates                                                               *)
(* ------------------------------------------------------------------------------------------ *)
(* |ch| ch != '\n' && ch != '\r' *)
Definition dot_set (ch:N) : bool := negb (N.eqb ch 10) && negb (N.eqb ch 13).
(* |ch| start <= ch && ch <= end *)
Definition in_range (s e ch:N) : bool := N.leb s ch && N.leb ch e.
(* c == '.' && kind == Verbatim *)
Definition is_verbatim_dot (c:N) (verbatim:bool) : bool := N.eqb c 46 && verbatim.

(* ------------------------------------------------------------------------------------------ *)
(* eval_*: transcription of the TryFrom impls, closure by closure                             *)
(* ------------------------------------------------------------------------------------------ *)
Section Eval.
  Variable named : named_item -> N -> bool.

  (* Ok(if negated { MatchFn::new(move |ch| !match_function.inner()(ch)) } else { match_function }) *)
  Definition neg_if (negated:bool) (f:N -> bool) : N -> bool :=
    if negated then (fun ch => negb (f ch)) else f.

  (* impl TryFrom<&Literal> for MatchFn *)
  Definition eval_literal (c:N) (verbatim:bool) : N -> bool :=
    if is_verbatim_dot c verbatim then (fun ch => negb (N.eqb ch 10) && negb (N.eqb ch 13))
    else (fun ch => N.eqb ch c).

  (* impl TryFrom<&ClassUnicode> for MatchFn (supported classes) *)
  Definition eval_unicode (id:N) (neg:bool) : N -> bool := neg_if neg (named (NUnicode id)).
  (* impl TryFrom<&ClassPerl> for MatchFn *)
  Definition eval_perl (k:perl_kind) (neg:bool) : N -> bool := neg_if neg (named (NPerl k)).
  (* the ClassSetItem::Ascii arm of TryFrom<(&ClassSetItem, bool)> *)
  Definition eval_ascii (k:ascii_kind) (neg:bool) : N -> bool := neg_if neg (named (NAscii k)).

  (* the match on kind in TryFrom<(&ClassSetBinaryOp, bool)> *)
  Definition eval_binop (op:binop) (lhs rhs:N -> bool) : N -> bool :=
    match op with
    | OAnd => fun ch => lhs ch && rhs ch
    | ODiff => fun ch => lhs ch && negb (rhs ch)
    | OSym => fun ch => negb (Bool.eqb (lhs ch) (rhs ch))      (* lhs(ch) != rhs(ch) *)
    end.

  (* eval_set negated s   : the body shared by TryFrom<&ClassBracketed> (negated =
                            bracketed.negated) and TryFrom<&ClassSet> (negated = false): dispatch
                            on the ClassSet, handing `negated` on; the COp arm is
                            TryFrom<(&ClassSetBinaryOp, bool)>, whose operands go through
                            TryFrom<&ClassSet>, i.e. negated = false
     eval_item negated i  : TryFrom<(&ClassSetItem, bool)>; the IUnion arm is
                            TryFrom<&ClassSetUnion>: try_fold from |_| false, left to right,
                            each item converted with negated = false *)
  Fixpoint eval_set (negated:bool) (s:cset) {struct s} : N -> bool :=
    match s with
    | CItem i => eval_item negated i
    | COp op l r => neg_if negated (eval_binop op (eval_set false l) (eval_set false r))
    end
  with eval_item (negated:bool) (i:citem) {struct i} : N -> bool :=
    neg_if negated
      match i with
      | IEmpty => fun _ => false
      | ILit c v => eval_literal c v
      | IRange s e => fun ch => N.leb s ch && N.leb ch e
      | IAscii k n => eval_ascii k n
      | IUnicode id n => eval_unicode id n
      | IPerl k n => eval_perl k n
      | IBracketed n s => eval_set n s
      | IUnion items =>
          fold_left (fun (acc:N -> bool) (x:citem) => fun ch => acc ch || eval_item false x ch)
                    items (fun _ => false)
      end.

  Definition eval_bracketed (negated:bool) (s:cset) : N -> bool := eval_set negated s.
  Definition eval_class_set (s:cset) : N -> bool := eval_set false s.
  Definition eval_union (items:list citem) : N -> bool :=
    fold_left (fun (acc:N -> bool) (x:citem) => fun ch => acc ch || eval_item false x ch)
              items (fun _ => false).

  (* impl TryFrom<&Ast> for MatchFunction *)
  Definition eval_leaf (l:leaf) : N -> bool :=
    match l with
    | LEmpty => fun _ => true
    | LDot => fun ch => negb (N.eqb ch 10) && negb (N.eqb ch 13)
    | LLit c v => eval_literal c v
    | LUnicode id n => eval_unicode id n
    | LPerl k n => eval_perl k n
    | LBracketed n s => eval_bracketed n s
    end.

  Definition eval_leaf_on (l:leaf) (cs:list N) : list bool := map (eval_leaf l) cs.

  (* ---------------------------------------------------------------------------------------- *)
  (* denote_*: the textbook set algebra                                                       *)
  (* ---------------------------------------------------------------------------------------- *)
  Definition denote_lit (c:N) (verbatim:bool) (ch:N) : bool :=
    if is_verbatim_dot c verbatim then dot_set ch else N.eqb ch c.
  Definition denote_named (n:named_item) (neg:bool) (ch:N) : bool :=
    if neg then negb (named n ch) else named n ch.

  Fixpoint denote_set (s:cset) (ch:N) {struct s} : bool :=
    match s with
    | CItem i => denote_item i ch
    | COp OAnd l r => denote_set l ch && denote_set r ch
    | COp ODiff l r => denote_set l ch && negb (denote_set r ch)
    | COp OSym l r => xorb (denote_set l ch) (denote_set r ch)
    end
  with denote_item (i:citem) (ch:N) {struct i} : bool :=
    match i with
    | IEmpty => false
    | ILit c v => denote_lit c v ch
    | IRange s e => in_range s e ch
    | IAscii k n => denote_named (NAscii k) n ch
    | IUnicode id n => denote_named (NUnicode id) n ch
    | IPerl k n => denote_named (NPerl k) n ch
    | IBracketed n s => if n then negb (denote_set s ch) else denote_set s ch
    | IUnion items => existsb (fun x => denote_item x ch) items
    end.

  Definition denote_leaf (l:leaf) (ch:N) : bool :=
    match l with
    | LEmpty => true
    | LDot => dot_set ch
    | LLit c v => denote_lit c v ch
    | LUnicode id n => denote_named (NUnicode id) n ch
    | LPerl k n => denote_named (NPerl k) n ch
    | LBracketed n s => if n then negb (denote_set s ch) else denote_set s ch
    end.
End Eval.

(* ------------------------------------------------------------------------------------------ *)
(* What a class looks at: its atoms                                                           *)
(* ------------------------------------------------------------------------------------------ *)
Inductive atom :=
| ANamed (n:named_item)          (* a named set *)
| ALit (c:N)                     (* comparison with one character *)
| ARange (s e:N)                 (* inclusive range test *)
| ADot.                          (* the dot set (not \n, not \r) *)

Definition atom_val (named:named_item -> N -> bool) (a:atom) (ch:N) : bool :=
  match a with
  | ANamed n => named n ch
  | ALit c => N.eqb ch c
  | ARange s e => in_range s e ch
  | ADot => dot_set ch
  end.

Definition atoms_of_lit (c:N) (verbatim:bool) : list atom :=
  if is_verbatim_dot c verbatim then [ADot] else [ALit c].

Fixpoint atoms_of_set (s:cset) : list atom :=
  match s with
  | CItem i => atoms_of_item i
  | COp _ l r => atoms_of_set l ++ atoms_of_set r
  end
with atoms_of_item (i:citem) : list atom :=
  match i with
  | IEmpty => []
  | ILit c v => atoms_of_lit c v
  | IRange s e => [ARange s e]
  | IAscii k _ => [ANamed (NAscii k)]
  | IUnicode id _ => [ANamed (NUnicode id)]
  | IPerl k _ => [ANamed (NPerl k)]
  | IBracketed _ s => atoms_of_set s
  | IUnion items => flat_map (fun x => atoms_of_item x) items
  end.

Definition atoms_of_leaf (l:leaf) : list atom :=
  match l with
  | LEmpty => []
  | LDot => [ADot]
  | LLit c v => atoms_of_lit c v
  | LUnicode id _ => [ANamed (NUnicode id)]
  | LPerl k _ => [ANamed (NPerl k)]
  | LBracketed _ s => atoms_of_set s
  end.

(* projections of the atom list *)
Definition named_of_atoms (l:list atom) : list named_item :=
  flat_map (fun a => match a with ANamed n => [n] | _ => [] end) l.
Definition lits_of_atoms (l:list atom) : list N :=
  flat_map (fun a => match a with ALit c => [c] | _ => [] end) l.
Definition ranges_of_atoms (l:list atom) : list (N * N) :=
  flat_map (fun a => match a with ARange s e => [(s, e)] | _ => [] end) l.
Definition has_dot_atoms (l:list atom) : bool :=
  existsb (fun a => match a with ADot => true | _ => false end) l.

(* named items occurring in the class *)
Definition named_of_leaf (l:leaf) : list named_item := named_of_atoms (atoms_of_leaf l).
(* literals compared by equality (a verbatim '.' is not among them, it is a dot) *)
Definition lits_of_leaf (l:leaf) : list N := lits_of_atoms (atoms_of_leaf l).
(* range endpoint pairs *)
Definition ranges_of_leaf (l:leaf) : list (N * N) := ranges_of_atoms (atoms_of_leaf l).
(* does a Dot or a verbatim '.' literal occur *)
Definition has_dot_leaf (l:leaf) : bool := has_dot_atoms (atoms_of_leaf l).

Definition named_of_set (s:cset) : list named_item := named_of_atoms (atoms_of_set s).
Definition lits_of_set (s:cset) : list N := lits_of_atoms (atoms_of_set s).
Definition ranges_of_set (s:cset) : list (N * N) := ranges_of_atoms (atoms_of_set s).
Definition has_dot_set (s:cset) : bool := has_dot_atoms (atoms_of_set s).

(* two characters that no atom of the class tells apart — as a proposition and as a test *)
Definition agree (named:named_item -> N -> bool) (l:leaf) (ch1 ch2:N) : Prop :=
  Forall (fun n => named n ch1 = named n ch2) (named_of_leaf l) /\
  Forall (fun c => N.eqb ch1 c = N.eqb ch2 c) (lits_of_leaf l) /\
  Forall (fun p => in_range (fst p) (snd p) ch1 = in_range (fst p) (snd p) ch2)
         (ranges_of_leaf l) /\
  (has_dot_leaf l = true -> dot_set ch1 = dot_set ch2).

Definition agreeb (named:named_item -> N -> bool) (l:leaf) (ch1 ch2:N) : bool :=
  forallb (fun a => Bool.eqb (atom_val named a ch1) (atom_val named a ch2)) (atoms_of_leaf l).

(* ------------------------------------------------------------------------------------------ *)
(* Named sets from a finite table                                                             *)
(* ------------------------------------------------------------------------------------------ *)
Definition perl_key (k:perl_kind) : N :=
  match k with PDigit => 0 | PSpace => 1 | PWord => 2 end.
Definition ascii_key (k:ascii_kind) : N :=
  match k with
  | AAlnum => 10 | AAlpha => 11 | AAscii => 12 | ABlank => 13 | ACntrl => 14 | ADigit => 15
  | AGraph => 16 | ALower => 17 | APrint => 18 | APunct => 19 | ASpace => 20 | AUpper => 21
  | AWord => 22 | AXdigit => 23
  end.
(* injective numbering of named items *)
Definition named_key (n:named_item) : N :=
  match n with
  | NPerl k => perl_key k
  | NAscii k => ascii_key k
  | NUnicode id => 100 + id
  end.

(* tbl : key -> the characters that belong to the set; a missing key is the empty set *)
Definition named_of_tbl (tbl:list (N * list N)) (n:named_item) (ch:N) : bool :=
  match nassoc (named_key n) tbl with
  | Some l => nmem ch l
  | None => false
  end.

(* named items that match_function.rs implements by one and the same predicate
   (is_numeric, is_whitespace, the "word" closure, is_ascii_graphic) *)
Definition rust_aliases : list (named_item * named_item) :=
  [ (NAscii ADigit, NPerl PDigit); (NAscii ASpace, NPerl PSpace); (NAscii AWord, NPerl PWord);
    (NAscii APrint, NAscii AGraph) ].
Definition respects_aliases (named:named_item -> N -> bool) : Prop :=
  Forall (fun p => forall ch, named (fst p) ch = named (snd p) ch) rust_aliases.

(* Generated files write terms with all numbers in N scope, e.g. after  Open Scope N_scope :
     LBracketed true (COp OAnd (CItem (IUnion [IRange 97 99; ILit 120 true]))
                               (CItem (IBracketed true (CItem (ILit 98 true)))))        *)
