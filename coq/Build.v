(* Build.v — model of the build outcome of a whole scanner configuration (C15).

   The real build (ScannerBuilder::build / build_uncached -> ScannerImpl::try_from, file
   scnr/src/internal/scanner_impl.rs) runs, with `?` after every step,

     for every mode, in order                     CompiledScannerMode::try_from_scanner_mode
       for every pattern of the mode, in order    MultiPatternNfa::try_from_patterns
         parse_regex_syntax(pattern)?               (regex_syntax, OUTSIDE the model: `PSyntaxError`)
         Nfa::try_from_ast(ast, registry)?          (model: Nfa.try_from_ast, PROVED total, NfaProofs.v)
       closure construction + Minimizer::minimize (From<MultiPatternNfa> for CompiledDfa)
       for every pattern with a lookahead, in order CompiledLookahead::try_from_lookahead
         parse_regex_syntax(lookahead)? ; Nfa::try_from_ast(..)? ; closure construction + minimize
     registry.create_match_char_class()?          TryFrom<&Ast> for MatchFunction for every class
                                                  registered by the leaves of all ASTs above
                                                  (match_function.rs; rejects one-letter Unicode
                                                  classes and names outside its table and every
                                                  name=value form, at any nesting depth in brackets)

   What is covered by a PROVED model:
     - Nfa::try_from_ast (nfa.rs): Nfa.try_from_ast with every panic site explicit; never
       `Panicked`, rejects exactly the ASTs with `supported a = false` (NfaProofs.v, C15.v).
     - Minimizer::minimize (minimizer.rs): Minimizer.minimize returns a result on every well-formed
       automaton (MinimizerProofs.minimize_total / minimize_none_iff, C03.v).
     - the rejection decision of class compilation: `class_supported` over the table regenerated
       from the match arms of `TryFrom<&ClassUnicode>` (Gen/UnicodeNames.v); the other arms of
       match_function.rs are infallible (they only build closures).
   What is NOT modelled and only OBSERVED by the correspondence check under catch_unwind (both
   build() and build_uncached() of every generated configuration):
     - multi_pattern_nfa.rs (id shifting, `find_nfa(..).expect`), the closure (subset) construction
       in compiled_dfa.rs (`unwrap` on the state map, indexing), compiled_lookahead.rs;
       they are modelled as steps that neither fail nor panic;
     - resource exhaustion (repetition counts that allocate huge NFAs, u32 state id overflow): state
       ids are `nat` here, the generators keep repetition counts small;
     - the string parser regex_syntax: a pattern is given as `PSyntaxError` or as its AST together
       with the Unicode-class descriptors of its class leaves (collected at any nesting depth of
       bracketed classes by the translator from the implementation's own AST dump). *)
From Scnr Require Import Base Regex Automaton FindFrom Spec Nfa.
From Scnr.Gen Require Import UnicodeNames.

(* descriptor of a \p / \P class: one letter (code point), a name (code points), or name=value *)
Inductive uclass := UOne (letter:N) | UNamed (name:list N) | UValue.

Definition name_mem (s:list N) (names:list (list N)) : bool := existsb (nlist_eqb s) names.

(* TryFrom<&ClassUnicode> for MatchFn: Ok iff the letter / the name has a match arm *)
Definition class_supported (letters:list N) (names:list (list N)) (u:uclass) : bool :=
  match u with
  | UOne c => nmem c letters
  | UNamed s => name_mem s names
  | UValue => false
  end.

(* a pattern or lookahead string as the build sees it *)
Inductive parsed := PSyntaxError | PAst (a:ast) (cls:list uclass).
Record bpat := mk_bpat { bp_pat : parsed; bp_la : option parsed }.
Definition bmode := list bpat.
Definition bconfig := list bmode.

Inductive outcome3 := BuiltOk | Rejected | Panicked3.

(* `?`: the first step that does not succeed decides *)
Definition seq3 (o k:outcome3) : outcome3 := match o with BuiltOk => k | _ => o end.
Fixpoint all3 {A} (f:A -> outcome3) (l:list A) : outcome3 :=
  match l with [] => BuiltOk | x :: l' => seq3 (f x) (all3 f l') end.

(* parse_regex_syntax(..)? ; Nfa::try_from_ast(..)? *)
Definition item_outcome (p:parsed) : outcome3 :=
  match p with
  | PSyntaxError => Rejected
  | PAst a _ => match try_from_ast a with
                | Built _ => BuiltOk
                | Unsupported => Rejected
                | Panicked => Panicked3
                end
  end.

Definition la_outcome (p:bpat) : outcome3 :=
  match bp_la p with None => BuiltOk | Some q => item_outcome q end.

(* CompiledDfa::try_from_patterns: all patterns first, then the lookaheads *)
Definition mode_outcome (m:bmode) : outcome3 :=
  seq3 (all3 (fun p => item_outcome (bp_pat p)) m) (all3 la_outcome m).

(* every pattern and lookahead string of the configuration *)
Definition items_of_pat (p:bpat) : list parsed :=
  bp_pat p :: match bp_la p with Some q => [q] | None => [] end.
Definition items (cfg:bconfig) : list parsed := flat_map (flat_map items_of_pat) cfg.

Definition classes_of (p:parsed) : list uclass :=
  match p with PAst _ cls => cls | PSyntaxError => [] end.

Section Table.
Variable letters : list N.
Variable names : list (list N).

(* create_match_char_class: every registered class is compiled; reached only when all modes were
   compiled, and then every leaf of every AST has been registered *)
Definition classes_outcome (cfg:bconfig) : outcome3 :=
  if forallb (class_supported letters names) (flat_map classes_of (items cfg)) then BuiltOk else Rejected.

Definition build_outcome_with (cfg:bconfig) : outcome3 :=
  seq3 (all3 mode_outcome cfg) (classes_outcome cfg).

(* ---------- the declarative reading ---------- *)
Definition item_ok (p:parsed) : bool :=
  match p with
  | PSyntaxError => false
  | PAst a cls => supported a && forallb (class_supported letters names) cls
  end.

(* per item, in the order of `items`: 0 fine, 1 syntax error, 2 unsupported construct in the AST,
   3 unsupported Unicode class (for the evidence; not compared with the implementation) *)
Definition item_code (p:parsed) : N :=
  match p with
  | PSyntaxError => 1
  | PAst a cls => if negb (supported a) then 2
                  else if forallb (class_supported letters names) cls then 0 else 3
  end%N.
Definition explain (cfg:bconfig) : list N := map item_code (items cfg).
End Table.

(* "at any depth": the sub-AST relation and the four rejected node shapes *)
Inductive subterm : ast -> ast -> Prop :=
| sub_refl a : subterm a a
| sub_rep s k g a : subterm s a -> subterm s (ARep k g a)
| sub_group s fl a : subterm s a -> subterm s (AGroup fl a)
| sub_alt s a l : In a l -> subterm s a -> subterm s (AAlt l)
| sub_concat s a l : In a l -> subterm s a -> subterm s (AConcat l).

Definition bad_node (a:ast) : Prop :=
  a = AFlags \/ a = AAssertion \/ (exists k a', a = ARep k false a') \/ (exists a', a = AGroup true a').

(* the model instantiated with the table read off the current source (Gen/UnicodeNames.v is
   regenerated from match_function.rs on every run) *)
Definition build_outcome : bconfig -> outcome3 := build_outcome_with unicode_letters unicode_names.

(* ---------- encoding for generated test files ---------- *)
Definition enc3 (o:outcome3) : N :=
  match o with BuiltOk => 1 | Rejected => 0 | Panicked3 => 999999 end%N.
Definition build_enc (letters:list N) (names:list (list N)) (cfg:bconfig) : list N :=
  enc3 (build_outcome_with letters names cfg) :: explain letters names cfg.
