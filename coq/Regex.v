(* Regex.v — regular expressions over atom ids, Brzozowski derivatives, boolean matcher. *)
From Scnr Require Import Base.

(* ---------- regular expressions over predicate ids, symbols are N ---------- *)
Inductive re := Emp | Eps | At (a:N) | Cat (r s:re) | Alt (r s:re) | Star (r:re).

Fixpoint re_eqb (r s:re) : bool :=
  match r,s with
  | Emp,Emp | Eps,Eps => true
  | At a, At b => N.eqb a b
  | Cat a b, Cat c d | Alt a b, Alt c d => if re_eqb a c then re_eqb b d else false
  | Star a, Star b => re_eqb a b
  | _,_ => false end.

Lemma re_eqb_eq r s : re_eqb r s = true -> r = s.
Proof.
  revert s; induction r; destruct s; cbn; try discriminate; auto.
  - intros H; apply N.eqb_eq in H; congruence.
  - intros H. destruct (re_eqb r1 s1) eqn:E; [|discriminate]. f_equal; auto.
  - intros H. destruct (re_eqb r1 s1) eqn:E; [|discriminate]. f_equal; auto.
  - intros H; f_equal; auto.
Qed.

Definition cat r s := match r,s with Emp,_ | _,Emp => Emp | Eps,x | x,Eps => x | _,_ => Cat r s end.
(* alternation modulo associativity, commutativity and idempotence: the alternatives of both
   sides are collected, sorted by a fixed order and deduplicated. This keeps the set of iterated
   derivatives finite (Brzozowski). *)
Definition re_rank (r:re) : N := match r with Emp => 0 | Eps => 1 | At _ => 2 | Cat _ _ => 3 | Alt _ _ => 4 | Star _ => 5 end.
Fixpoint re_ltb (r s:re) : bool :=
  match r, s with
  | At a, At b => N.ltb a b
  | Cat a b, Cat c d | Alt a b, Alt c d => if re_ltb a c then true else if re_eqb a c then re_ltb b d else false
  | Star a, Star b => re_ltb a b
  | _, _ => N.ltb (re_rank r) (re_rank s)
  end.
Fixpoint alts (r:re) : list re := match r with Alt a b => alts a ++ alts b | Emp => [] | _ => [r] end.
Fixpoint ins_re (r:re) (l:list re) : list re :=
  match l with
  | [] => [r]
  | x :: l' => if re_eqb r x then l else if re_ltb r x then r :: l else x :: ins_re r l'
  end.
Fixpoint build_alt (l:list re) : re :=
  match l with [] => Emp | [x] => x | x :: l' => Alt x (build_alt l') end.
Definition alt r s := build_alt (fold_right ins_re [] (alts r ++ alts s)).

Fixpoint nullable r := match r with
  | Emp => false | Eps => true | At _ => false
  | Cat r s => nullable r && nullable s | Alt r s => nullable r || nullable s | Star _ => true end.

Section Sem.
Variable tbl : N -> N -> bool.

Inductive mt : re -> list N -> Prop :=
| MEps : mt Eps []
| MAt a c : tbl a c = true -> mt (At a) [c]
| MCat r s u v : mt r u -> mt s v -> mt (Cat r s) (u ++ v)
| MAltL r s u : mt r u -> mt (Alt r s) u
| MAltR r s u : mt s u -> mt (Alt r s) u
| MStar0 r : mt (Star r) []
| MStarS r c u v : mt r (c :: u) -> mt (Star r) v -> mt (Star r) ((c :: u) ++ v).

Fixpoint deriv (c:N) r := match r with
  | Emp | Eps => Emp
  | At a => if tbl a c then Eps else Emp
  | Cat r s => if nullable r then alt (cat (deriv c r) s) (deriv c s) else cat (deriv c r) s
  | Alt r s => alt (deriv c r) (deriv c s)
  | Star r => cat (deriv c r) (Star r) end.

Lemma nullable_spec r : nullable r = true <-> mt r [].
Proof.
  induction r; cbn.
  - split; [discriminate | inversion 1].
  - split; [constructor | auto].
  - split; [discriminate | inversion 1].
  - rewrite andb_true_iff, IHr1, IHr2. split.
    + intros [A B]. change (@nil N) with (@nil N ++ []). constructor; auto.
    + inversion 1; subst.
      match goal with H : _ ++ _ = [] |- _ => apply app_eq_nil in H as [-> ->] end. auto.
  - rewrite orb_true_iff, IHr1, IHr2. split.
    + intros [A|B]; [apply MAltL | apply MAltR]; auto.
    + inversion 1; subst; auto.
  - split; [constructor | auto].
Qed.

Lemma mt_cat r s w : mt (cat r s) w <-> mt (Cat r s) w.
Proof.
  split.
  - destruct r, s; cbn; intros H; try (inversion H; fail);
      try (rewrite <- (app_nil_r w); constructor; [assumption | constructor]; fail);
      try (change w with ([] ++ w); constructor; [constructor | assumption]; fail);
      assumption.
  - intros H; inversion H; subst; clear H.
    destruct r, s; cbn; try (inversion H2; fail); try (inversion H4; fail);
      try (constructor; assumption);
      try (inversion H2; subst; cbn; assumption);
      try (inversion H4; subst; rewrite app_nil_r; assumption).
Qed.

Lemma ins_re_in r l y : In y (ins_re r l) <-> y = r \/ In y l.
Proof.
  induction l as [|x l IH]; cbn [ins_re In]; [intuition congruence|].
  destruct (re_eqb r x) eqn:E.
  - apply re_eqb_eq in E; subst. cbn [In]. intuition congruence.
  - destruct (re_ltb r x); cbn [In]; [intuition congruence|]. rewrite IH. intuition congruence.
Qed.
Lemma sort_re_in l y : In y (fold_right ins_re [] l) <-> In y l.
Proof. induction l as [|x l IH]; cbn [fold_right In]; [tauto|]. rewrite ins_re_in, IH. intuition congruence. Qed.
Lemma mt_build_alt l w : mt (build_alt l) w <-> exists x, In x l /\ mt x w.
Proof.
  induction l as [|x l IH].
  - cbn. split; [inversion 1 | intros (x & [] & _)].
  - destruct l as [|y l'].
    + cbn [build_alt]. split; [intros H; exists x; cbn; auto | intros (z & [<-|[]] & H); exact H].
    + change (build_alt (x :: y :: l')) with (Alt x (build_alt (y :: l'))). split.
      * intros H. inversion H; subst.
        -- exists x. cbn; auto.
        -- apply IH in H3 as (z & Hz & Hm). exists z. split; [right; exact Hz|exact Hm].
      * intros (z & [<-|Hz] & Hm); [apply MAltL; exact Hm|]. apply MAltR. apply IH. exists z. auto.
Qed.
Lemma mt_alts r w : (exists x, In x (alts r) /\ mt x w) <-> mt r w.
Proof.
  induction r as [| |a|r1 IH1 r2 IH2|r1 IH1 r2 IH2|r IH]; cbn [alts];
    try (split; [intros (x & [<-|[]] & H); exact H | intros H; eexists; split; [left; reflexivity|exact H]]).
  - split; [intros (x & [] & _) | inversion 1].
  - split.
    + intros (x & Hx & Hm). apply in_app_iff in Hx as [Hx|Hx].
      * apply MAltL. apply IH1. eauto.
      * apply MAltR. apply IH2. eauto.
    + intros H. inversion H; subst.
      * apply IH1 in H3 as (x & Hx & Hm). exists x. split; [apply in_app_iff; auto|exact Hm].
      * apply IH2 in H3 as (x & Hx & Hm). exists x. split; [apply in_app_iff; auto|exact Hm].
Qed.
Lemma mt_alt r s w : mt (alt r s) w <-> mt (Alt r s) w.
Proof.
  unfold alt. rewrite mt_build_alt. split.
  - intros (x & Hx & Hm). rewrite sort_re_in in Hx. apply in_app_iff in Hx as [Hx|Hx].
    + apply MAltL. apply mt_alts. eauto.
    + apply MAltR. apply mt_alts. eauto.
  - intros H. inversion H; subst.
    + apply mt_alts in H3 as (x & Hx & Hm). exists x. split; [rewrite sort_re_in; apply in_app_iff; auto|exact Hm].
    + apply mt_alts in H3 as (x & Hx & Hm). exists x. split; [rewrite sort_re_in; apply in_app_iff; auto|exact Hm].
Qed.

Lemma mt_Cat_inv r s w : mt (Cat r s) w -> exists u v, w = u ++ v /\ mt r u /\ mt s v.
Proof. inversion 1; subst; eauto. Qed.
Lemma mt_Alt_inv r s w : mt (Alt r s) w -> mt r w \/ mt s w.
Proof. inversion 1; subst; auto. Qed.
Lemma mt_Star_cons_inv r c w : mt (Star r) (c :: w) -> exists u v, w = u ++ v /\ mt r (c :: u) /\ mt (Star r) v.
Proof.
  inversion 1; subst. eauto.
Qed.
Lemma mt_At_inv a w : mt (At a) w -> exists c, w = [c] /\ tbl a c = true.
Proof. inversion 1; subst; eauto. Qed.
Lemma mt_Emp_inv w : ~ mt Emp w.
Proof. inversion 1. Qed.
Lemma mt_Eps_inv w : mt Eps w -> w = [].
Proof. inversion 1; auto. Qed.
Lemma mt_Cat_cons r s c u v : mt r (c :: u) -> mt s v -> mt (Cat r s) (c :: u ++ v).
Proof. intros. change (c :: u ++ v) with ((c :: u) ++ v). constructor; auto. Qed.

Lemma deriv_spec r : forall c w, mt (deriv c r) w <-> mt r (c :: w).
Proof.
  induction r as [| |a|r1 IH1 r2 IH2|r1 IH1 r2 IH2|r IH]; intros c w; cbn [deriv].
  - split; intros H; exfalso; eapply mt_Emp_inv; eauto.
  - split; intros H; [exfalso; eapply mt_Emp_inv; eauto | apply mt_Eps_inv in H; discriminate].
  - destruct (tbl a c) eqn:E.
    + split; intros H.
      * apply mt_Eps_inv in H; subst. constructor; auto.
      * apply mt_At_inv in H as (c' & Hw & _). inversion Hw; subst. constructor.
    + split; intros H.
      * exfalso; eapply mt_Emp_inv; eauto.
      * apply mt_At_inv in H as (c' & Hw & Ht). inversion Hw; subst. congruence.
  - assert (L: mt (cat (deriv c r1) r2) w <-> exists u v, w = u ++ v /\ mt r1 (c::u) /\ mt r2 v).
    { rewrite mt_cat. split.
      - intros H. apply mt_Cat_inv in H as (u & v & -> & A & B). apply IH1 in A. eauto.
      - intros (u & v & -> & A & B). constructor; auto. apply IH1; auto. }
    destruct (nullable r1) eqn:Nl.
    + rewrite mt_alt. split.
      * intros H. apply mt_Alt_inv in H as [H|H].
        -- apply L in H as (u & v & -> & A & B). apply mt_Cat_cons; auto.
        -- apply IH2 in H. change (c::w) with ([] ++ c :: w). constructor; auto.
           apply nullable_spec; auto.
      * intros H. apply mt_Cat_inv in H as (u & v & E & A & B). destruct u as [|c' u].
        -- cbn in E; subst. apply MAltR. apply IH2; auto.
        -- cbn in E. inversion E; subst. apply MAltL. apply L. eauto.
    + rewrite L. split.
      * intros (u & v & -> & A & B). apply mt_Cat_cons; auto.
      * intros H. apply mt_Cat_inv in H as (u & v & E & A & B). destruct u as [|c' u].
        -- apply nullable_spec in A. congruence.
        -- cbn in E; inversion E; subst. eauto.
  - rewrite mt_alt. split; intros H; apply mt_Alt_inv in H as [H|H];
      solve [apply MAltL; apply IH1; auto | apply MAltR; apply IH2; auto].
  - rewrite mt_cat. split; intros H.
    + apply mt_Cat_inv in H as (u & v & -> & A & B). apply IH in A.
      change (c :: u ++ v) with ((c::u) ++ v). constructor; auto.
    + apply mt_Star_cons_inv in H as (u & v & -> & A & B). constructor; auto. apply IH; auto.
Qed.


(* boolean matcher by derivatives *)
Fixpoint deriv_w (w:list N) (r:re) : re := match w with [] => r | c::w => deriv_w w (deriv c r) end.
Definition matchb (r:re) (w:list N) : bool := nullable (deriv_w w r).

Lemma matchb_spec r w : matchb r w = true <-> mt r w.
Proof.
  unfold matchb. revert r. induction w as [|c w IH]; intros r; cbn [deriv_w].
  - apply nullable_spec.
  - rewrite IH. apply deriv_spec.
Qed.
End Sem.
