(* HistoryProofs.v — from single operations to call histories: totality (no panic) of every
   history of valid operations, token streams as iterated abstract scans, peek_n as iterated
   next, independence of the past after a reset, isolation of iterators. *)
From Coq Require Import Sorted.
From Scnr Require Import Base Automaton FindFrom Iter IterRun IterProofs.

Lemma drop_bytes_diff : forall input p b s s',
  drop_bytes p input = Some s -> drop_bytes b input = Some s' -> p <= b -> drop_bytes (b - p) s = Some s'.
Proof.
  induction input as [|c input IH]; intros p b s s' Hp Hb Hle.
  - destruct p; cbn in Hp; [|discriminate]. inversion Hp; subst. rewrite Nat.sub_0_r. exact Hb.
  - destruct p as [|p'].
    + cbn in Hp. inversion Hp; subst. rewrite Nat.sub_0_r. exact Hb.
    + cbn [drop_bytes] in Hp. destruct (len_utf8 c <=? S p') eqn:E; [|discriminate]. apply Nat.leb_le in E.
      destruct b as [|b']; [lia|]. cbn [drop_bytes] in Hb.
      assert (E2 : len_utf8 c <=? S b' = true) by (apply Nat.leb_le; lia). rewrite E2 in Hb.
      replace (S b' - S p') with ((S b' - len_utf8 c) - (S p' - len_utf8 c)) by lia.
      eapply IH; eauto. lia.
Qed.

Section H.
Variable sc : scanner.
Variable nmodes : nat.
Hypothesis Hsc : sc_ok sc nmodes.

Notation RInv := (RInv nmodes).

(* ---------- peek_n is iterated next ---------- *)
(* what n calls of next would return, cut after the first token that has a transition in the
   mode the peek started in (that token is included, its target mode reported) *)
Fixpoint peek_spec (n:nat) (st:iter) (acc:list tokn) : res (list tokn * option nat) :=
  match n with
  | 0 => Ok (acc, None)
  | S n' =>
      match next_match sc st with
      | Panic => Panic
      | Ok (_, None) => Ok (acc, None)
      | Ok (st', Some tok) =>
          match sc_trans sc (it_mode st) with
          | Panic => Panic
          | Ok tr =>
              match has_transition tr (fst (fst tok)) with
              | Some m' => Ok (acc ++ [tok], Some m')
              | None => peek_spec n' st' (acc ++ [tok])
              end
          end
      end
  end.

(* peek_loop reads only the mode and the offset of the state it is given *)
Lemma peek_loop_ext : forall n st1 st2 rest rel acc,
  it_mode st1 = it_mode st2 -> it_offset st1 = it_offset st2 ->
  peek_loop sc n st1 rest rel acc = peek_loop sc n st2 rest rel acc.
Proof.
  induction n as [|n IH]; intros st1 st2 rest rel acc Hm Ho; [reflexivity|].
  cbn [peek_loop]. rewrite Hm, Ho.
  destruct (peek_find sc (S (length rest)) (it_mode st2) rest rel) as [[[[[[t a] b]|] r1] l1]|]; try reflexivity.
  destruct (if b =? a then (r1, l1) else skip_to b r1 l1) as [r2 l2].
  unfold mode_has_transition. destruct (sc_trans sc (it_mode st2)); [|reflexivity].
  destruct (has_transition x t); [reflexivity|]. apply IH; assumption.
Qed.

Theorem peek_loop_is_iterated_next : forall n st acc, RInv st ->
  peek_loop sc n st (it_rest st) (it_rel st) acc = peek_spec n st acc.
Proof.
  induction n as [|n IH]; intros st acc HI; [reflexivity|].
  pose proof (peek_loop_next sc nmodes Hsc n st acc HI) as H.
  pose proof (next_match_spec sc nmodes Hsc st HI) as Hn.
  cbn [peek_spec].
  destruct (next_match sc st) as [[st' [tok|]]|] eqn:En; [| |destruct H].
  - destruct H as (tr & Etr & H). rewrite Etr.
    destruct (has_transition tr (fst (fst tok))) as [m'|].
    + destruct H as (H & _). exact H.
    + destruct H as (Hm & Ho & H). rewrite H.
      destruct (anext sc _ _ _ _) as [[[[m2 p2] s2] tk2]|]; [|destruct Hn].
      destruct Hn as (st2 & E2 & HI2 & _). inversion E2; subst st2.
      rewrite (peek_loop_ext n st st' _ _ _ (eq_sym Hm) (eq_sym Ho)). apply IH. exact HI2.
  - exact H.
Qed.

Lemma peek_spec_total : forall n st acc, RInv st -> exists r, peek_spec n st acc = Ok r.
Proof.
  destruct Hsc as (_ & _ & Htr).
  induction n as [|n IH]; intros st acc HI; [eexists; reflexivity|].
  pose proof (next_match_spec sc nmodes Hsc st HI) as Hn. cbn [peek_spec].
  destruct (anext sc _ _ _ _) as [[[[m2 p2] s2] tk2]|]; [|destruct Hn].
  destruct Hn as (st2 & E2 & HI2 & _). rewrite E2. destruct tk2 as [tok|]; [|eexists; reflexivity].
  destruct HI as (_ & _ & Hm). destruct (Htr _ Hm) as (tr & Etr & _). rewrite Etr.
  destruct (has_transition tr (fst (fst tok))); [eexists; reflexivity|]. apply IH. exact HI2.
Qed.

(* ---------- histories ---------- *)
Fixpoint run_history (st:iter) (ops:list op) : option (iter * list (list N)) :=
  match ops with
  | [] => Some (st, [])
  | o :: ops' =>
      match step_op sc st o with
      | None => None
      | Some (st', out) =>
          match run_history st' ops' with
          | None => None
          | Some (st'', outs) => Some (st'', out :: outs)
          end
      end
  end.

(* an operation is valid for an input: set_offset on a character boundary or beyond the end
   (it is clamped), set_mode to an existing mode; every other call is unrestricted *)
Definition op_valid (input:list N) (o:op) : Prop :=
  match o with
  | OSetOffset off => exists r, drop_bytes (Nat.min off (blen input)) input = Some r
  | OSetMode m => m < nmodes
  | _ => True
  end.

Lemma step_op_total st o : RInv st -> op_valid (it_input st) o ->
  exists st' out, step_op sc st o = Some (st', out) /\ RInv st' /\ it_input st' = it_input st.
Proof.
  intros HI Hv. destruct o; cbn [step_op].
  - pose proof (next_match_spec sc nmodes Hsc st HI) as Hn.
    destruct (anext sc _ _ _ _) as [[[[m2 p2] s2] tk2]|]; [|destruct Hn].
    destruct Hn as (st2 & E2 & HI2 & _ & _ & _ & Hin). rewrite E2. destruct tk2; eauto.
  - pose proof (next_match_spec sc nmodes Hsc st HI) as Hn.
    destruct (anext sc _ _ _ _) as [[[[m2 p2] s2] tk2]|]; [|destruct Hn].
    destruct Hn as (st2 & E2 & HI2 & _ & _ & _ & Hin). rewrite E2. destruct tk2 as [[[t a] b]|]; [|eauto].
    destruct (position_total nmodes st2 a HI2) as (l1 & c1 & P1). destruct (position_total nmodes st2 b HI2) as (l2 & c2 & P2).
    rewrite P1, P2. eauto.
  - unfold peek_n. rewrite (peek_loop_is_iterated_next n st [] HI).
    destruct (peek_spec_total n st [] HI) as ([ms [m|]] & E); rewrite E.
    + eauto.
    + destruct (length ms =? n); [eauto|]. destruct ms; eauto.
  - destruct Hv as (r & Hr). destruct (set_offset_spec nmodes st o r HI Hr) as (st' & E & HI' & _ & _ & _ & Hin & _).
    rewrite E. eauto.
  - destruct (advance_to_total nmodes st p HI) as (st' & r & E & HI' & _ & Hin & _). rewrite E. eauto.
  - do 2 eexists. split; [reflexivity|]. split; [|reflexivity].
    destruct HI as (A & B & C). unfold IterProofs.RInv, apos. cbn. auto.
  - destruct (position_total nmodes st o HI) as (l & c & P). rewrite P. eauto.
  - eauto.
  - eauto.
Qed.

Theorem history_total : forall ops st, RInv st -> Forall (op_valid (it_input st)) ops ->
  exists st' outs, run_history st ops = Some (st', outs) /\ RInv st' /\ it_input st' = it_input st.
Proof.
  induction ops as [|o ops IH]; intros st HI Hv; cbn [run_history]; [eauto|].
  inversion Hv; subst.
  destruct (step_op_total st o HI H1) as (st1 & out & E & HI1 & Hin1). rewrite E.
  rewrite <- Hin1 in H2. destruct (IH st1 HI1 H2) as (st2 & outs & E2 & HI2 & Hin2). rewrite E2.
  do 2 eexists. split; [reflexivity|]. split; [exact HI2|congruence].
Qed.

Lemma run_ops_history : forall ops st st' outs, run_history st ops = Some (st', outs) -> run_ops sc st ops = outs.
Proof.
  induction ops as [|o ops IH]; intros st st' outs H; cbn in *; [inversion H; reflexivity|].
  destruct (step_op sc st o) as [[st1 out]|]; [|discriminate].
  destruct (run_history st1 ops) as [[st2 outs2]|] eqn:E; [|discriminate]. inversion H; subst.
  f_equal. eapply IH; eauto.
Qed.

(* ---------- token streams are iterated abstract scans ---------- *)
Fixpoint tokens (k:nat) (st:iter) : list tokn :=
  match k with
  | 0 => []
  | S k' => match next_match sc st with Ok (st', Some tok) => tok :: tokens k' st' | _ => [] end
  end.
Fixpoint ascan (k:nat) (m p:nat) (s:list N) : list tokn :=
  match k with
  | 0 => []
  | S k' => match anext sc (S (length s)) m p s with
            | Ok (m', p', s', Some tok) => tok :: ascan k' m' p' s'
            | _ => []
            end
  end.

Theorem tokens_ascan : forall k st, RInv st -> tokens k st = ascan k (it_mode st) (apos st) (it_rest st).
Proof.
  induction k as [|k IH]; intros st HI; [reflexivity|]. cbn [tokens ascan].
  pose proof (next_match_spec sc nmodes Hsc st HI) as Hn.
  destruct (anext sc _ _ _ _) as [[[[m2 p2] s2] tk2]|]; [|destruct Hn].
  destruct Hn as (st2 & E2 & HI2 & Hm & Hp & Hr & _). rewrite E2. destruct tk2; [|reflexivity].
  f_equal. rewrite (IH st2 HI2). congruence.
Qed.

(* two states with the same mode, cursor, suffix yield the same tokens: the result does not
   depend on what was scanned before *)
Definition same_cursor (st1 st2:iter) : Prop :=
  it_mode st1 = it_mode st2 /\ apos st1 = apos st2 /\ it_rest st1 = it_rest st2.

Corollary tokens_same_cursor k st1 st2 : RInv st1 -> RInv st2 -> same_cursor st1 st2 -> tokens k st1 = tokens k st2.
Proof. intros H1 H2 (A & B & C). rewrite !tokens_ascan by assumption. congruence. Qed.

(* every token of a stream is well-formed and the stream is ordered *)
Lemma ascan_wf : forall k m p s input, m < nmodes -> drop_bytes p input = Some s ->
  Forall (fun tok => let '(t, a, b) := tok in p <= a /\ a < b /\ b <= blen input /\
                      (exists sa, drop_bytes a input = Some sa) /\ (exists sb, drop_bytes b input = Some sb))
         (ascan k m p s) /\
  StronglySorted (fun x y => snd x <= snd (fst y)) (ascan k m p s) /\
  length (ascan k m p s) <= length s.
Proof.
  destruct Hsc as (_ & _ & Htr).
  induction k as [|k IH]; intros m p s input Hm Hd; cbn [ascan]; [repeat split; [constructor|constructor|cbn; lia]|].
  destruct (anext sc (S (length s)) m p s) as [[[[m' p'] s'] [[[t a] b]|]]|] eqn:Ea;
    try (repeat split; [constructor|constructor|cbn; lia]).
  destruct (anext_token sc nmodes Hsc _ _ _ _ _ _ _ _ _ _ _ Hd Ea) as (A1 & A2 & A3 & A4 & (sa & A5 & _) & (tr & Etr & Em)).
  assert (Hm' : m' < nmodes).
  { destruct (Htr _ Hm) as (tr2 & Etr2 & Ht). rewrite Etr in Etr2. inversion Etr2; subst tr2.
    subst m'. destruct (has_transition tr t) eqn:Eh; [eapply Ht; eauto|exact Hm]. }
  subst p'. destruct (IH m' b s' input Hm' A4) as (F & S & L).
  assert (Hb : b <= blen input) by (apply drop_bytes_blen in A4; lia).
  split; [|split].
  - constructor; [repeat split; eauto; lia|].
    eapply Forall_impl; [|exact F]. intros [[t2 a2] b2] (B1 & B2 & B3 & B4 & B5). repeat split; auto; lia.
  - constructor; [exact S|]. eapply Forall_impl; [|exact F]. intros [[t2 a2] b2] (B1 & _). cbn. lia.
  - (* the token consumes at least one character *)
    assert (length s' < length s).
    { apply drop_bytes_blen in Hd as Hd1.
      assert (Hds : drop_bytes (b - p) s = Some s') by (eapply drop_bytes_diff; eauto; lia).
      eapply drop_bytes_pos_consumes; [|exact Hds]. lia. }
    cbn [length]. lia.
Qed.
End H.

(* ---------- isolation: iterators share nothing ---------- *)
(* A world is a family of iterators (each with its own scanner clone and input); operations
   name the iterator they act on. The outputs seen on iterator i are those of i's own
   operations run alone: other iterators (live, interleaved, partially consumed, dropped) and
   their peeks and set_mode calls do not matter. *)
Section World.
Variable sc : nat -> scanner.          (* the scanner clone of iterator i *)

Definition world := nat -> iter.
Definition upd (w:world) (i:nat) (st:iter) : world := fun j => if j =? i then st else w j.

(* an iterator whose operation panicked is dead: its later operations are not executed *)
Fixpoint run_world (w:world) (dead:list nat) (ops:list (nat * op)) : list (nat * list N) :=
  match ops with
  | [] => []
  | (i, o) :: ops' =>
      if natmem i dead then run_world w dead ops' else
      match step_op (sc i) (w i) o with
      | None => (i, [PANIC_CODE]) :: run_world w (i :: dead) ops'
      | Some (st', out) => (i, out) :: run_world (upd w i st') dead ops'
      end
  end.

Definition proj (i:nat) (ops:list (nat * op)) : list op := map snd (filter (fun e => fst e =? i) ops).
Definition outs_of (i:nat) (l:list (nat * list N)) : list (list N) := map snd (filter (fun e => fst e =? i) l).

Theorem world_isolation : forall ops w dead i,
  outs_of i (run_world w dead ops) = if natmem i dead then [] else run_ops (sc i) (w i) (proj i ops).
Proof.
  induction ops as [|[j o] ops IH]; intros w dead i.
  - cbn. destruct (natmem i dead); reflexivity.
  - cbn [run_world]. destruct (natmem j dead) eqn:Ejd.
    + rewrite IH. destruct (natmem i dead) eqn:Eid; [reflexivity|].
      unfold proj. cbn [filter fst]. destruct (j =? i) eqn:Eji; [|reflexivity].
      apply Nat.eqb_eq in Eji. subst j. congruence.
    + destruct (step_op (sc j) (w j) o) as [[st' out]|] eqn:Es.
      * unfold outs_of. cbn [filter fst]. destruct (j =? i) eqn:Eji.
        -- apply Nat.eqb_eq in Eji. subst j. rewrite Ejd. cbn [map snd].
           change (map snd (filter (fun e : nat * list N => fst e =? i) (run_world (upd w i st') dead ops))) with (outs_of i (run_world (upd w i st') dead ops)).
           rewrite IH, Ejd. unfold proj. cbn [filter fst]. rewrite Nat.eqb_refl. cbn [map snd run_ops]. rewrite Es.
           unfold upd. rewrite Nat.eqb_refl. reflexivity.
        -- change (map snd (filter (fun e : nat * list N => fst e =? i) (run_world (upd w j st') dead ops))) with (outs_of i (run_world (upd w j st') dead ops)).
           rewrite IH. destruct (natmem i dead); [reflexivity|]. unfold proj. cbn [filter fst]. rewrite Eji.
           unfold upd. assert (E : i =? j = false) by (apply Nat.eqb_neq; apply Nat.eqb_neq in Eji; lia). rewrite E. reflexivity.
      * unfold outs_of. cbn [filter fst]. destruct (j =? i) eqn:Eji.
        -- apply Nat.eqb_eq in Eji. subst j. rewrite Ejd. cbn [map snd].
           change (map snd (filter (fun e : nat * list N => fst e =? i) (run_world w (i :: dead) ops))) with (outs_of i (run_world w (i :: dead) ops)).
           rewrite IH. unfold natmem at 1. cbn [existsb]. rewrite Nat.eqb_refl. cbn [orb].
           unfold proj. cbn [filter fst]. rewrite Nat.eqb_refl. cbn [map snd run_ops]. rewrite Es. reflexivity.
        -- change (map snd (filter (fun e : nat * list N => fst e =? i) (run_world w (j :: dead) ops))) with (outs_of i (run_world w (j :: dead) ops)).
           rewrite IH. unfold natmem at 1. cbn [existsb].
           assert (E : i =? j = false) by (apply Nat.eqb_neq; apply Nat.eqb_neq in Eji; lia). rewrite E. cbn [orb].
           fold (natmem i dead). destruct (natmem i dead); [reflexivity|]. unfold proj. cbn [filter fst]. rewrite Eji. reflexivity.
Qed.
End World.
