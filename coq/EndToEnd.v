(* EndToEnd.v — the capstone: a scanner compiled by the model of the implementation's pipeline
   (Thompson construction, multi-pattern NFA, closure construction, minimizer; lookaheads compiled
   separately) and driven by the model of the iterator produces, for EVERY history of operations,
   exactly the outputs of the iterator driven by the executable specification (best_cand over the
   patterns' regular expressions). No compiled automaton is mentioned in the conclusion's right-hand
   side: it only talks about the source patterns. *)
From Scnr Require Import Base Regex Automaton FindFrom FindFromProofs ModeProofs Spec SpecRun Iter IterRun
  RuleProofs SpecProofs SpecFirstProofs Nfa NfaProofs Minimizer MinimizerProofs Compile CompileProofs OkProofs ExtProofs.

(* ---------- source patterns and modes ---------- *)
Record src_pat := { s_tok : N; s_ast : ast; s_la : option (bool * ast) }.
Record src_mode := { s_pats : list src_pat; s_trans : list (N * nat) }.

Definition pats_of (ps:list src_pat) : list (N * ast) := map (fun p => (s_tok p, s_ast p)) ps.

(* the lookahead table of a compiled mode: one automaton per pattern that has a lookahead *)
Fixpoint build_las (ps:list src_pat) : option (list (N * (bool * dfa))) :=
  match ps with
  | [] => Some []
  | p :: ps' =>
      match build_las ps' with
      | None => None
      | Some L =>
          match s_la p with
          | None => Some L
          | Some (pos, a) =>
              match compile_la a with
              | Compiled D => Some ((s_tok p, (pos, D)) :: L)
              | _ => None
              end
          end
      end
  end.

Definition build_mode (m:src_mode) : option cmode :=
  match compile_mode (pats_of (s_pats m)), build_las (s_pats m) with
  | Compiled A, Some L => Some {| aut := {| main := A; las := L |}; mtrans := s_trans m |}
  | _, _ => None
  end.
Definition spec_mode (m:src_mode) : option smode :=
  match all_some (map (fun p => mk_spat (s_tok p) (s_ast p) (s_la p)) (s_pats m)) with
  | Some sps => Some {| sm_pats := sps; sm_trans := s_trans m |}
  | None => None
  end.

Definition build_scanner (l:list src_mode) : option (list cmode) := all_some (map build_mode l).
Definition spec_of_scanner (l:list src_mode) : option (list smode) := all_some (map spec_mode l).

(* the static conditions on a source mode: distinct token types (known finding D8 otherwise),
   no empty alternation (regex_syntax never produces one), and the group-id width of the
   minimizer suffices (StateGroupIDBase = u32) *)
Definition la_valid (p:src_pat) : bool :=
  match s_la p with
  | None => true
  | Some (_, a) => alts_nonempty a && la_width_ok a
  end.
Definition mode_valid (m:src_mode) : Prop :=
  NoDup (map s_tok (s_pats m))
  /\ (forall p, In p (s_pats m) -> alts_nonempty (s_ast p) = true /\ la_valid p = true)
  /\ mode_width_ok (pats_of (s_pats m)) = true.

(* ---------- small facts ---------- *)
Lemma all_some_forall2 {A B} (f:A -> option B) : forall l r, all_some (map f l) = Some r -> Forall2 (fun x y => f x = Some y) l r.
Proof.
  induction l as [|x l IH]; intros r E; cbn in E.
  - inversion E; constructor.
  - destruct (f x) as [y|] eqn:Ef; [|discriminate]. destruct (all_some (map f l)) as [r'|]; [|discriminate].
    inversion E; subst. constructor; auto.
Qed.
Lemma forall2_nth {A B} (R:A -> B -> Prop) l r : Forall2 R l r -> forall i,
  match nth_error l i, nth_error r i with
  | Some x, Some y => R x y
  | None, None => True
  | _, _ => False
  end.
Proof. induction 1 as [|x y l r Hxy H IH]; intros [|i]; cbn; auto. apply IH. Qed.
Lemma forall2_in_r {A B} (R:A -> B -> Prop) l r : Forall2 R l r -> forall y, In y r -> exists x, In x l /\ R x y.
Proof.
  induction 1 as [|x y l r Hxy H IH]; intros y0 Hin; [destruct Hin|].
  destruct Hin as [<-|Hin]; [exists x; split; [left; reflexivity|exact Hxy]|].
  destruct (IH _ Hin) as (x0 & H1 & H2). exists x0. split; [right; exact H1|exact H2].
Qed.

Lemma mk_spat_tok t a la sp : mk_spat t a la = Some sp -> sp_tok sp = t.
Proof.
  unfold mk_spat. destruct (core_of_ast a); [|discriminate]. destruct la as [[pos al]|].
  - destruct (core_of_ast al); [|discriminate]. intros E; inversion E; reflexivity.
  - intros E; inversion E; reflexivity.
Qed.
Lemma mk_spat_re t a la sp : mk_spat t a la = Some sp -> core_of_ast a = Some (sp_re sp).
Proof.
  unfold mk_spat. destruct (core_of_ast a); [|discriminate]. destruct la as [[pos al]|].
  - destruct (core_of_ast al); [|discriminate]. intros E; inversion E; reflexivity.
  - intros E; inversion E; reflexivity.
Qed.
Lemma mk_spat_la t a la sp : mk_spat t a la = Some sp ->
  match la with
  | None => sp_la sp = None
  | Some (pos, al) => exists rl, core_of_ast al = Some rl /\ sp_la sp = Some (pos, rl)
  end.
Proof.
  unfold mk_spat. destruct (core_of_ast a); [|discriminate]. destruct la as [[pos al]|].
  - destruct (core_of_ast al) as [rl|]; [|discriminate]. intros E; inversion E; subst. exists rl. auto.
  - intros E; inversion E; reflexivity.
Qed.

Definition mk (p:src_pat) : option spat := mk_spat (s_tok p) (s_ast p) (s_la p).

Lemma spec_toks ps sps : Forall2 (fun p sp => mk p = Some sp) ps sps -> map sp_tok sps = map s_tok ps.
Proof. induction 1 as [|p sp ps sps H _ IH]; cbn; [reflexivity|]. rewrite IH, (mk_spat_tok _ _ _ _ H). reflexivity. Qed.
Lemma spec_rs ps sps : Forall2 (fun p sp => mk p = Some sp) ps sps ->
  CompileProofs.rs_of (pats_of ps) = Some (SpecProofs.rs_of sps).
Proof.
  induction 1 as [|p sp ps sps H _ IH]; cbn; [reflexivity|].
  rewrite (mk_spat_re _ _ _ _ H). unfold pats_of in IH. rewrite IH. rewrite (mk_spat_tok _ _ _ _ H). reflexivity.
Qed.

(* ---------- terminal_ids of a compiled mode are the token types in pattern order ---------- *)
Lemma minimize_tids g A B : minimize g A = Some B -> tids B = tids A.
Proof.
  unfold minimize, minimize_fuel. destruct (wf_min A); [|discriminate].
  destruct (refine_loop _ _ _ _); [|discriminate]. intros E; inversion E; reflexivity.
Qed.
Lemma mp_build_from_toks : forall l next, map fst (mp_build_from next l) = map fst l.
Proof. induction l as [|[t n] l IH]; intros next; cbn; [reflexivity|]. rewrite IH. reflexivity. Qed.
Lemma nfas_of_toks : forall pats l, nfas_of pats = NBuilt l -> map fst l = map fst pats.
Proof.
  induction pats as [|[t a] ps IH]; intros l E; cbn in E; [inversion E; reflexivity|].
  destruct (try_from_ast a); try discriminate. destruct (nfas_of ps) as [l'| |]; try discriminate.
  inversion E; subst. cbn. rewrite (IH l' eq_refl). reflexivity.
Qed.
Theorem compile_mode_tids_eq pats A : compile_mode pats = Compiled A -> tids A = map fst pats.
Proof.
  intros HA. apply compile_mode_inv in HA as (A0 & E0 & Em). rewrite (minimize_tids _ _ _ Em).
  apply compile_mode_unmin_inv in E0 as (l & El & EA).
  destruct (compile_mp_facts (mp_build l) A0 (mp_build_wf l (nfas_of_wf pats l El)) EA) as (_ & _ & Ht & _).
  rewrite Ht. unfold mp_build. rewrite mp_build_from_toks. apply nfas_of_toks. exact El.
Qed.

(* ---------- the lookahead table ---------- *)
Lemma build_las_keys : forall ps L, build_las ps = Some L -> forall t v, In (t, v) L -> In t (map s_tok ps).
Proof.
  induction ps as [|p ps IH]; intros L E t v Hin; cbn in E.
  - inversion E; subst. destruct Hin.
  - destruct (build_las ps) as [L'|]; [|discriminate]. destruct (s_la p) as [[pos a]|].
    + destruct (compile_la a) as [D| |]; try discriminate. inversion E; subst.
      destruct Hin as [Hin|Hin]; [inversion Hin; subst; left; reflexivity|right; eapply IH; eauto].
    + inversion E; subst. right. eapply IH; eauto.
Qed.
Lemma nassoc_notin {A} t (L:list (N * A)) : (forall v, ~ In (t, v) L) -> nassoc t L = None.
Proof. intros H. destruct (nassoc t L) as [v|] eqn:E; [|reflexivity]. exfalso. apply (H v). apply nassoc_in. exact E. Qed.
Lemma build_las_spec : forall ps L, build_las ps = Some L -> NoDup (map s_tok ps) -> forall p, In p ps ->
  match s_la p with
  | None => nassoc (s_tok p) L = None
  | Some (pos, a) => exists D, compile_la a = Compiled D /\ nassoc (s_tok p) L = Some (pos, D)
  end.
Proof.
  induction ps as [|p0 ps IH]; intros L E Hnd p Hin; [destruct Hin|]. cbn in E.
  destruct (build_las ps) as [L'|] eqn:EL; [|discriminate]. cbn in Hnd. inversion Hnd as [|x xs Hnot Hnd']; subst.
  destruct Hin as [<-|Hin].
  - (* the head pattern: its token type does not occur in L' *)
    assert (Hno : nassoc (s_tok p0) L' = None).
    { apply nassoc_notin. intros v Hv. apply Hnot. eapply build_las_keys; eauto. }
    destruct (s_la p0) as [[pos a]|].
    + destruct (compile_la a) as [D| |] eqn:ED; try discriminate. inversion E; subst.
      exists D. split; [reflexivity|]. cbn. rewrite N.eqb_refl. reflexivity.
    + inversion E; subst. exact Hno.
  - (* a later pattern: its token type differs from the head's *)
    assert (Hne : s_tok p <> s_tok p0).
    { intros Heq. apply Hnot. rewrite <- Heq. apply in_map. exact Hin. }
    specialize (IH L' eq_refl Hnd' p Hin).
    destruct (s_la p0) as [[pos0 a0]|].
    + destruct (compile_la a0) as [D0| |]; try discriminate. inversion E; subst.
      cbn [nassoc]. apply N.eqb_neq in Hne. rewrite Hne. exact IH.
    + inversion E; subst. exact IH.
Qed.

Lemma build_las_ok : forall ps L, build_las ps = Some L -> forall t pos D, In (t, (pos, D)) L -> dfa_ok D.
Proof.
  induction ps as [|p ps IH]; intros L E t pos D Hin; cbn in E.
  - inversion E; subst. destruct Hin.
  - destruct (build_las ps) as [L'|]; [|discriminate]. destruct (s_la p) as [[pos0 a]|].
    + destruct (compile_la a) as [D0| |] eqn:ED; try discriminate. inversion E; subst.
      destruct Hin as [Hin|Hin]; [inversion Hin; subst; eapply compile_la_dfa_ok; eauto|eapply IH; eauto].
    + inversion E; subst. eapply IH; eauto.
Qed.
(* every accepting token type of a built mode is listed in terminal_ids: priority_of never unwraps None *)
Theorem build_mode_ok m cm : build_mode m = Some cm -> mode_ok (aut cm).
Proof.
  unfold build_mode. destruct (compile_mode (pats_of (s_pats m))) as [A| |] eqn:EA; try discriminate.
  destruct (build_las (s_pats m)) as [L|] eqn:EL; [|discriminate]. intros E; inversion E; subst cm. cbn [aut].
  split; cbn [main las].
  - eapply compile_mode_dfa_ok; eauto.
  - intros t pos D Hn. apply nassoc_in in Hn. eapply build_las_ok; eauto.
Qed.

(* ---------- one mode ---------- *)
Section OneMode.
Variable tbl : N -> N -> bool.
Variable m : src_mode.
Variable cm : cmode.
Variable sm : smode.
Hypothesis Hb : build_mode m = Some cm.
Hypothesis Hs : spec_mode m = Some sm.
Hypothesis Hv : mode_valid m.

Theorem compiled_find_is_specification s : find_mode tbl (aut cm) s = Ok (best_cand tbl (sm_pats sm) s).
Proof.
  pose proof (build_mode_ok m cm Hb) as Hok.
  unfold build_mode in Hb. destruct (compile_mode (pats_of (s_pats m))) as [A| |] eqn:EA; try discriminate.
  destruct (build_las (s_pats m)) as [L|] eqn:EL; [|discriminate]. inversion Hb; subst cm. clear Hb. cbn [aut] in *.
  unfold spec_mode in Hs. destruct (all_some _) as [sps|] eqn:Es; [|discriminate]. inversion Hs; subst sm. clear Hs. cbn [sm_pats].
  apply all_some_forall2 in Es. fold mk in Es.
  destruct Hv as (Hnd & Hp & Hw).
  apply (find_mode_eq_best_cand_la tbl tbl {| main := A; las := L |} sps).
  - exact Hok.
  - cbn [main]. rewrite (compile_mode_tids_eq _ _ EA), (spec_toks _ _ Es). unfold pats_of. rewrite map_map. reflexivity.
  - rewrite (spec_toks _ _ Es). exact Hnd.
  - cbn [main]. apply (compile_mode_correct tbl (pats_of (s_pats m)) A); auto.
    + intros t a Hin. unfold pats_of in Hin. apply in_map_iff in Hin as (p & E & Hin). inversion E; subst. apply Hp; exact Hin.
    + apply spec_rs. exact Es.
  - cbn [las]. intros sp Hsp. destruct (forall2_in_r _ _ _ Es sp Hsp) as (p & Hin & Hmk).
    pose proof (build_las_spec _ _ EL Hnd p Hin) as HL. pose proof (mk_spat_la _ _ _ _ Hmk) as Hla.
    rewrite (mk_spat_tok _ _ _ _ Hmk). destruct (Hp p Hin) as (_ & Hlv). unfold la_valid in Hlv.
    destruct (s_la p) as [[pos a]|].
    + destruct Hla as (rl & Hrl & ->). destruct HL as (D & HD & Hn). exists D. split; [exact Hn|].
      apply andb_true_iff in Hlv as (Hne & Hwl). intros w Hnw. split.
      * intros (t' & Ha). apply (compile_la_correct tbl a D rl Hne Hwl HD Hrl w t' Hnw) in Ha as (_ & Hm). exact Hm.
      * intros Hm. exists 0%N. apply (compile_la_correct tbl a D rl Hne Hwl HD Hrl w 0%N Hnw). split; [reflexivity|exact Hm].
    + rewrite Hla. exact HL.
Qed.
End OneMode.

(* ---------- the whole scanner, every history ---------- *)
Section Whole.
Variable tbl : N -> N -> bool.
Variable l : list src_mode.
Variable cms : list cmode.
Variable sms : list smode.
Hypothesis Hb : build_scanner l = Some cms.
Hypothesis Hs : spec_of_scanner l = Some sms.
Hypothesis Hv : forall m, In m l -> mode_valid m.

Lemma modes_related i :
  match nth_error cms i, nth_error sms i with
  | Some cm, Some sm => exists m, In m l /\ build_mode m = Some cm /\ spec_mode m = Some sm
  | None, None => True
  | _, _ => False
  end.
Proof.
  pose proof (forall2_nth _ _ _ (all_some_forall2 _ _ _ Hb) i) as H1.
  pose proof (forall2_nth _ _ _ (all_some_forall2 _ _ _ Hs) i) as H2.
  destruct (nth_error l i) as [m|] eqn:El.
  - destruct (nth_error cms i) as [cm|]; [|destruct H1]. destruct (nth_error sms i) as [sm|]; [|destruct H2].
    exists m. split; [eapply nth_error_In; eauto|auto].
  - destruct (nth_error cms i); [destruct H1|]. destruct (nth_error sms i); [destruct H2|]. exact I.
Qed.

Lemma find_agrees i s : sc_find (impl_scanner tbl cms) i s = sc_find (spec_scanner tbl sms) i s.
Proof.
  cbn [sc_find impl_scanner spec_scanner]. pose proof (modes_related i) as H.
  destruct (nth_error cms i) as [cm|] eqn:Ec; destruct (nth_error sms i) as [sm|]; try destruct H; try reflexivity.
  destruct H as (Hin & Hbm & Hsm).
  apply (compiled_find_is_specification tbl x cm sm Hbm Hsm (Hv x Hin)).
Qed.
Lemma trans_agrees i : sc_trans (impl_scanner tbl cms) i = sc_trans (spec_scanner tbl sms) i.
Proof.
  cbn [sc_trans impl_scanner spec_scanner]. pose proof (modes_related i) as H.
  destruct (nth_error cms i) as [cm|]; destruct (nth_error sms i) as [sm|]; try destruct H; try reflexivity.
  destruct H as (_ & Hbm & Hsm). unfold build_mode in Hbm. unfold spec_mode in Hsm.
  destruct (compile_mode _); try discriminate. destruct (build_las _); try discriminate. destruct (all_some _); try discriminate.
  inversion Hbm; inversion Hsm; subst. reflexivity.
Qed.

(* every history: next, peek, advance_to, set_offset, mode switches, line/column queries *)
Theorem compiled_scanner_is_specification ops st :
  run_ops (impl_scanner tbl cms) st ops = run_ops (spec_scanner tbl sms) st ops.
Proof. apply run_ops_ext; [apply find_agrees|apply trans_agrees]. Qed.
End Whole.

(* ---------- non-vacuity: a two-mode scanner with a lookahead builds, is valid, and scans ---------- *)
Definition ex_src : list src_mode :=
  [ {| s_pats := [ {| s_tok := 3%N; s_ast := AConcat [ALeaf 0; ARep RZeroOrMore true (AGroup false (AAlt [ALeaf 1; ALeaf 2]))];
                      s_la := Some (false, ALeaf 0) |};
                   {| s_tok := 1%N; s_ast := AConcat [ALeaf 0; ALeaf 1]; s_la := None |} ];
       s_trans := [(1%N, 1)] |};
    {| s_pats := [ {| s_tok := 5%N; s_ast := ARep ROneOrMore true (ALeaf 2); s_la := Some (true, ALeaf 0) |} ];
       s_trans := [(5%N, 0)] |} ].
Lemma ex_src_valid : forall m, In m ex_src -> mode_valid m.
Proof.
  intros m [<-|[<-|[]]]; (split; [|split]).
  - cbn. repeat constructor; cbn; intuition discriminate.
  - intros p [<-|[<-|[]]]; vm_compute; auto.
  - vm_compute. reflexivity.
  - cbn. repeat constructor; cbn; intuition discriminate.
  - intros p [<-|[]]; vm_compute; auto.
  - vm_compute. reflexivity.
Qed.
Lemma ex_src_builds : exists cms sms, build_scanner ex_src = Some cms /\ spec_of_scanner ex_src = Some sms
  /\ forallb (fun cm => mode_okb (aut cm)) cms = true /\ length cms = 2.
Proof.
  destruct (build_scanner ex_src) as [cms|] eqn:E1; [|vm_compute in E1; discriminate].
  destruct (spec_of_scanner ex_src) as [sms|] eqn:E2; [|vm_compute in E2; discriminate].
  exists cms, sms. split; [reflexivity|]. split; [reflexivity|].
  vm_compute in E1. inversion E1; subst. vm_compute. auto.
Qed.

(* ---------- the hypotheses as one boolean check on a source scanner ---------- *)
Fixpoint nodupb (l:list N) : bool :=
  match l with [] => true | x :: r => negb (nmem x r) && nodupb r end.
Lemma nodupb_ok l : nodupb l = true -> NoDup l.
Proof.
  induction l as [|x r IH]; cbn; [constructor|]. intros H. apply andb_true_iff in H as (H1 & H2).
  constructor; [|apply IH; exact H2]. intros Hin. apply nmem_in in Hin. rewrite Hin in H1. discriminate.
Qed.
Definition mode_validb (m:src_mode) : bool :=
  nodupb (map s_tok (s_pats m))
  && forallb (fun p => alts_nonempty (s_ast p) && la_valid p) (s_pats m)
  && mode_width_ok (pats_of (s_pats m)).
Lemma mode_validb_ok m : mode_validb m = true -> mode_valid m.
Proof.
  unfold mode_validb, mode_valid. intros H. apply andb_true_iff in H as (H & H3). apply andb_true_iff in H as (H1 & H2).
  split; [apply nodupb_ok; exact H1|]. split; [|exact H3].
  intros p Hin. rewrite forallb_forall in H2. specialize (H2 p Hin). apply andb_true_iff in H2. exact H2.
Qed.

(* what a generated case file prints for one compiled mode: the automaton, terminal_ids, the
   lookahead automata by token type, the transitions *)
Definition enc_cmode (cm:cmode) : list (list N) * list N * list (N * (bool * list (list N))) * list (N * N) :=
  (enc_dfa (main (aut cm)), tids (main (aut cm)),
   map (fun e : N * (bool * dfa) => (fst e, (fst (snd e), enc_dfa (snd (snd e))))) (las (aut cm)),
   map (fun e : N * nat => (fst e, N.of_nat (snd e))) (mtrans cm)).

Definition capstone_check (l:list src_mode) :=
  match build_scanner l, spec_of_scanner l with
  | Some cms, Some sms =>
      if forallb mode_validb l then Some (map enc_cmode cms) else None
  | _, _ => None
  end.

(* a successful check: the source scanner compiles (in the model) to the automata whose encoding
   is printed, and those automata scan as the specification does, for every class predicate,
   every history and every iterator state *)
Theorem capstone_check_sound l e : capstone_check l = Some e ->
  exists cms sms, build_scanner l = Some cms /\ spec_of_scanner l = Some sms /\ e = map enc_cmode cms /\
    forall tbl ops st, run_ops (impl_scanner tbl cms) st ops = run_ops (spec_scanner tbl sms) st ops.
Proof.
  unfold capstone_check. destruct (build_scanner l) as [cms|] eqn:Eb; [|discriminate].
  destruct (spec_of_scanner l) as [sms|] eqn:Es; [|discriminate].
  destruct (forallb mode_validb l) eqn:Hv; [|discriminate].
  intros E; inversion E; subst e. rewrite forallb_forall in Hv.
  exists cms, sms. split; [reflexivity|]. split; [reflexivity|]. split; [reflexivity|].
  intros tbl ops st. apply (compiled_scanner_is_specification tbl l cms sms Eb Es).
  intros m Hin. apply mode_validb_ok. apply Hv. exact Hin.
Qed.
Lemma ex_src_check : exists e, capstone_check ex_src = Some e /\ length e = 2.
Proof. destruct (capstone_check ex_src) as [e|] eqn:E; [|vm_compute in E; discriminate]. exists e. split; [reflexivity|]. vm_compute in E. inversion E; reflexivity. Qed.
Definition capstone_enc (l:list src_mode) :=
  match capstone_check l with Some e => e | None => [] end.
