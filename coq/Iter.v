(* Iter.v — transcription of FindMatchesImpl (find_matches_impl.rs), ScannerImpl::find_from /
   peek_from / has_transition (scanner_impl.rs, compiled_scanner_mode.rs), WithPositions::next
   (with_positions.rs) and Scanner::find_iter (scanner.rs). Definitions only.

   Offsets are byte offsets (nat). `rest` is what the Rust `char_indices` iterator still yields,
   `rel` its front offset (the index it reports for the next character, relative to the last
   reset). Panics of the Rust code (slice on a non-boundary, index out of range, debug_assert!)
   are explicit `Panic` outcomes. *)
From Scnr Require Import Base Automaton FindFrom.

(* CompiledScannerMode: automaton with lookaheads and the mode transitions (token type, mode) *)
Record cmode := { aut : mode_aut; mtrans : list (N * nat) }.

(* CompiledScannerMode::has_transition: linear search with early exit on a larger entry *)
Fixpoint has_transition (tr:list (N * nat)) (t:N) : option nat :=
  match tr with
  | [] => None
  | (t', m) :: tr' =>
      match N.compare t t' with
      | Lt => None
      | Eq => Some m
      | Gt => has_transition tr' t
      end
  end.

(* What the iterator needs from a scanner: the match at the start of a haystack in a mode
   (token type, length in bytes) and the mode's transitions. Panic = scanner_modes[mode]. *)
Record scanner := {
  sc_find : nat -> list N -> res (option (N * nat));
  sc_trans : nat -> res (list (N * nat)) }.

(* the scanner the implementation builds: compiled modes with the class predicate tbl *)
Definition impl_scanner (tbl:N -> N -> bool) (modes:list cmode) : scanner :=
  {| sc_find := fun m s => match nth_error modes m with None => Panic | Some cm => find_mode tbl (aut cm) s end;
     sc_trans := fun m => match nth_error modes m with None => Panic | Some cm => Ok (mtrans cm) end |}.

Record iter := {
  it_mode : nat;                  (* scanner_impl.current_mode *)
  it_input : list N;              (* input *)
  it_rest : list N;               (* remaining characters of char_indices *)
  it_rel : nat;                   (* front offset of char_indices *)
  it_last_position : nat;
  it_last_char : N;
  it_lines : list nat;            (* line_offsets *)
  it_offset : nat }.

Definition set_rest (st:iter) (rest:list N) (rel:nat) : iter :=
  {| it_mode := it_mode st; it_input := it_input st; it_rest := rest; it_rel := rel;
     it_last_position := it_last_position st; it_last_char := it_last_char st; it_lines := it_lines st;
     it_offset := it_offset st |}.
Definition set_mode (st:iter) (m:nat) : iter :=
  {| it_mode := m; it_input := it_input st; it_rest := it_rest st; it_rel := it_rel st;
     it_last_position := it_last_position st; it_last_char := it_last_char st; it_lines := it_lines st;
     it_offset := it_offset st |}.
Definition set_lines (st:iter) (lc:N) (lines:list nat) : iter :=
  {| it_mode := it_mode st; it_input := it_input st; it_rest := it_rest st; it_rel := it_rel st;
     it_last_position := it_last_position st; it_last_char := lc; it_lines := lines;
     it_offset := it_offset st |}.
Definition set_last_position (st:iter) (p:nat) : iter :=
  {| it_mode := it_mode st; it_input := it_input st; it_rest := it_rest st; it_rel := it_rel st;
     it_last_position := p; it_last_char := it_last_char st; it_lines := it_lines st;
     it_offset := it_offset st |}.

(* FindMatchesImpl::new + ScannerImpl::reset; Scanner::find_iter clones the ScannerImpl, whose
   current_mode (whatever it is) is overwritten by reset *)
Definition find_iter (scanner_mode:nat) (input:list N) : iter :=
  {| it_mode := 0; it_input := input; it_rest := input; it_rel := 0;
     it_last_position := 0; it_last_char := 0%N; it_lines := [0]; it_offset := 0 |}.

(* is the list strictly ascending (the debug_assert! of merge_line_offsets) *)
Fixpoint strictly_sorted (l:list nat) : bool :=
  match l with
  | x :: ((y :: _) as l') => (x <? y) && strictly_sorted l'
  | _ => true
  end.

(* merge_line_offsets: binary search + insert keeps the vector sorted and duplicate free *)
Definition merge_line_offsets (lines:list nat) (new:list nat) : res (list nat) :=
  if strictly_sorted lines then Ok (fold_left (fun acc x => insert x acc) new lines) else Panic.

Definition NL : N := 10%N.

(* record_line_offset *)
Definition record_line_offset (st:iter) (i:nat) (c:N) : res iter :=
  if N.eqb (it_last_char st) NL then
    match merge_line_offsets (it_lines st) [i] with
    | Ok lines => Ok (set_lines st c lines)
    | Panic => Panic
    end
  else Ok (set_lines st c (it_lines st)).

(* set_offset *)
Definition set_offset (st:iter) (o:nat) : res iter :=
  let o' := Nat.min o (blen (it_input st)) in
  match drop_bytes o' (it_input st) with
  | None => Panic                                  (* str slice on a non-boundary *)
  | Some rest =>
      Ok {| it_mode := it_mode st; it_input := it_input st;
            it_rest := rest; it_rel := 0; it_last_position := 0;
            it_last_char := char_before o' (it_input st) 0%N;
            it_lines := it_lines st; it_offset := o' |}
  end.

(* the loop of advance_to over char_indices.by_ref(); pos is relative to the last reset *)
Fixpoint advance_loop (offset pos:nat) (rest:list N) (rel:nat) (lc:N) (newp:nat) (starts:list nat)
  : (list N * nat * N * nat * list nat) :=
  match rest with
  | [] => (rest, rel, lc, newp, starts)
  | c :: rest' =>
      let starts' := if N.eqb lc NL then starts ++ [rel + offset] else starts in
      let rel' := rel + len_utf8 c in
      if pos <=? rel' then (rest', rel', c, rel, starts')
      else advance_loop offset pos rest' rel' c rel starts'
  end.

(* advance_to: returns the new state and the returned position *)
Definition advance_to (st:iter) (position:nat) : res (iter * nat) :=
  if position <=? blen (it_input st) - blen (it_rest st) then Ok (st, it_last_position st)
  else
    let pos := position - it_offset st in
    let '(rest, rel, lc, newp, starts) :=
        advance_loop (it_offset st) pos (it_rest st) (it_rel st) (it_last_char st) 0 [] in
    let lines := match starts with [] => Ok (it_lines st) | _ => merge_line_offsets (it_lines st) starts end in
    match lines with
    | Panic => Panic
    | Ok lines =>
        Ok ({| it_mode := it_mode st; it_input := it_input st;
               it_rest := rest; it_rel := rel; it_last_position := newp; it_last_char := lc;
               it_lines := lines; it_offset := it_offset st |}, newp)
    end.

Section Scan.
Variable sc : scanner.

(* a match: token type, start, end (absolute bytes) *)
Definition tokn := (N * nat * nat)%type.

(* ScannerImpl::peek_from on the automaton of the current mode; result relative to the reset *)
Definition peek_from (mode:nat) (rest:list N) (rel:nat) : res (option tokn) :=
  match sc_find sc mode rest with
  | Panic => Panic                                (* scanner_modes[current_mode], priority_of *)
  | Ok None => Ok None
  | Ok (Some (t, e)) => if e =? 0 then Panic      (* debug_assert!(!matched.is_empty()) *)
                        else Ok (Some (t, rel, rel + e))
  end.

Definition mode_has_transition (mode:nat) (t:N) : res (option nat) :=
  match sc_trans sc mode with
  | Panic => Panic
  | Ok tr => Ok (has_transition tr t)
  end.

(* next_match: the loop has at most one iteration per remaining character plus one *)
Fixpoint next_loop (fuel:nat) (st:iter) : res (iter * option tokn) :=
  match fuel with
  | 0 => Panic     (* not reachable: fuel is length rest + 1 *)
  | S fuel' =>
      match peek_from (it_mode st) (it_rest st) (it_rel st) with
      | Panic => Panic
      | Ok (Some (t, s, e)) =>
          (* execute_possible_mode_switch *)
          match mode_has_transition (it_mode st) t with
          | Panic => Panic
          | Ok sw =>
              let st1 := match sw with Some m => set_mode st m | None => st end in
              let s' := s + it_offset st in
              let e' := e + it_offset st in
              (* advance_beyond_match; the span is not empty *)
              match advance_to st1 e' with
              | Panic => Panic
              | Ok (st2, _) => Ok (st2, Some (t, s', e'))
              end
          end
      | Ok None =>
          match it_rest st with
          | c :: rest' =>
              match record_line_offset (set_rest st rest' (it_rel st + len_utf8 c)) (it_rel st + it_offset st) c with
              | Panic => Panic
              | Ok st1 => next_loop fuel' st1
              end
          | [] =>
              match record_line_offset st (blen (it_input st)) 0%N with
              | Panic => Panic
              | Ok st1 => Ok (st1, None)
              end
          end
      end
  end.
Definition next_match (st:iter) : res (iter * option tokn) := next_loop (S (length (it_rest st))) st.

(* advance_char_indices_beyond_match on the cloned iterator; e relative *)
Fixpoint skip_to (e:nat) (rest:list N) (rel:nat) : (list N * nat) :=
  match rest with
  | [] => (rest, rel)
  | c :: rest' => let rel' := rel + len_utf8 c in
                  if e <=? rel' then (rest', rel') else skip_to e rest' rel'
  end.

Inductive peek_result :=
| PMatches (ms:list tokn)
| PReachedEnd (ms:list tokn)
| PModeSwitch (ms:list tokn) (m:nat)
| PNotFound.

(* the inner loop of peek_n: try, skip one character, try again *)
Fixpoint peek_find (fuel:nat) (mode:nat) (rest:list N) (rel:nat)
  : res (option tokn * list N * nat) :=
  match fuel with
  | 0 => Panic
  | S fuel' =>
      match peek_from mode rest rel with
      | Panic => Panic
      | Ok (Some m) => Ok (Some m, rest, rel)
      | Ok None =>
          match rest with
          | [] => Ok (None, rest, rel)
          | c :: rest' => peek_find fuel' mode rest' (rel + len_utf8 c)
          end
      end
  end.

Fixpoint peek_loop (n:nat) (st:iter) (rest:list N) (rel:nat) (ms:list tokn) : res (list tokn * option nat) :=
  match n with
  | 0 => Ok (ms, None)
  | S n' =>
      match peek_find (S (length rest)) (it_mode st) rest rel with
      | Panic => Panic
      | Ok (None, _, _) => Ok (ms, None)
      | Ok (Some (t, s, e), rest1, rel1) =>
          let '(rest2, rel2) := if e =? s then (rest1, rel1) else skip_to e rest1 rel1 in
          let ms' := ms ++ [(t, s + it_offset st, e + it_offset st)] in
          match mode_has_transition (it_mode st) t with
          | Panic => Panic
          | Ok (Some m) => Ok (ms', Some m)
          | Ok None => peek_loop n' st rest2 rel2 ms'
          end
      end
  end.

Definition peek_n (st:iter) (n:nat) : res peek_result :=
  match peek_loop n st (it_rest st) (it_rel st) [] with
  | Panic => Panic
  | Ok (ms, Some m) => Ok (PModeSwitch ms m)
  | Ok (ms, None) =>
      if length ms =? n then Ok (PMatches ms)
      else match ms with [] => Ok PNotFound | _ => Ok (PReachedEnd ms) end
  end.
End Scan.

(* position: binary_search_by on line_offsets *)
Fixpoint count_le (o:nat) (l:list nat) : nat :=
  match l with [] => 0 | x :: l' => if x <=? o then S (count_le o l') else 0 end.
Definition position (st:iter) (o:nat) : res (nat * nat) :=
  (* i = number of recorded line starts <= o; Ok(j) with j = i-1 when one equals o, else Err(i);
     both branches give line i and column o - line_offsets[i-1] + 1; i = 0 would index [-1] *)
  let i := count_le o (it_lines st) in
  match i with
  | 0 => Panic
  | S j => Ok (i, o - nth j (it_lines st) 0 + 1)
  end.

(* offset() *)
Definition offset_of (st:iter) : nat := it_last_position st + it_offset st.
