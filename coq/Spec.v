(* Spec.v — the declarative scanner specification: pattern ASTs (mirror of regex_syntax::ast::Ast
   as scnr uses it), their translation to core regular expressions, and the token rule
   (longest extent, first pattern on ties, skip one character otherwise, mode transitions),
   executable through the derivative matcher. Independent of any automaton. *)
From Scnr Require Import Base Regex Automaton.

Inductive repk := RZeroOrOne | RZeroOrMore | ROneOrMore | RExactly (m:nat) | RAtLeast (m:nat) | RBounded (m n:nat).

Inductive ast :=
| AEmpty
| ALeaf (a:N)                 (* Literal, Dot, ClassUnicode, ClassPerl, ClassBracketed: one character *)
| AFlags
| AAssertion
| ARep (k:repk) (greedy:bool) (a:ast)
| AGroup (flagged:bool) (a:ast)     (* flagged: non-capturing group that sets a flag *)
| AAlt (l:list ast)
| AConcat (l:list ast).

Fixpoint rpow (r:re) (n:nat) : re := match n with 0 => Eps | S n' => Cat r (rpow r n') end.
Definition ropt (r:re) : re := Alt Eps r.

(* None: the AST uses a feature scnr rejects *)
Fixpoint core_of_ast (a:ast) : option re :=
  match a with
  | AEmpty => Some Eps
  | ALeaf x => Some (At x)
  | AFlags => None
  | AAssertion => None
  | ARep k greedy a' =>
      match core_of_ast a' with
      | None => None
      | Some r =>
          if negb greedy then None else
          Some (match k with
                | RZeroOrOne => ropt r
                | RZeroOrMore => Star r
                | ROneOrMore => Cat r (Star r)
                | RExactly m => rpow r m
                | RAtLeast m => Cat (rpow r m) (Star r)
                | RBounded m n => Cat (rpow r m) (rpow (ropt r) (n - m))
                end)
      end
  | AGroup flagged a' => if flagged then None else core_of_ast a'
  | AAlt l =>
      (fix alts (l:list ast) : option re :=
         match l with
         | [] => Some Emp
         | [a'] => core_of_ast a'
         | a' :: l' => match core_of_ast a', alts l' with Some r, Some s => Some (Alt r s) | _, _ => None end
         end) l
  | AConcat l =>
      (fix cats (l:list ast) : option re :=
         match l with
         | [] => Some Eps
         | a' :: l' => match core_of_ast a', cats l' with Some r, Some s => Some (Cat r s) | _, _ => None end
         end) l
  end.

(* a pattern of a mode: token type, regular expression, optional lookahead (is_positive, re) *)
Record spat := { sp_tok : N; sp_re : re; sp_la : option (bool * re) }.
Record smode := { sm_pats : list spat; sm_trans : list (N * nat) }.

Section Spec.
Variable tbl : N -> N -> bool.       (* leaf id -> char -> bool *)

(* longest j in 1..length s with r matching firstn j s, as a byte length; None if there is none *)
Fixpoint longest_from (r:re) (s:list N) (acc:nat) (best:option nat) : option nat :=
  match s with
  | [] => best
  | c :: s' =>
      let r' := deriv tbl c r in
      let acc' := acc + len_utf8 c in
      longest_from r' s' acc' (if nullable r' then Some acc' else best)
  end.
Definition longest (r:re) (s:list N) : option nat := longest_from r s 0 None.

(* lookahead condition of a pattern on the rest; Some l = holds, with l bytes of trailing context *)
Definition la_spec (la:option (bool * re)) (rest:list N) : option nat :=
  match la with
  | None => Some 0
  | Some (true, r) => longest r rest
  | Some (false, r) => match longest r rest with Some _ => None | None => Some 0 end
  end.

(* candidates of one pattern (index i) at the start of s: (extent, i, tok, end) for every k *)
Fixpoint cands_pat (i:nat) (p:spat) (r:re) (s:list N) (e:nat) : list (nat * nat * N * nat) :=
  match s with
  | [] => []
  | c :: s' =>
      let r' := deriv tbl c r in
      let e' := e + len_utf8 c in
      let rest := cands_pat i p r' s' e' in
      if nullable r' then
        match la_spec (sp_la p) s' with
        | Some l => (e' + l, i, sp_tok p, e') :: rest
        | None => rest
        end
      else rest
  end.

Fixpoint cands_from (i:nat) (ps:list spat) (s:list N) : list (nat * nat * N * nat) :=
  match ps with
  | [] => []
  | p :: ps' => cands_pat i p (sp_re p) s 0 ++ cands_from (S i) ps' s
  end.
Definition cands (ps:list spat) (s:list N) := cands_from 0 ps s.

(* c1 strictly better than c2: larger extent, or same extent and earlier pattern *)
Definition cbetter (c1 c2:nat * nat * N * nat) : bool :=
  let '(x1,i1,_,_) := c1 in let '(x2,i2,_,_) := c2 in
  (x2 <? x1) || ((x1 =? x2) && (i1 <? i2)).

(* is (t, e) a maximal candidate at the start of s *)
Definition is_max_cand (ps:list spat) (s:list N) (t:N) (e:nat) : bool :=
  let cs := cands ps s in
  existsb (fun c => let '(x,i,t',e') := c in
                    N.eqb t t' && (e =? e') && negb (existsb (fun c' => cbetter c' c) cs)) cs.

(* the deterministic choice: first maximal candidate in (pattern order, then length) order *)
Definition best_cand (ps:list spat) (s:list N) : option (N * nat) :=
  match fold_left (fun b c => match b with
                              | None => Some c
                              | Some b0 => if cbetter c b0 then Some c else b
                              end) (cands ps s) None with
  | Some (_,_,t,e) => Some (t,e)
  | None => None
  end.

Definition switch (m:smode) (cur:nat) (t:N) : nat :=
  match nassoc t (sm_trans m) with Some m' => m' | None => cur end.

(* the token stream of a scan from the start of s in mode cur; pos = absolute byte offset of s *)
Fixpoint spec_tokens (fuel:nat) (modes:list smode) (cur:nat) (s:list N) (pos:nat) : list (N * nat * nat) :=
  match fuel with
  | 0 => []
  | S fuel' =>
      match s with
      | [] => []
      | c :: s' =>
          match nth_error modes cur with
          | None => []
          | Some m =>
              match best_cand (sm_pats m) s with
              | Some (t, e) =>
                  match drop_bytes e s with
                  | Some rest => (t, pos, pos + e) :: spec_tokens fuel' modes (switch m cur t) rest (pos + e)
                  | None => []
                  end
              | None => spec_tokens fuel' modes cur s' (pos + len_utf8 c)
              end
          end
      end
  end.

(* is toks a token stream the rule allows for a scan of s from pos in mode cur (every token a
   maximal candidate at its start, no candidate at any skipped position) *)
Fixpoint check_stream (fuel:nat) (modes:list smode) (cur:nat) (s:list N) (pos:nat) (toks:list (N * nat * nat)) : bool :=
  match fuel with
  | 0 => false
  | S fuel' =>
      match s with
      | [] => match toks with [] => true | _ => false end
      | c :: s' =>
          match nth_error modes cur with
          | None => false
          | Some m =>
              match toks with
              | (t, st, en) :: toks' =>
                  if st =? pos then
                    (st <? en) && is_max_cand (sm_pats m) s t (en - st) &&
                    match drop_bytes (en - st) s with
                    | Some rest => check_stream fuel' modes (switch m cur t) rest en toks'
                    | None => false
                    end
                  else
                    (pos <? st) && (match best_cand (sm_pats m) s with None => true | Some _ => false end)
                    && check_stream fuel' modes cur s' (pos + len_utf8 c) toks
              | [] =>
                  (match best_cand (sm_pats m) s with None => true | Some _ => false end)
                  && check_stream fuel' modes cur s' (pos + len_utf8 c) []
              end
          end
      end
  end.
End Spec.

(* ---------- constructors used by generated case files ---------- *)
Definition mk_spat (t:N) (a:ast) (la:option (bool * ast)) : option spat :=
  match core_of_ast a with
  | None => None
  | Some r =>
      match la with
      | None => Some {| sp_tok := t; sp_re := r; sp_la := None |}
      | Some (pos, al) => match core_of_ast al with
                          | Some rl => Some {| sp_tok := t; sp_re := r; sp_la := Some (pos, rl) |}
                          | None => None
                          end
      end
  end.
Fixpoint all_some {A} (l:list (option A)) : option (list A) :=
  match l with
  | [] => Some []
  | Some x :: l' => match all_some l' with Some r => Some (x :: r) | None => None end
  | None :: _ => None
  end.
Definition mk_smode (ps:list (option spat)) (tr:list (N * N)) : option smode :=
  match all_some ps with
  | Some ps' => Some {| sm_pats := ps'; sm_trans := map (fun e => (fst e, N.to_nat (snd e))) tr |}
  | None => None
  end.
