(* Registry.v — CharacterClassRegistry::add_character_class (character_class_registry.rs) and the
   relabelling of pattern ASTs by class ids.

   The parser's leaves (literals, dot, classes) are kept in a list `occ` in the order
   Nfa::try_from_ast first meets them (depth first, left to right; pattern ASTs of a mode in order,
   then the lookahead ASTs; modes in order); an AST refers to them by occurrence number. The registry
   is a vector of leaves; a leaf is looked up with the equality `eqc` (ComparableAst::eq) and pushed
   when absent; its class id is its position.  Theorems: ids are stable, a lookup after a
   registration finds the entry, no two entries are `eqc`-equal, and — for ANY equality that is sound
   for the denotation — every occurrence gets an id whose registered leaf denotes the same set, so
   that a pattern relabelled by class ids matches exactly what the pattern over the parser's leaves
   matches. *)
From Scnr Require Import Base Regex Spec NfaProofs.

Section Reg.
Variable L : Type.
Variable eqc : L -> L -> bool.          (* registered entry == new leaf *)
Variable den : L -> N -> bool.          (* the set a leaf denotes (C08: eval_leaf) *)

Fixpoint position (l:L) (reg:list L) : option nat :=
  match reg with
  | [] => None
  | x :: r => if eqc x l then Some 0 else option_map S (position l r)
  end.
Definition add (reg:list L) (l:L) : nat * list L :=
  match position l reg with
  | Some i => (i, reg)
  | None => (length reg, reg ++ [l])
  end.
(* all occurrences, in order *)
Fixpoint assign (reg:list L) (occ:list L) : list nat * list L :=
  match occ with
  | [] => ([], reg)
  | l :: occ' => let (i, reg1) := add reg l in let (ids, reg2) := assign reg1 occ' in (i :: ids, reg2)
  end.
Definition tbl_of (reg:list L) (cid:N) (c:N) : bool :=
  match nth_error reg (N.to_nat cid) with Some l => den l c | None => false end.

Lemma position_spec l reg :
  match position l reg with
  | Some i => exists x, nth_error reg i = Some x /\ eqc x l = true /\
                forall j y, j < i -> nth_error reg j = Some y -> eqc y l = false
  | None => forall x, In x reg -> eqc x l = false
  end.
Proof.
  induction reg as [|x r IH]; cbn [position]; [intros x []|].
  destruct (eqc x l) eqn:E.
  - exists x. split; [reflexivity|]. split; [exact E|]. intros j y Hj. inversion Hj.
  - destruct (position l r) as [i|]; cbn [option_map].
    + destruct IH as (x0 & Hn & He & Hlt). exists x0. split; [exact Hn|]. split; [exact He|].
      intros [|j] y Hj Hy; cbn in Hy; [inversion Hy; subst; exact E|]. apply (Hlt j y); [apply Nat.succ_lt_mono; exact Hj|exact Hy].
    + intros y [<-|Hin]; [exact E|apply IH; exact Hin].
Qed.

(* one registration: the registry only grows at the end; the id is in range and its entry is the
   leaf itself (new) or an entry equal to it (found) *)
Lemma add_spec reg l : let (i, reg') := add reg l in
  (exists ext, reg' = reg ++ ext) /\
  exists x, nth_error reg' i = Some x /\ ((position l reg = None /\ x = l /\ i = length reg) \/ eqc x l = true).
Proof.
  unfold add. pose proof (position_spec l reg) as H. destruct (position l reg) as [i|].
  - destruct H as (x & Hn & He & _). split; [exists []; rewrite app_nil_r; reflexivity|]. exists x. auto.
  - split; [exists [l]; reflexivity|]. exists l. split; [|left; auto].
    rewrite nth_error_app2, Nat.sub_diag by lia. reflexivity.
Qed.

Lemma assign_spec : forall occ reg ids reg', assign reg occ = (ids, reg') ->
  (exists ext, reg' = reg ++ ext) /\ length ids = length occ /\
  forall k l, nth_error occ k = Some l ->
    exists i x, nth_error ids k = Some i /\ nth_error reg' i = Some x /\ (x = l \/ eqc x l = true).
Proof.
  induction occ as [|l occ IH]; intros reg ids reg' E; cbn [assign] in E.
  - inversion E; subst. split; [exists []; rewrite app_nil_r; reflexivity|]. split; [reflexivity|]. intros [|k] l0 H; discriminate.
  - pose proof (add_spec reg l) as Ha. destruct (add reg l) as [i reg1].
    destruct (assign reg1 occ) as [ids2 reg2] eqn:E2. inversion E; subst ids reg'. clear E.
    destruct Ha as ((ext1 & ->) & x & Hx & Hor). destruct (IH _ _ _ E2) as ((ext2 & ->) & Hlen & Hall).
    split; [exists (ext1 ++ ext2); rewrite app_assoc; reflexivity|]. split; [cbn; rewrite Hlen; reflexivity|].
    intros [|k] l0 Hk; cbn in Hk.
    + inversion Hk; subst l0. exists i, x. split; [reflexivity|]. split.
      * rewrite nth_error_app1; [exact Hx|]. apply nth_error_Some. rewrite Hx. discriminate.
      * destruct Hor as [(_ & -> & _)|He]; auto.
    + destruct (Hall k l0 Hk) as (i0 & x0 & H1 & H2 & H3). exists i0, x0. auto.
Qed.

(* no two entries of a registry built from the empty one are equal *)
Definition distinct (reg:list L) : Prop :=
  forall i j x y, i < j -> nth_error reg i = Some x -> nth_error reg j = Some y -> eqc x y = false.
Lemma add_distinct reg l : distinct reg -> distinct (snd (add reg l)).
Proof.
  intros Hd. unfold add. pose proof (position_spec l reg) as H. destruct (position l reg) as [i|]; cbn [snd]; [exact Hd|].
  intros i j x y Hij Hi Hj. destruct (lt_dec j (length reg)) as [Hlt|Hge].
  - rewrite nth_error_app1 in Hi by lia. rewrite nth_error_app1 in Hj by lia. exact (Hd i j x y Hij Hi Hj).
  - rewrite nth_error_app2 in Hj by lia. destruct (j - length reg) as [|n] eqn:En; [|destruct n; discriminate].
    cbn in Hj. inversion Hj; subst y. assert (Hil : i < length reg) by lia. rewrite nth_error_app1 in Hi by lia.
    apply H. eapply nth_error_In; eauto.
Qed.
Lemma assign_distinct : forall occ reg, distinct reg -> distinct (snd (assign reg occ)).
Proof.
  induction occ as [|l occ IH]; intros reg Hd; cbn [assign]; [exact Hd|].
  pose proof (add_distinct reg l Hd) as H1. destruct (add reg l) as [i reg1]. cbn [snd] in H1.
  specialize (IH reg1 H1). destruct (assign reg1 occ) as [ids reg2]. exact IH.
Qed.

(* ---------- with an equality that is sound for the denotation ---------- *)
Hypothesis eqc_sound : forall a b, eqc a b = true -> forall c, den a c = den b c.

Theorem assign_denotes occ ids reg : assign [] occ = (ids, reg) ->
  forall k l, nth_error occ k = Some l -> exists i, nth_error ids k = Some i /\
    forall c, tbl_of reg (N.of_nat i) c = den l c.
Proof.
  intros E k l Hk. destruct (assign_spec occ [] ids reg E) as (_ & _ & Hall).
  destruct (Hall k l Hk) as (i & x & H1 & H2 & H3). exists i. split; [exact H1|].
  intros c. unfold tbl_of. rewrite Nat2N.id, H2. destruct H3 as [->|He]; [reflexivity|apply eqc_sound; exact He].
Qed.
End Reg.

(* ---------- relabelling an AST by class ids ---------- *)
Fixpoint map_re (f:N -> N) (r:re) : re :=
  match r with
  | Emp => Emp | Eps => Eps | At a => At (f a)
  | Cat r s => Cat (map_re f r) (map_re f s)
  | Alt r s => Alt (map_re f r) (map_re f s)
  | Star r => Star (map_re f r)
  end.
Lemma mt_map_re tbl f r : forall w, mt tbl (map_re f r) w <-> mt (fun a c => tbl (f a) c) r w.
Proof.
  intros w. split.
  - remember (map_re f r) as r' eqn:E. intros H. revert r E.
    induction H as [|a c Ht|r1 s1 u v H1 IH1 H2 IH2|r1 s1 u H1 IH1|r1 s1 u H1 IH1|r1|r1 c u v H1 IH1 H2 IH2]; intros r0 E;
      destruct r0; cbn in E; try discriminate; inversion E; subst;
      first [ constructor; solve [auto] | apply MAltL; solve [auto] | apply MAltR; solve [auto]
            | constructor; [apply IH1|apply IH2]; reflexivity | constructor ].
  - induction 1; cbn [map_re]; constructor; assumption.
Qed.
Lemma mt_ext tbl1 tbl2 r : (forall a c, tbl1 a c = tbl2 a c) -> forall w, mt tbl1 r w <-> mt tbl2 r w.
Proof.
  intros He w. split; induction 1; try (constructor; auto; fail).
  - constructor. rewrite <- He. assumption.
  - constructor. rewrite He. assumption.
Qed.

Fixpoint relabel (f:N -> N) (a:ast) : ast :=
  match a with
  | AEmpty => AEmpty
  | ALeaf x => ALeaf (f x)
  | AFlags => AFlags
  | AAssertion => AAssertion
  | ARep k g a' => ARep k g (relabel f a')
  | AGroup fl a' => AGroup fl (relabel f a')
  | AAlt l => AAlt (map (relabel f) l)
  | AConcat l => AConcat (map (relabel f) l)
  end.

Lemma map_re_rpow f r n : map_re f (rpow r n) = rpow (map_re f r) n.
Proof. induction n as [|n IH]; cbn; [reflexivity|rewrite IH; reflexivity]. Qed.

Lemma core_relabel f a : core_of_ast (relabel f a) = option_map (map_re f) (core_of_ast a).
Proof.
  induction a as [|x| | |k g a IH|fl a IH|l IH|l IH] using ast_ind'; cbn [relabel core_of_ast option_map]; try reflexivity.
  - rewrite IH. destruct (core_of_ast a) as [r|]; cbn [option_map]; [|reflexivity].
    destruct (negb g); [reflexivity|]. cbn [option_map]. f_equal.
    destruct k; cbn [map_re ropt]; rewrite ?map_re_rpow; cbn [map_re ropt]; rewrite ?map_re_rpow; reflexivity.
  - destruct fl; [reflexivity|exact IH].
  - induction l as [|a0 l IHl]; [reflexivity|]. inversion IH as [|? ? H0 Hl]; subst. specialize (IHl Hl).
    cbn [map]. destruct l as [|a1 l1]; [cbn [map]; exact H0|].
    cbn [map] in *. rewrite H0. destruct (core_of_ast a0) as [r0|]; cbn [option_map].
    + rewrite IHl. destruct ((fix alts (l : list ast) : option re := match l with
        | [] => Some Emp | [a'] => core_of_ast a'
        | a' :: (_ :: _) as l' => match core_of_ast a', alts l' with Some r, Some s => Some (Alt r s) | _, _ => None end end) (a1 :: l1)) as [s|];
        reflexivity.
    + reflexivity.
  - induction l as [|a0 l IHl]; [reflexivity|]. inversion IH as [|? ? H0 Hl]; subst. specialize (IHl Hl).
    cbn [map]. rewrite H0. destruct (core_of_ast a0) as [r0|]; cbn [option_map]; [|reflexivity].
    rewrite IHl. destruct ((fix cats (l : list ast) : option re := match l with
        | [] => Some Eps
        | a' :: l' => match core_of_ast a', cats l' with Some r, Some s => Some (Cat r s) | _, _ => None end end) l) as [s|]; reflexivity.
Qed.

(* THE LINK. `occ` are the parser's leaves, an AST over occurrence numbers is relabelled by the class
   ids the registry assigned: the relabelled pattern, interpreted with the registry's match function,
   matches exactly the words the pattern over the parser's own leaves matches. *)
Section Link.
Variable L : Type.
Variable eqc : L -> L -> bool.
Variable den : L -> N -> bool.
Hypothesis eqc_sound : forall a b, eqc a b = true -> forall c, den a c = den b c.
Variable occ : list L.
Variable ids : list nat.
Variable reg : list L.
Hypothesis Hassign : assign L eqc [] occ = (ids, reg).

Definition id_of (k:N) : N := match nth_error ids (N.to_nat k) with Some i => N.of_nat i | None => 0%N end.
Definition den_occ (k:N) (c:N) : bool := match nth_error occ (N.to_nat k) with Some l => den l c | None => false end.

(* every leaf number used by the AST is an occurrence *)
Fixpoint re_leaves_ok (r:re) : Prop :=
  match r with
  | At a => N.to_nat a < length occ
  | Cat r s | Alt r s => re_leaves_ok r /\ re_leaves_ok s
  | Star r => re_leaves_ok r
  | _ => True
  end.

Lemma mt_leaves_ok_ext tbl1 tbl2 r : re_leaves_ok r ->
  (forall a c, N.to_nat a < length occ -> tbl1 a c = tbl2 a c) -> forall w, mt tbl1 r w <-> mt tbl2 r w.
Proof.
  intros Hok He w. split; intros H; revert Hok; induction H; intros Hok; cbn [re_leaves_ok] in Hok.
  all: try solve [constructor; tauto].
  all: try solve [constructor; [apply IHmt1|apply IHmt2]; tauto].
  all: try solve [constructor; rewrite <- He by assumption; assumption].
  all: try solve [constructor; rewrite He by assumption; assumption].
Qed.

Theorem relabelled_pattern_matches_the_same a r : core_of_ast a = Some r -> re_leaves_ok r ->
  exists r', core_of_ast (relabel id_of a) = Some r' /\
    forall w, mt (tbl_of L den reg) r' w <-> mt den_occ r w.
Proof.
  intros Hc Hok. exists (map_re id_of r). split; [rewrite core_relabel, Hc; reflexivity|].
  intros w. rewrite mt_map_re. apply mt_leaves_ok_ext; [exact Hok|].
  intros k c Hk. unfold id_of, den_occ.
  destruct (nth_error occ (N.to_nat k)) as [l|] eqn:El; [|apply nth_error_None in El; lia].
  destruct (assign_denotes L eqc den eqc_sound occ ids reg Hassign _ _ El) as (i & Hi & Hd). rewrite Hi. apply Hd.
Qed.
End Link.
