(* IterRun.v — operation histories on the iterator model and their canonical output encoding,
   as evaluated by the correspondence check. *)
From Scnr Require Import Base Automaton FindFrom Iter.

Inductive op :=
| ONext                      (* Iterator::next / next_match *)
| ONextPos                   (* WithPositions::next *)
| OPeek (n:nat)              (* peek_n *)
| OSetOffset (o:nat)         (* set_offset / with_offset *)
| OAdvanceTo (p:nat)         (* advance_to *)
| OSetMode (m:nat)           (* set_mode on the iterator *)
| OPosition (o:nat)          (* PositionProvider::position *)
| OCurrentMode               (* current_mode *)
| OOffset.                   (* offset() *)

Definition enc_tok (m:tokn) : list N := let '(t,s,e) := m in [t; N.of_nat s; N.of_nat e].
Definition PANIC_CODE : N := 999999%N.
Definition NOT_WF_CODE : N := 777777%N.   (* a dumped automaton violates mode_okb *)

Section Run.
Variable sc : scanner.

(* one operation: new state and encoded output; None = panic *)
Definition step_op (st:iter) (o:op) : option (iter * list N) :=
  match o with
  | ONext =>
      match next_match sc st with
      | Panic => None
      | Ok (st', None) => Some (st', [0%N])
      | Ok (st', Some m) => Some (st', 1%N :: enc_tok m)
      end
  | ONextPos =>
      match next_match sc st with
      | Panic => None
      | Ok (st', None) => Some (st', [0%N])
      | Ok (st', Some (t,s,e)) =>
          match position st' s, position st' e with
          | Ok (l1,c1), Ok (l2,c2) =>
              Some (st', 1%N :: enc_tok (t,s,e) ++ [N.of_nat l1; N.of_nat c1; N.of_nat l2; N.of_nat c2])
          | _, _ => None
          end
      end
  | OPeek n =>
      match peek_n sc st n with
      | Panic => None
      | Ok (PMatches ms) => Some (st, 1%N :: N.of_nat (length ms) :: flat_map enc_tok ms)
      | Ok (PReachedEnd ms) => Some (st, 2%N :: N.of_nat (length ms) :: flat_map enc_tok ms)
      | Ok (PModeSwitch ms m) => Some (st, 3%N :: N.of_nat (length ms) :: flat_map enc_tok ms ++ [N.of_nat m])
      | Ok PNotFound => Some (st, [4%N])
      end
  | OSetOffset o =>
      match set_offset st o with Panic => None | Ok st' => Some (st', []) end
  | OAdvanceTo p =>
      match advance_to st p with Panic => None | Ok (st', r) => Some (st', [N.of_nat r]) end
  | OSetMode m => Some (set_mode st m, [])
  | OPosition o =>
      match position st o with Panic => None | Ok (l,c) => Some (st, [N.of_nat l; N.of_nat c]) end
  | OCurrentMode => Some (st, [N.of_nat (it_mode st)])
  | OOffset => Some (st, [N.of_nat (offset_of st)])
  end.

(* a history stops at the first panic, which is reported as [PANIC_CODE] *)
Fixpoint run_ops (st:iter) (ops:list op) : list (list N) :=
  match ops with
  | [] => []
  | o :: ops' =>
      match step_op st o with
      | None => [[PANIC_CODE]]
      | Some (st', out) => out :: run_ops st' ops'
      end
  end.
End Run.

(* ---------- constructors used by generated case files (everything in N) ---------- *)
Definition mk_dfa (tr:list (list (N * N))) (fi:list (bool * N)) (ti:list N) : dfa :=
  {| trans := map (map (fun e => (fst e, N.to_nat (snd e)))) tr; fin := fi; tids := ti |}.
Definition mk_mode (d:dfa) (la:list (N * (bool * dfa))) (tr:list (N * N)) : cmode :=
  {| aut := {| main := d; las := la |}; mtrans := map (fun e => (fst e, N.to_nat (snd e))) tr |}.

(* class table: class id -> characters (of the case) it contains *)
Definition tbl_of (l:list (N * list N)) (a c:N) : bool :=
  match nassoc a l with Some cs => nmem c cs | None => false end.

Inductive nop := NNext | NNextPos | NPeek (n:N) | NSetOffset (o:N) | NAdvanceTo (p:N) | NSetMode (m:N)
               | NPosition (o:N) | NCurrentMode | NOffset.
Definition op_of (o:nop) : op :=
  match o with
  | NNext => ONext | NNextPos => ONextPos | NPeek n => OPeek (N.to_nat n)
  | NSetOffset o => OSetOffset (N.to_nat o) | NAdvanceTo p => OAdvanceTo (N.to_nat p)
  | NSetMode m => OSetMode (N.to_nat m) | NPosition o => OPosition (N.to_nat o)
  | NCurrentMode => OCurrentMode | NOffset => OOffset
  end.

Definition run_case (cls:list (N * list N)) (modes:list cmode) (scanner_mode:N) (input:list N) (ops:list nop)
  : list (list N) :=
  if forallb (fun cm => mode_okb (aut cm)) modes
  then run_ops (impl_scanner (tbl_of cls) modes) (find_iter (N.to_nat scanner_mode) input) (map op_of ops)
  else [[NOT_WF_CODE]].
