(* ExtProofs.v — the iterator depends on the scanner only through sc_find and sc_trans: two
   scanners that agree pointwise on both produce the same outputs for every history. *)
From Scnr Require Import Base Automaton FindFrom Iter IterRun.

Section Ext.
Variables sc1 sc2 : scanner.
Hypothesis Hfind : forall m s, sc_find sc1 m s = sc_find sc2 m s.
Hypothesis Htrans : forall m, sc_trans sc1 m = sc_trans sc2 m.

Lemma peek_from_ext m rest rel : peek_from sc1 m rest rel = peek_from sc2 m rest rel.
Proof. unfold peek_from. rewrite Hfind. reflexivity. Qed.
Lemma mode_has_transition_ext m t : mode_has_transition sc1 m t = mode_has_transition sc2 m t.
Proof. unfold mode_has_transition. rewrite Htrans. reflexivity. Qed.

Lemma next_loop_ext : forall fuel st, next_loop sc1 fuel st = next_loop sc2 fuel st.
Proof.
  induction fuel as [|f IH]; intros st; [reflexivity|]. cbn [next_loop].
  rewrite peek_from_ext. destruct (peek_from sc2 (it_mode st) (it_rest st) (it_rel st)) as [[[[t s] e]|]|]; [| |reflexivity].
  - rewrite mode_has_transition_ext. reflexivity.
  - destruct (it_rest st) as [|c r]; [reflexivity|].
    destruct (record_line_offset _ _ _); [apply IH|reflexivity].
Qed.
Lemma next_match_ext st : next_match sc1 st = next_match sc2 st.
Proof. apply next_loop_ext. Qed.

Lemma peek_find_ext : forall fuel m rest rel, peek_find sc1 fuel m rest rel = peek_find sc2 fuel m rest rel.
Proof.
  induction fuel as [|f IH]; intros m rest rel; [reflexivity|]. cbn [peek_find]. rewrite peek_from_ext.
  destruct (peek_from sc2 m rest rel) as [[x|]|]; [reflexivity| |reflexivity]. destruct rest; [reflexivity|apply IH].
Qed.
Lemma peek_loop_ext2 : forall n st rest rel acc, peek_loop sc1 n st rest rel acc = peek_loop sc2 n st rest rel acc.
Proof.
  induction n as [|n IH]; intros st rest rel acc; [reflexivity|]. cbn [peek_loop]. rewrite peek_find_ext.
  destruct (peek_find sc2 (S (length rest)) (it_mode st) rest rel) as [[[[[[t a] b]|] r1] l1]|]; try reflexivity.
  destruct (if b =? a then (r1, l1) else skip_to b r1 l1) as [r2 l2]. rewrite mode_has_transition_ext.
  destruct (mode_has_transition sc2 (it_mode st) t) as [[m|]|]; try reflexivity. apply IH.
Qed.
Lemma peek_n_ext st n : peek_n sc1 st n = peek_n sc2 st n.
Proof. unfold peek_n. rewrite peek_loop_ext2. reflexivity. Qed.

Lemma step_op_ext st o : step_op sc1 st o = step_op sc2 st o.
Proof. destruct o; cbn [step_op]; rewrite ?next_match_ext, ?peek_n_ext; reflexivity. Qed.

Theorem run_ops_ext : forall ops st, run_ops sc1 st ops = run_ops sc2 st ops.
Proof.
  induction ops as [|o ops IH]; intros st; [reflexivity|]. cbn [run_ops]. rewrite step_op_ext.
  destruct (step_op sc2 st o) as [[st' out]|]; [f_equal; apply IH|reflexivity].
Qed.
End Ext.
