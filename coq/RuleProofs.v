(* RuleProofs.v — from the selection theorem of find_from (automaton level) to the token rule
   stated on the patterns: longest match / first pattern (C01) and lookahead gating (C04),
   under the hypothesis that the automaton accepts exactly the pattern languages (which is what
   the C02 certificates establish per compiled automaton). *)
From Scnr Require Import Base Regex Automaton FindFrom FindFromProofs ModeProofs.

Section Rule.
Variable tbl : N -> N -> bool.       (* class id -> char -> bool: interprets the automata *)
Variable leaf : N -> N -> bool.      (* leaf id -> char -> bool: interprets the patterns *)

(* the automaton accepts, for every non-empty word, exactly the token types whose pattern
   matches the whole word *)
Definition lang_equiv (A:dfa) (rs:list (N * re)) : Prop :=
  forall w t, w <> [] -> (accepts_tok tbl A w t <-> exists r, In (t, r) rs /\ mt leaf r w).

Lemma bpos_mono s : forall k k', k < k' -> k' <= length s -> bpos s k < bpos s k'.
Proof.
  unfold bpos. induction s as [|c s IH]; intros k k' Hlt Hle; [cbn in Hle; lia|].
  destruct k' as [|k']; [lia|]. cbn [firstn blen]. destruct k as [|k].
  - cbn [firstn blen]. pose proof (len_utf8_pos c). lia.
  - cbn [firstn blen]. cbn in Hle. specialize (IH k k'). lia.
Qed.
Lemma bpos_le_iff s k k' : k <= length s -> k' <= length s -> (bpos s k' <= bpos s k <-> k' <= k).
Proof.
  intros H1 H2. split; intros H.
  - destruct (le_lt_dec k' k) as [|Hlt]; [assumption|]. pose proof (bpos_mono s k k' Hlt H2). lia.
  - destruct (Nat.eq_dec k' k) as [->|Hne]; [lia|]. assert (Hlt : k' < k) by lia.
    pose proof (bpos_mono s k' k Hlt H1). lia.
Qed.
Lemma firstn_nonempty (s:list N) k : 0 < k <= length s -> firstn k s <> [].
Proof. intros [H1 H2] E. destruct s; [cbn in H2; lia|]. destruct k; [lia|]. cbn in E. discriminate. Qed.

(* position of a token type in the priority order *)
Lemma nindex_lt t l : In t l -> exists i, nindex t l = Some i /\ i < length l.
Proof.
  induction l as [|y l IH]; cbn [nindex In length]; [tauto|]. intros H.
  destruct (N.eqb t y) eqn:E; [exists 0; split; [reflexivity|lia]|].
  destruct H as [->|H]; [rewrite N.eqb_refl in E; discriminate|].
  destruct (IH H) as (i & Ei & Hi). exists (S i). rewrite Ei. split; [reflexivity|lia].
Qed.

(* ---------- C01: a mode without lookaheads ---------- *)
Variable M : mode_aut.
Variable rs : list (N * re).
Hypothesis Mok : mode_ok M.
Hypothesis Hequiv : lang_equiv (main M) rs.

(* some pattern of token type t matches the first k characters of s *)
Definition pmatch (s:list N) (k:nat) (t:N) : Prop :=
  0 < k <= length s /\ exists r, In (t, r) rs /\ mt leaf r (firstn k s).

Lemma accepts_pmatch s k t : 0 < k <= length s ->
  (accepts_tok tbl (main M) (firstn k s) t <-> exists r, In (t, r) rs /\ mt leaf r (firstn k s)).
Proof. intros Hk. apply Hequiv. apply firstn_nonempty; exact Hk. Qed.

Theorem find_longest_first : las M = [] -> forall s,
  match find_mode tbl M s with
  | Panic => False
  | Ok None => forall k t, ~ pmatch s k t
  | Ok (Some (t, e)) =>
      exists k, e = bpos s k /\ pmatch s k t /\
        (forall k' t', pmatch s k' t' -> k' <= k) /\
        (forall t', pmatch s k t' -> mprio M t <= mprio M t')
  end.
Proof.
  intros Hla s. pose proof (find_mode_spec tbl M Mok s) as H.
  assert (Hl : forall t rest l, la_holds tbl (las M) t rest l <-> l = 0).
  { intros t rest l. unfold la_holds. rewrite Hla. cbn. tauto. }
  destruct (find_mode tbl M s) as [[[t e]|]|]; [| |exact H].
  - destruct H as (k & l & He & (Hk & Ha & Hh) & Hmax). apply Hl in Hh. subst l.
    exists k. split; [exact He|]. split; [split; [exact Hk|apply accepts_pmatch; assumption]|]. split.
    + intros k' t' (Hk' & Hp'). apply accepts_pmatch in Hp'; [|exact Hk'].
      assert (Hc : MCand tbl M s k' 0 t') by (split; [exact Hk'|split; [exact Hp'|apply Hl; reflexivity]]).
      specialize (Hmax _ _ _ Hc). rewrite He in Hmax. apply (bpos_le_iff s k k'); lia.
    + intros t' (Hk' & Hp'). apply accepts_pmatch in Hp'; [|exact Hk'].
      assert (Hc : MCand tbl M s k 0 t') by (split; [exact Hk'|split; [exact Hp'|apply Hl; reflexivity]]).
      specialize (Hmax _ _ _ Hc). rewrite He in Hmax. lia.
  - intros k t (Hk & Hp). apply accepts_pmatch in Hp; [|exact Hk].
    apply (H k 0 t). split; [exact Hk|split; [exact Hp|apply Hl; reflexivity]].
Qed.

(* with distinct token types listed in pattern order, "mprio" is the index of the pattern *)
Lemma mprio_index : tids (main M) = map fst rs -> forall t r, In (t, r) rs ->
  exists i, nindex t (map fst rs) = Some i /\ mprio M t = i /\ i < length rs.
Proof.
  intros Ht t r Hin. assert (Hi : In t (map fst rs)) by (apply in_map_iff; exists (t, r); auto).
  destruct (nindex_lt _ _ Hi) as (i & Ei & Hl). exists i. split; [exact Ei|]. split.
  - unfold mprio, priod, prio. rewrite Ht, Ei. reflexivity.
  - rewrite map_length in Hl. exact Hl.
Qed.

(* ---------- C04: lookaheads gate their pattern ---------- *)
(* the lookahead automata accept exactly their lookahead patterns *)
Variable lrs : list (N * (bool * re)).     (* token type -> (is_positive, lookahead pattern) *)
Definition la_equiv : Prop :=
  forall t pos D, nassoc t (las M) = Some (pos, D) ->
    exists r, nassoc t lrs = Some (pos, r) /\
      forall w, w <> [] -> ((exists t', accepts_tok tbl D w t') <-> mt leaf r w).
Hypothesis Hla : la_equiv.
Hypothesis Hla_dom : forall t, nassoc t (las M) = None -> nassoc t lrs = None.

(* the lookahead condition of token type t on the text after the token, stated on the patterns *)
Definition la_cond (t:N) (rest:list N) : Prop :=
  match nassoc t lrs with
  | None => True
  | Some (true, r) => exists j, 0 < j <= length rest /\ mt leaf r (firstn j rest)
  | Some (false, r) => forall j, 0 < j <= length rest -> ~ mt leaf r (firstn j rest)
  end.

Lemma la_holds_cond t rest : (exists l, la_holds tbl (las M) t rest l) <-> la_cond t rest.
Proof.
  unfold la_holds, la_cond. destruct (nassoc t (las M)) as [[pos D]|] eqn:E.
  - destruct (Hla _ _ _ E) as (r & Er & Heq). rewrite Er. destruct pos.
    + split.
      * intros (l & j & (Hj & t' & Ha) & _). exists j. split; [exact Hj|].
        apply Heq; [apply firstn_nonempty; exact Hj|eauto].
      * intros (j & Hj & Hm).
        assert (Hex : la_match tbl D rest j).
        { split; [exact Hj|]. apply Heq; [apply firstn_nonempty; exact Hj|exact Hm]. }
        (* the longest one exists: it is what the lookahead automaton's own find returns *)
        pose proof (find_plain_spec tbl D rest (proj2 Mok _ _ _ E)) as Hf.
        destruct (find_plain tbl D rest) as [[[t' e]|]|]; [|exfalso; exact (Hf j Hex)|destruct Hf].
        destruct Hf as (j0 & Hm0 & He & Hmax). exists e, j0. split; [exact Hm0|]. split; [exact He|exact Hmax].
    + split.
      * intros (l & Hn & _) j Hj Hm. apply (Hn j). split; [exact Hj|]. apply Heq; [apply firstn_nonempty; exact Hj|exact Hm].
      * intros Hn. exists 0. split; [|reflexivity]. intros j (Hj & Ha). apply (Hn j Hj).
        apply Heq; [apply firstn_nonempty; exact Hj|exact Ha].
  - rewrite (Hla_dom _ E). split; [trivial|]. intros _. exists 0. reflexivity.
Qed.

(* a reported token is matched by its own pattern (never including lookahead text: its end is
   the end of the pattern's match) and its lookahead condition holds at its end *)
Theorem find_gated s t e : find_mode tbl M s = Ok (Some (t, e)) ->
  exists k, e = bpos s k /\ pmatch s k t /\ la_cond t (skipn k s).
Proof.
  intros H. pose proof (find_mode_spec tbl M Mok s) as Hs. rewrite H in Hs.
  destruct Hs as (k & l & He & (Hk & Ha & Hh) & _). exists k. split; [exact He|]. split.
  - split; [exact Hk|apply accepts_pmatch; assumption].
  - apply la_holds_cond. exists l. exact Hh.
Qed.

(* conversely: whenever some pattern matches a non-empty prefix with its lookahead condition
   satisfied, a token is reported *)
Theorem find_complete s : (exists k t, pmatch s k t /\ la_cond t (skipn k s)) ->
  exists t e, find_mode tbl M s = Ok (Some (t, e)).
Proof.
  intros (k & t & (Hk & Hp) & Hc). pose proof (find_mode_spec tbl M Mok s) as Hs.
  destruct (find_mode tbl M s) as [[[t' e']|]|]; [eauto| |destruct Hs].
  exfalso. apply la_holds_cond in Hc as (l & Hl). apply (Hs k l t).
  split; [exact Hk|split; [apply accepts_pmatch; assumption|exact Hl]].
Qed.

(* at the end of the input a positive lookahead fails and a negative one holds *)
Lemma la_cond_at_end t : la_cond t [] <-> match nassoc t lrs with Some (true, _) => False | _ => True end.
Proof.
  unfold la_cond. destruct (nassoc t lrs) as [[[|] r]|]; [| |tauto].
  - split; [intros (j & Hj & _); cbn in Hj; lia|tauto].
  - split; [tauto|]. intros _ j Hj. cbn in Hj. lia.
Qed.
End Rule.
