(* Base.v — shared list utilities for the scnr model. Definitions and their small lemmas. *)
From Coq Require Export List NArith Bool Lia Arith.
Export ListNotations.

(* ---------- sorted duplicate-free lists of nat / N (canonical sets) ---------- *)
Fixpoint insert (x:nat) (l:list nat) := match l with
  | [] => [x] | y::l' => if x <? y then x::l else if x =? y then l else y :: insert x l' end.
Definition norm (l:list nat) := fold_right insert [] l.

Lemma insert_in x l y : In y (insert x l) <-> y = x \/ In y l.
Proof.
  induction l as [|z l IH]; cbn [insert In].
  - intuition congruence.
  - destruct (x <? z); [cbn [In]; intuition congruence|].
    destruct (x =? z) eqn:E2.
    + apply Nat.eqb_eq in E2; subst. cbn [In]. intuition congruence.
    + cbn [In]. rewrite IH. intuition congruence.
Qed.
Lemma norm_in l y : In y (norm l) <-> In y l.
Proof. induction l; cbn [norm fold_right In]; [tauto|]. fold (norm l). rewrite insert_in, IHl. intuition congruence. Qed.

Fixpoint ninsert (x:N) (l:list N) := match l with
  | [] => [x] | y::l' => if N.ltb x y then x::l else if N.eqb x y then l else y :: ninsert x l' end.
Definition nnorm (l:list N) := fold_right ninsert [] l.
Lemma ninsert_in x l y : In y (ninsert x l) <-> y = x \/ In y l.
Proof.
  induction l as [|z l IH]; cbn [ninsert In].
  - intuition congruence.
  - destruct (N.ltb x z); [cbn [In]; intuition congruence|].
    destruct (N.eqb x z) eqn:E2.
    + apply N.eqb_eq in E2; subst. cbn [In]. intuition congruence.
    + cbn [In]. rewrite IH. intuition congruence.
Qed.
Lemma nnorm_in l y : In y (nnorm l) <-> In y l.
Proof. induction l; cbn [nnorm fold_right In]; [tauto|]. fold (nnorm l). rewrite ninsert_in, IHl. intuition congruence. Qed.

(* ---------- boolean equalities ---------- *)
Fixpoint nlist_eqb (a b:list N) := match a,b with [],[] => true | x::a,y::b => N.eqb x y && nlist_eqb a b | _,_ => false end.
Lemma nlist_eqb_eq a b : nlist_eqb a b = true -> a = b.
Proof. revert b; induction a; destruct b; cbn; try discriminate; auto.
  intros H; apply andb_true_iff in H as [H1 H2]. apply N.eqb_eq in H1. f_equal; auto. Qed.
Lemma nlist_eqb_refl a : nlist_eqb a a = true.
Proof. induction a; cbn; auto. rewrite N.eqb_refl; auto. Qed.
Fixpoint natlist_eqb (a b:list nat) := match a,b with [],[] => true | x::a,y::b => if Nat.eqb x y then natlist_eqb a b else false | _,_ => false end.
Lemma natlist_eqb_eq a b : natlist_eqb a b = true -> a = b.
Proof. revert b; induction a; destruct b; cbn; try discriminate; auto.
  intros H. destruct (Nat.eqb a n) eqn:H1; [|discriminate]. apply Nat.eqb_eq in H1. f_equal; auto. Qed.
Lemma natlist_eqb_refl a : natlist_eqb a a = true.
Proof. induction a; cbn; auto. rewrite Nat.eqb_refl; auto. Qed.

Definition nmem (x:N) (l:list N) : bool := existsb (N.eqb x) l.
Lemma nmem_in x l : nmem x l = true <-> In x l.
Proof. unfold nmem. rewrite existsb_exists. split.
  - intros (y & I & E). apply N.eqb_eq in E. congruence.
  - intros I. exists x. split; auto. apply N.eqb_refl. Qed.
Definition natmem (x:nat) (l:list nat) : bool := existsb (Nat.eqb x) l.
Lemma natmem_in x l : natmem x l = true <-> In x l.
Proof. unfold natmem. rewrite existsb_exists. split.
  - intros (y & I & E). apply Nat.eqb_eq in E. congruence.
  - intros I. exists x. split; auto. apply Nat.eqb_refl. Qed.

(* push-if-absent, keeping first occurrences in order: the way Rust fills `next_states` *)
Definition push_new (acc:list nat) (x:nat) : list nat := if natmem x acc then acc else acc ++ [x].
Definition dedup (l:list nat) : list nat := fold_left push_new l [].

Lemma push_new_in acc x y : In y (push_new acc x) <-> In y acc \/ y = x.
Proof.
  unfold push_new. destruct (natmem x acc) eqn:E.
  - apply natmem_in in E. intuition congruence.
  - rewrite in_app_iff. cbn. intuition congruence.
Qed.
Lemma fold_push_new_in l : forall acc y, In y (fold_left push_new l acc) <-> In y acc \/ In y l.
Proof.
  induction l as [|x l IH]; intros acc y; cbn [fold_left In]; [tauto|].
  rewrite IH, push_new_in. intuition congruence.
Qed.
Lemma dedup_in l y : In y (dedup l) <-> In y l.
Proof. unfold dedup. rewrite fold_push_new_in. cbn. tauto. Qed.

(* association lookup on N keys *)
Fixpoint nassoc {A} (k:N) (l:list (N * A)) : option A :=
  match l with [] => None | (k',v)::l' => if N.eqb k k' then Some v else nassoc k l' end.

Lemma nassoc_in {A} k (l:list (N*A)) v : nassoc k l = Some v -> In (k,v) l.
Proof. induction l as [|[k' v'] l IH]; cbn; [discriminate|].
  destruct (N.eqb k k') eqn:E; [apply N.eqb_eq in E; subst; intros H; inversion H; auto | auto]. Qed.

(* position of the first occurrence *)
Fixpoint nindex (x:N) (l:list N) : option nat :=
  match l with [] => None | y::l' => if N.eqb x y then Some 0 else option_map S (nindex x l') end.
