(* Nfa.v — transcription of the Thompson construction of scnr (scnr/src/internal/nfa.rs):
   Nfa::new, is_empty, new_state, add_transition, add_epsilon_transition, shift_ids, append,
   concat, alternation, unite, zero_or_one, one_or_more, zero_or_more, try_from_ast.
   Definitions only; proofs are in NfaProofs.v.

   Every Rust panic site of these functions is explicit (result `Panic` / outcome `Panicked`):
     - `self.states[from]` with from out of range            (add_transition, add_epsilon_transition)
     - `debug_assert!(eps.len() + transitions.len() <= 2)`   (add_transition, add_epsilon_transition)
     - `debug_assert!(all states: id == index)`              (append)
   State ids are `nat` (the u32 overflow of StateIDBase is a resource limit and not modelled).
   A leaf (Literal, Dot, Class..) registers its class; the class id is modelled by the leaf's
   atom id (the registry is modelled elsewhere). The `pattern` field is not modelled. *)
From Scnr Require Import Base Regex Automaton FindFrom Spec.

Record nstate := { sid : nat; seps : list nat; strs : list (N * nat) }.
Record nfa := { nstates : list nstate; nstart : nat; nend : nat }.

Definition rbind {A B} (r:res A) (f:A -> res B) : res B :=
  match r with Ok a => f a | Panic => Panic end.
Local Notation "'do' x <- r ; k" := (rbind r (fun x => k))
  (at level 200, x name, r at level 100, k at level 200).

(* NfaState::default() / NfaState::new(id) *)
Definition empty_state (i:nat) : nstate := {| sid := i; seps := []; strs := [] |}.
(* Nfa::new() *)
Definition nfa_new : nfa := {| nstates := [empty_state 0]; nstart := 0; nend := 0 |}.

(* NfaState::is_empty *)
Definition state_is_empty (s:nstate) : bool :=
  match strs s, seps s with [], [] => true | _, _ => false end.
(* Nfa::is_empty: start == 0 && end == 0 && states.len() == 1 && states[0].is_empty()
   (short-circuit: states[0] is only read when the length is 1) *)
Definition nfa_is_empty (n:nfa) : bool :=
  (nstart n =? 0) && (nend n =? 0) && (length (nstates n) =? 1) &&
  match nstates n with s :: _ => state_is_empty s | [] => false end.

(* l[i] = f l[i]; None when i is out of range *)
Fixpoint update {A} (l:list A) (i:nat) (f:A -> A) : option (list A) :=
  match l, i with
  | [], _ => None
  | x :: l', 0 => Some (f x :: l')
  | x :: l', S i' => match update l' i' f with Some r => Some (x :: r) | None => None end
  end.

Definition degree (s:nstate) : nat := length (seps s) + length (strs s).
Definition push_eps (to:nat) (s:nstate) : nstate :=
  {| sid := sid s; seps := seps s ++ [to]; strs := strs s |}.
Definition push_tr (cc:N) (to:nat) (s:nstate) : nstate :=
  {| sid := sid s; seps := seps s; strs := strs s ++ [(cc,to)] |}.

Definition with_states (n:nfa) (sts:list nstate) : nfa :=
  {| nstates := sts; nstart := nstart n; nend := nend n |}.

(* states[from].epsilon_transitions.push(..); debug_assert!(eps + trs <= 2) *)
Definition nfa_add_epsilon_transition (n:nfa) (from to:nat) : res nfa :=
  match update (nstates n) from (push_eps to) with
  | None => Panic
  | Some sts =>
      match nth_error sts from with
      | Some s => if degree s <=? 2 then Ok (with_states n sts) else Panic
      | None => Panic
      end
  end.
(* states[from].transitions.push(..); debug_assert!(eps + trs <= 2) *)
Definition nfa_add_transition (n:nfa) (from:nat) (cc:N) (to:nat) : res nfa :=
  match update (nstates n) from (push_tr cc to) with
  | None => Panic
  | Some sts =>
      match nth_error sts from with
      | Some s => if degree s <=? 2 then Ok (with_states n sts) else Panic
      | None => Panic
      end
  end.

Definition nfa_new_state (n:nfa) : nfa * nat :=
  let i := length (nstates n) in (with_states n (nstates n ++ [empty_state i]), i).
Definition set_start (n:nfa) (s:nat) : nfa := {| nstates := nstates n; nstart := s; nend := nend n |}.
Definition set_end (n:nfa) (e:nat) : nfa := {| nstates := nstates n; nstart := nstart n; nend := e |}.

(* NfaState::offset / Nfa::shift_ids *)
Definition shift_state (k:nat) (s:nstate) : nstate :=
  {| sid := sid s + k; seps := map (fun t => t + k) (seps s);
     strs := map (fun p => (fst p, snd p + k)) (strs s) |}.
Definition nfa_shift_ids (n:nfa) (k:nat) : nfa :=
  {| nstates := map (shift_state k) (nstates n); nstart := nstart n + k; nend := nend n + k |}.

(* Nfa::append: debug_assert!(states[i].id == i for all i) *)
Fixpoint ids_ok_from (i:nat) (l:list nstate) : bool :=
  match l with [] => true | s :: l' => (sid s =? i) && ids_ok_from (S i) l' end.
Definition nfa_append (n m:nfa) : res nfa :=
  let sts := nstates n ++ nstates m in
  if ids_ok_from 0 sts then Ok (with_states n sts) else Panic.

(* the is_empty shortcut: take over start, end and states of the argument *)
Definition adopt (m:nfa) : nfa := {| nstates := nstates m; nstart := nstart m; nend := nend m |}.

Definition nfa_concat (n m:nfa) : res nfa :=
  if nfa_is_empty n then Ok (adopt m) else
  let m' := nfa_shift_ids m (length (nstates n)) in
  do n1 <- nfa_append n m' ;
  do n2 <- nfa_add_epsilon_transition n1 (nend n1) (nstart m') ;
  Ok (set_end n2 (nend m')).

Definition nfa_unite (n m:nfa) : res nfa :=
  let m' := nfa_shift_ids m (length (nstates n)) in
  do n1 <- nfa_append n m' ;
  let '(n2, s) := nfa_new_state n1 in
  do n3 <- nfa_add_epsilon_transition n2 s (nstart n2) ;
  do n4 <- nfa_add_epsilon_transition n3 s (nstart m') ;
  let '(n5, e) := nfa_new_state n4 in
  do n6 <- nfa_add_epsilon_transition n5 (nend n5) e ;
  do n7 <- nfa_add_epsilon_transition n6 (nend m') e ;
  Ok (set_end (set_start n7 s) e).

Definition nfa_alternation (n m:nfa) : res nfa :=
  if nfa_is_empty n then Ok (adopt m) else nfa_unite n m.

Definition nfa_zero_or_one (n:nfa) : res nfa :=
  let '(n1, s) := nfa_new_state n in
  do n2 <- nfa_add_epsilon_transition n1 s (nstart n1) ;
  do n3 <- nfa_add_epsilon_transition n2 s (nend n2) ;
  Ok (set_start n3 s).

Definition nfa_one_or_more (n:nfa) : res nfa :=
  let '(n1, s) := nfa_new_state n in
  do n2 <- nfa_add_epsilon_transition n1 s (nstart n1) ;
  let '(n3, e) := nfa_new_state n2 in
  do n4 <- nfa_add_epsilon_transition n3 (nend n3) e ;
  do n5 <- nfa_add_epsilon_transition n4 (nend n4) (nstart n4) ;
  Ok (set_end (set_start n5 s) e).

Definition nfa_zero_or_more (n:nfa) : res nfa :=
  let '(n1, s) := nfa_new_state n in
  do n2 <- nfa_add_epsilon_transition n1 s (nstart n1) ;
  do n3 <- nfa_add_epsilon_transition n2 s (nend n2) ;
  let '(n4, e) := nfa_new_state n3 in
  do n5 <- nfa_add_epsilon_transition n4 (nend n4) e ;
  do n6 <- nfa_add_epsilon_transition n5 (nend n5) (nstart n5) ;
  Ok (set_end (set_start n6 s) e).

(* Literal, Dot, Class..: start = nfa.end_state(); end = new_state(); set_end; add_transition *)
Definition nfa_leaf (cc:N) : res nfa :=
  let n := nfa_new in
  let st := nend n in
  let '(n1, e) := nfa_new_state n in
  let n2 := set_end n1 e in
  nfa_add_transition n2 st cc e.

(* for _ in 0..k { acc.concat(m.clone()) } *)
Fixpoint repeat_concat (k:nat) (acc m:nfa) : res nfa :=
  match k with 0 => Ok acc | S k' => do a <- nfa_concat acc m ; repeat_concat k' a m end.

Inductive outcome := Built (n:nfa) | Unsupported | Panicked.
Definition lift (r:res nfa) : outcome := match r with Ok n => Built n | Panic => Panicked end.

(* the loops of the Alternation and Concat arms; f is try_from_ast *)
Section Loops.
Variable f : ast -> outcome.
Fixpoint alt_loop (first:bool) (acc:nfa) (l:list ast) : outcome :=
  match l with
  | [] => Built acc
  | a1 :: l' =>
      match f a1 with
      | Built n2 =>
          match (if first then nfa_alternation acc n2 else nfa_unite acc n2) with
          | Ok acc' => alt_loop false acc' l'
          | Panic => Panicked
          end
      | o => o
      end
  end.
Fixpoint cat_loop (acc:nfa) (l:list ast) : outcome :=
  match l with
  | [] => Built acc
  | a1 :: l' =>
      match f a1 with
      | Built n2 => match nfa_concat acc n2 with Ok acc' => cat_loop acc' l' | Panic => Panicked end
      | o => o
      end
  end.
End Loops.

Definition rep_build (k:repk) (n2:nfa) : res nfa :=
  match k with
  | RZeroOrOne => nfa_zero_or_one n2
  | RZeroOrMore => nfa_zero_or_more n2
  | ROneOrMore => nfa_one_or_more n2
  | RExactly c => repeat_concat c nfa_new n2
  | RAtLeast c => do n <- repeat_concat c nfa_new n2 ; do z <- nfa_zero_or_more n2 ; nfa_concat n z
  | RBounded lo hi => do n <- repeat_concat lo nfa_new n2 ; do z <- nfa_zero_or_one n2 ;
                      repeat_concat (hi - lo) n z
  end.

Fixpoint try_from_ast (a:ast) : outcome :=
  match a with
  | AEmpty => Built nfa_new
  | ALeaf cc => lift (nfa_leaf cc)
  | AFlags => Unsupported
  | AAssertion => Unsupported
  | ARep k greedy a1 =>
      match try_from_ast a1 with           (* the sub-AST is converted first *)
      | Built n2 => if negb greedy then Unsupported else lift (rep_build k n2)
      | o => o
      end
  | AGroup flagged a1 => if flagged then Unsupported else try_from_ast a1
  | AAlt l => alt_loop try_from_ast true nfa_new l
  | AConcat l => cat_loop try_from_ast nfa_new l
  end.

(* ---------- what scnr supports, declaratively ---------- *)
Fixpoint supported (a:ast) : bool :=
  match a with
  | AEmpty | ALeaf _ => true
  | AFlags | AAssertion => false
  | ARep _ greedy a1 => greedy && supported a1
  | AGroup flagged a1 => negb flagged && supported a1
  | AAlt l | AConcat l => forallb supported l
  end.

(* no alternation without alternatives (regex_syntax never produces one) *)
Fixpoint alts_nonempty (a:ast) : bool :=
  match a with
  | ARep _ _ a1 | AGroup _ a1 => alts_nonempty a1
  | AAlt l => match l with [] => false | _ => forallb alts_nonempty l end
  | AConcat l => forallb alts_nonempty l
  | _ => true
  end.

(* ---------- the view of an NFA used by invariants and semantics ---------- *)
Definition sid_at (n:nfa) (q:nat) : option nat := option_map sid (nth_error (nstates n) q).
Definition out_eps (n:nfa) (q:nat) : list nat :=
  match nth_error (nstates n) q with Some s => seps s | None => [] end.
Definition out_trs (n:nfa) (q:nat) : list (N * nat) :=
  match nth_error (nstates n) q with Some s => strs s | None => [] end.

(* ids are indices, out-degree <= 2, targets in range, start and end in range,
   the end state has no outgoing edge *)
Definition WF (n:nfa) : Prop :=
  (forall q, q < length (nstates n) -> sid_at n q = Some q) /\
  (forall q, length (out_eps n q) + length (out_trs n q) <= 2) /\
  (forall q t, In t (out_eps n q) -> t < length (nstates n)) /\
  (forall q cc t, In (cc,t) (out_trs n q) -> t < length (nstates n)) /\
  nstart n < length (nstates n) /\ nend n < length (nstates n) /\
  out_eps n (nend n) = [] /\ out_trs n (nend n) = [].

(* ---------- language ---------- *)
Section Path.
Variable E : nat -> nat -> Prop.          (* epsilon step *)
Variable C : nat -> N -> nat -> Prop.     (* step consuming one character *)
Inductive gpath : nat -> list N -> nat -> Prop :=
| GNil q : gpath q [] q
| GEps q q1 w q' : E q q1 -> gpath q1 w q' -> gpath q w q'
| GCh q c q1 w q' : C q c q1 -> gpath q1 w q' -> gpath q (c :: w) q'.
End Path.

Definition eps_edge (n:nfa) (q q':nat) : Prop := In q' (out_eps n q).
Definition ch_edge (tbl:N -> N -> bool) (n:nfa) (q:nat) (c:N) (q':nat) : Prop :=
  exists cc, In (cc,q') (out_trs n q) /\ tbl cc c = true.
Definition nfa_path (tbl:N -> N -> bool) (n:nfa) : nat -> list N -> nat -> Prop :=
  gpath (eps_edge n) (ch_edge tbl n).
Definition nfa_lang (tbl:N -> N -> bool) (n:nfa) (w:list N) : Prop :=
  nfa_path tbl n (nstart n) w (nend n).

(* Kleene star of a language *)
Inductive lstar (Lg:list N -> Prop) : list N -> Prop :=
| lstar_nil : lstar Lg []
| lstar_app u v : Lg u -> lstar Lg v -> lstar Lg (u ++ v).

(* ---------- executable matcher: epsilon closures and character steps ---------- *)
Definition eps_closedb (n:nfa) (X:list nat) : bool :=
  forallb (fun t => natmem t X) (flat_map (out_eps n) X).
Definition eps_close_step (n:nfa) (X:list nat) : list nat := norm (X ++ flat_map (out_eps n) X).
Fixpoint iter_close (n:nfa) (k:nat) (X:list nat) : list nat :=
  match k with
  | 0 => X
  | S k' => if eps_closedb n X then X else iter_close n k' (eps_close_step n X)
  end.
Definition eclose (n:nfa) (X:list nat) : list nat := iter_close n (length (nstates n)) X.
Definition char_step (tbl:N -> N -> bool) (n:nfa) (X:list nat) (c:N) : list nat :=
  flat_map (fun q => map snd (filter (fun p => tbl (fst p) c) (out_trs n q))) X.
Fixpoint nfa_run (tbl:N -> N -> bool) (n:nfa) (X:list nat) (w:list N) : list nat :=
  match w with
  | [] => eclose n X
  | c :: w' => nfa_run tbl n (char_step tbl n (eclose n X) c) w'
  end.
Definition nfa_matchb (tbl:N -> N -> bool) (n:nfa) (w:list N) : bool :=
  natmem (nend n) (nfa_run tbl n [nstart n] w).

(* ---------- encoding for generated test files ---------- *)
Definition enc_state (s:nstate) : list N :=
  N.of_nat (sid s) :: N.of_nat (length (seps s)) ::
  map N.of_nat (seps s) ++ flat_map (fun p => [fst p; N.of_nat (snd p)]) (strs s).
Definition enc_nfa (n:nfa) : list (list N) :=
  [N.of_nat (nstart n); N.of_nat (nend n)] :: map enc_state (nstates n).
Definition try_from_ast_enc (a:ast) : list (list N) :=
  match try_from_ast a with
  | Built n => enc_nfa n
  | Unsupported => [[0%N]]
  | Panicked => [[999999%N]]
  end.
