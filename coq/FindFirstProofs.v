(* FindFirstProofs.v — find_from reports, among the maximal candidates (extent, then priority), the
   one that ends first. Together with the selection theorem this determines the result
   uniquely, which is what makes it comparable with the executable specification also when
   several lengths of one pattern have the same extent (lookahead ties). *)
From Scnr Require Import Base Regex Automaton FindFrom FindFromProofs ModeProofs RuleProofs.

Section P.
Variable tbl : N -> N -> bool.
Variable A : dfa.
Variable la : N -> list N -> res (option nat).

Notation le_c := (le_c A).
Notation betterp := (betterp A).
Notation considerp := (considerp A la).
Notation Cand := (Cand tbl A la).
Notation Inv := (Inv tbl A la).

Lemma le_c_total a b : le_c a b \/ le_c b a.
Proof. unfold FindFromProofs.le_c. lia. Qed.
Lemma better_iff c b0 : betterp c (Some b0) = true <-> ~ le_c c b0.
Proof.
  split.
  - intros H Hle. unfold FindFromProofs.betterp in H. unfold FindFromProofs.le_c in Hle.
    destruct (ext b0 <? ext c) eqn:E1; [apply Nat.ltb_lt in E1; lia|].
    destruct (ext c =? ext b0) eqn:E2; [|discriminate]. apply Nat.eqb_eq in E2. apply Nat.ltb_lt in H. lia.
  - intros H. destruct (betterp c (Some b0)) eqn:E; [reflexivity|]. exfalso. apply H. apply better_false. exact E.
Qed.

(* the fold over the candidates of one step: the result is the old best, or a candidate of this
   step that is strictly better than the old best *)
Lemma fold_strict e rest ts : forall b,
  let b' := fold_left (considerp e rest) ts b in
  b' = b \/ exists l t, b' = Some (e, l, t) /\ forall c0, b = Some c0 -> ~ le_c (e, l, t) c0.
Proof.
  induction ts as [|t ts IH]; intros b; cbn [fold_left]; [left; reflexivity|].
  destruct (IH (considerp e rest b t)) as [E|(l & t' & E & Hs)]; cbn zeta in *.
  - rewrite E. unfold FindFromProofs.considerp. destruct (lad la t rest) as [l|]; [|left; reflexivity].
    destruct (betterp (e, l, t) b) eqn:Eb; [|left; reflexivity].
    right. exists l, t. split; [reflexivity|]. intros c0 ->. apply better_iff. exact Eb.
  - right. exists l, t'. split; [exact E|]. intros c0 Eb0.
    unfold FindFromProofs.considerp in Hs. destruct (lad la t rest) as [l1|]; [|apply Hs; exact Eb0].
    destruct (betterp (e, l1, t) b) eqn:Eb.
    + (* replaced in between: the final one is strictly better than the intermediate, which is better than c0 *)
      specialize (Hs _ eq_refl). rewrite Eb0 in Eb. apply better_iff in Eb.
      intros Hle. destruct (le_c_total (e, l1, t) c0) as [H1|H1]; [contradiction|].
      apply Hs. eapply le_c_trans; [exact Hle|exact H1].
    + apply Hs. exact Eb0.
Qed.

(* b ends no later than every equally good candidate among the first |p| lengths *)
Definition First (p s:list N) (b:option cand3) : Prop :=
  forall e l t, b = Some (e, l, t) ->
    forall k' l' t', Cand (p ++ s) k' l' t' -> k' <= length p ->
      le_c (e, l, t) (bpos (p ++ s) k', l', t') -> e <= bpos (p ++ s) k'.

Lemma bpos_mono_le s k k' : k <= k' -> bpos s k <= bpos s k'.
Proof.
  unfold bpos. revert k k'. induction s as [|c s IH]; intros k k' H; [destruct k, k'; cbn; lia|].
  destruct k as [|k]; [cbn; lia|]. destruct k' as [|k']; [lia|]. cbn [firstn blen]. specialize (IH k k'). lia.
Qed.

Lemma sim_first : forall s p b, Inv p s b -> First p s b ->
  First (p ++ s) [] (simp tbl A la (run tbl A [0] p) (blen p) s b).
Proof.
  induction s as [|c s IH]; intros p b HI HF.
  - cbn [simp]. rewrite app_nil_r in *. exact HF.
  - cbn [simp]. cbn zeta.
    set (S0 := run tbl A [0] p). set (e := blen p + len_utf8 c).
    set (b' := fold_left (considerp e s) (acc_targets tbl A S0 c) b).
    pose proof (sim_spec tbl A la) as Hspec.
    (* the invariant after this character, as in sim_spec *)
    assert (HI' : Inv (p ++ [c]) s b').
    { (* re-derive it from sim_spec's proof is not exported; rebuild from the fold lemmas *)
      destruct (fold_considerp A la e s (acc_targets tbl A S0 c) b) as (F1 & F2 & F3). fold b' in F1, F2, F3.
      assert (He : e = bpos (p ++ c :: s) (S (length p))).
      { unfold bpos. rewrite firstn_snoc, blen_app. cbn [blen]. unfold e. lia. }
      destruct HI as (H1 & H2). unfold FindFromProofs.Inv. rewrite <- app_assoc. cbn [app]. split.
      - intros e1 l1 t1 E. destruct F3 as [Eb|(t & l & Hin & El & Eb)].
        + rewrite Eb in E. destruct (H1 _ _ _ E) as (k & Hk & Hek & Hc). exists k. split; [|split]; auto.
          rewrite app_length. cbn. lia.
        + rewrite Eb in E. inversion E; subst e1 l1 t1. exists (S (length p)). split; [|split].
          * rewrite app_length. cbn. lia.
          * exact He.
          * unfold FindFromProofs.Cand. split; [rewrite app_length; cbn; lia|]. split.
            -- rewrite firstn_snoc. apply (acc_targets_spec tbl A) in Hin as (q' & Hq' & Ha).
               exists q'. split; auto. rewrite run_app. cbn. exact Hq'.
            -- rewrite skipn_snoc. exact El.
      - intros k l t Hc Hk. rewrite app_length in Hk. cbn in Hk.
        destruct (Nat.eq_dec k (S (length p))) as [->|Hne].
        + destruct Hc as (_ & Hacc & Hla). rewrite firstn_snoc in Hacc. rewrite skipn_snoc in Hla.
          rewrite <- He. apply F2; auto. apply (acc_targets_spec tbl A). destruct Hacc as (q' & Hq' & Ha).
          exists q'. split; auto. rewrite run_app in Hq'. exact Hq'.
        + destruct (H2 k l t Hc) as (c1 & E1 & L1); [lia|].
          destruct (F1 _ E1) as (c2 & E2 & L2). exists c2. split; auto. eapply le_c_trans; eauto. }
    assert (HF' : First (p ++ [c]) s b').
    { unfold First. rewrite <- app_assoc. cbn [app]. intros e1 l1 t1 E k' l' t' Hc Hk Hle.
      rewrite app_length in Hk. cbn in Hk.
      assert (He : e = bpos (p ++ c :: s) (S (length p))).
      { unfold bpos. rewrite firstn_snoc, blen_app. cbn [blen]. unfold e. lia. }
      destruct (fold_strict e s (acc_targets tbl A S0 c) b) as [Eb|(l & t & Eb & Hs)]; fold b' in Eb.
      - (* unchanged *)
        rewrite Eb in E. destruct (Nat.eq_dec k' (S (length p))) as [->|Hne].
        + destruct HI as (H1 & _). destruct (H1 _ _ _ E) as (k & Hk0 & Hek & _). rewrite Hek.
          apply bpos_mono_le. lia.
        + apply (HF _ _ _ E k' l' t' Hc); [lia|exact Hle].
      - (* replaced by a candidate of this step *)
        rewrite Eb in E. inversion E; subst e1 l1 t1.
        destruct (Nat.eq_dec k' (S (length p))) as [->|Hne]; [rewrite <- He; lia|].
        exfalso. destruct HI as (_ & H2). destruct (H2 k' l' t' Hc) as (c1 & E1 & L1); [lia|].
        apply (Hs _ E1). eapply le_c_trans; [exact Hle|exact L1]. }
    destruct (step tbl A S0 c) as [|q0 S'] eqn:Es.
    + unfold First. rewrite app_nil_r.
      replace (p ++ c :: s) with ((p ++ [c]) ++ s) by (rewrite <- app_assoc; reflexivity).
      intros e1 l1 t1 E k' l' t' Hc _ Hle.
      destruct (le_lt_dec k' (length (p ++ [c]))) as [Hk|Hgt]; [eapply HF'; eauto|].
      (* no candidate beyond: the automaton is dead *)
      exfalso. destruct Hc as (Hk & (q' & Hq' & _) & _).
      rewrite <- (firstn_skipn (length (p ++ [c])) (firstn k' ((p ++ [c]) ++ s))) in Hq'.
      rewrite firstn_firstn, Nat.min_l in Hq' by lia.
      rewrite firstn_app, Nat.sub_diag, firstn_all in Hq'. cbn [firstn] in Hq'. rewrite app_nil_r in Hq'.
      rewrite run_app, (run_app _ _ _ p [c]) in Hq'. cbn [run] in Hq'. fold S0 in Hq'. rewrite Es in Hq'.
      rewrite run_nil in Hq'. destruct Hq'.
    + specialize (IH (p ++ [c]) b' HI' HF').
      rewrite run_app in IH. cbn [run] in IH. fold S0 in IH. rewrite Es in IH.
      rewrite blen_app in IH. cbn [blen] in IH. rewrite Nat.add_0_r in IH. fold e in IH.
      rewrite <- app_assoc in IH. exact IH.
Qed.

Hypothesis la_ok : forall t rest, la t rest <> Panic.
Hypothesis acc_tids : forall q t, acc A q t = true -> In t (tids A).

Theorem find_from_first s t e k l :
  find_from tbl A la s = Ok (Some (t, e)) -> e = bpos s k -> Cand s k l t ->
  forall k' l' t', Cand s k' l' t' -> le_c (e, l, t) (bpos s k', l', t') -> e <= bpos s k'.
Proof.
  intros H He Hck k' l' t' Hc Hle.
  unfold find_from in H.
  assert (Hn : tok_ok A None) by (intros b0 E; discriminate).
  destruct (sim_pure tbl A la la_ok acc_tids s [0] 0 None Hn) as [E _]. rewrite E in H.
  assert (H0 : Inv [] s None).
  { split; [discriminate|]. intros k0 l0 t0 (Hk0 & _) Hle0. cbn in Hle0. lia. }
  assert (HF0 : First [] s None) by (intros e0 l0 t0 E0; discriminate).
  pose proof (sim_first s [] None H0 HF0) as HF. pose proof (sim_spec tbl A la s [] None H0) as (H1 & _).
  unfold First in HF. cbn [app length run blen] in HF, H1. rewrite app_nil_r in H1. rewrite app_nil_r in HF.
  destruct (simp tbl A la [0] 0 s None) as [[[e1 l1] t1]|]; [|discriminate]. inversion H; subst t1 e1.
  (* l1 = l: the lookahead length is determined by (k, t) *)
  destruct (H1 _ _ _ eq_refl) as (k1 & _ & Hek1 & Hck1).
  assert (l1 = l).
  { destruct Hck1 as ((Hk1a & Hk1b) & _ & Hl1). destruct Hck as ((Hka & Hkb) & _ & Hl).
    assert (k1 = k).
    { destruct (lt_eq_lt_dec k1 k) as [[Hlt|Heq]|Hgt]; [|exact Heq|].
      - pose proof (bpos_mono s k1 k Hlt Hkb). lia.
      - pose proof (bpos_mono s k k1 Hgt Hk1b). lia. }
    subst k1. congruence. }
  subst l1. apply (HF _ _ _ eq_refl k' l' t' Hc); [destruct Hc as ((_ & Hk) & _); exact Hk|exact Hle].
Qed.
End P.
