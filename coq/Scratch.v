(* Scratch.v — CompiledDfa::find_from with its scratch vectors explicit.

   The Rust automaton carries two vectors, current_states and next_states, that survive a call
   (they live inside the CompiledDfa of the ScannerImpl an iterator owns). FindFrom.v models the
   function without them; here they are threaded through, with the statements of the Rust body in
   their order: clear / push(0) / clear at entry, push-if-absent into next_states inside the loop,
   current_states.clear() and swap at the end of every round. The flag `clear_at_entry` exists only
   to show that the theorem below is about the clearing: with `false` it fails (refutation at the end). *)
From Scnr Require Import Base Automaton FindFrom.

Definition scratch := (list nat * list nat)%type.     (* (current_states, next_states) *)
Definition vclear (v:list nat) : list nat := [].
Definition vpush (v:list nat) (x:nat) : list nat := v ++ [x].

Section S.
Variable tbl : N -> N -> bool.
Variable A : dfa.
Variable la : N -> list N -> res (option nat).

Fixpoint sim_st (cur nxt:list nat) (i:nat) (s:list N) (b:option cand3) : res (option cand3) * scratch :=
  match s with
  | [] => (Ok b, (cur, nxt))
  | c :: s' =>
      let e := i + len_utf8 c in
      (* if !next_states.contains(next) { next_states.push(next) } for every matching transition *)
      let nxt1 := fold_left push_new (flat_map (fun q => out tbl A q c) cur) nxt in
      match fold_left (consider A la e s') (acc_targets tbl A cur c) (Ok b) with
      | Panic => (Panic, (cur, nxt1))
      | Ok b' =>
          (* current_states.clear(); swap(current_states, next_states) *)
          let cur2 := nxt1 in
          let nxt2 := vclear cur in
          match cur2 with
          | [] => (Ok b', (cur2, nxt2))
          | _ => sim_st cur2 nxt2 e s' b'
          end
      end
  end.

Definition find_from_st (clear_at_entry:bool) (sc:scratch) (s:list N) : res (option (N * nat)) * scratch :=
  let cur := vpush (if clear_at_entry then vclear (fst sc) else fst sc) 0 in
  let nxt := if clear_at_entry then vclear (snd sc) else snd sc in
  let (r, sc') := sim_st cur nxt 0 s None in
  (match r with
   | Panic => Panic
   | Ok None => Ok None
   | Ok (Some (e, _, t)) => Ok (Some (t, e))
   end, sc').

Lemma sim_st_sim : forall s cur i b, fst (sim_st cur [] i s b) = sim tbl A la cur i s b.
Proof.
  induction s as [|c s IH]; intros cur i b; [reflexivity|]. cbn [sim_st sim].
  fold (dedup (flat_map (fun q => out tbl A q c) cur)). fold (step tbl A cur c).
  destruct (fold_left (consider A la (i + len_utf8 c) s) (acc_targets tbl A cur c) (Ok b)) as [b'|]; [|reflexivity].
  destruct (step tbl A cur c) as [|q S'] eqn:E; [reflexivity|]. unfold vclear. apply IH.
Qed.

(* the result of a call does not depend on what earlier calls (or anything else) left in the
   scratch vectors *)
Theorem find_from_st_result : forall sc s, fst (find_from_st true sc s) = find_from tbl A la s.
Proof.
  intros sc s. unfold find_from_st, find_from, vclear, vpush. cbn [app].
  pose proof (sim_st_sim s [0] 0 None) as H.
  destruct (sim_st [0] [] 0 s None) as [r sc'] eqn:E. cbn [fst] in *. rewrite <- H. reflexivity.
Qed.
Corollary scratch_irrelevant : forall sc1 sc2 s, fst (find_from_st true sc1 s) = fst (find_from_st true sc2 s).
Proof. intros. rewrite !find_from_st_result. reflexivity. Qed.
(* any sequence of calls on one automaton: every result is the function of its own haystack *)
Fixpoint calls (sc:scratch) (hs:list (list N)) : list (res (option (N * nat))) :=
  match hs with
  | [] => []
  | s :: hs' => let (r, sc') := find_from_st true sc s in r :: calls sc' hs'
  end.
Theorem calls_independent : forall hs sc, calls sc hs = map (find_from tbl A la) hs.
Proof.
  induction hs as [|s hs IH]; intros sc; [reflexivity|]. cbn [calls map].
  pose proof (find_from_st_result sc s) as H. destruct (find_from_st true sc s) as [r sc']. cbn [fst] in H.
  rewrite H, IH. reflexivity.
Qed.
End S.

(* ---------- without the clearing the statement is false ---------- *)
Definition ex_sc_tbl (a c:N) : bool := N.eqb c (97 + a).
(* state 0 -a-> 1 (accepting, type 0); state 2 -b-> 3 (accepting, type 1); state 2 is not reachable *)
Definition ex_sc_A : dfa :=
  {| trans := [[(0%N, 1)]; []; [(1%N, 3)]; []];
     fin := [(false, 0%N); (true, 0%N); (false, 0%N); (true, 1%N)];
     tids := [0%N; 1%N] |}.
Lemma without_clearing_refuted :
  fst (find_from_st ex_sc_tbl ex_sc_A no_la false ([2], []) [98%N]) = Ok (Some (1%N, 1))
  /\ fst (find_from_st ex_sc_tbl ex_sc_A no_la false ([], []) [98%N]) = Ok None
  /\ fst (find_from_st ex_sc_tbl ex_sc_A no_la true ([2], []) [98%N]) = Ok None.
Proof. vm_compute. auto. Qed.
