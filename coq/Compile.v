(* Compile.v — from the per-pattern Thompson NFAs to the compiled automaton.
   Gallina transcription of
     scnr/src/internal/nfa.rs              find_state, contains_state, epsilon_closure,
                                           get_match_transitions, highest_state_number
     scnr/src/internal/multi_pattern_nfa.rs try_from_patterns (shift_ids / next_state /
                                           start_transitions), find_nfa, is_accepting_state,
                                           epsilon_closure, get_match_transitions
     scnr/src/internal/compiled_dfa.rs     impl From<MultiPatternNfa> for CompiledDfa,
                                           impl From<Nfa> for CompiledDfa (lookaheads)
   Executable definitions only; the proofs are in CompileProofs.v.

   This is NOT a subset construction. A compiled state is the epsilon closure of ONE NFA state
   (state 0: the closure of the start); the result stays nondeterministic and `find_from`
   simulates sets of compiled states.

   Data representation
     StateID (NFA)                      nat
     StateSetID (compiled state)        nat, the index in the state map (discovery order)
     CharClassID                        N; as in Nfa.v the class id of a leaf IS the leaf's atom id.
                                        The registry (character_class_registry.rs) is therefore the
                                        identity here: its deduplication (a leaf gets the id of the
                                        first registered leaf that is ComparableAst-equal, else a
                                        fresh id) is done where the ASTs enter the model (the Python
                                        side numbers the leaves by ComparableAst-equality class in
                                        registration order).
     TerminalID                         N, not truncated (`as TerminalIDBase` is a resource limit)
     BTreeSet<StateID>                  strictly ascending list of nat (`norm`)
     FxHashMap<BTreeSet, StateSetID>    list of sets; the value is the index (ids are handed out as
                                        state_map.len(), so value = insertion index)
     FxHashSet<(from, cc, to)>          duplicate-free list in insertion order. Rust iterates the
                                        hash set in hash order when it fills states[from]; the
                                        per-state edge lists are therefore compared as sets
                                        (`enc_dfa` sorts them).
     VecDeque<StateSetID>               list, push_back = append, pop_front = head
   Panic sites (result `Panic`)
     Nfa::epsilon_closure               "State not found"
     Nfa::get_match_transitions         states()[state] out of range
     MultiPatternNfa::get_match_transitions  "NFA for target state not found", "State .. not found"
     From<MultiPatternNfa>              find_nfa(target).expect("NFA not found"),
                                        state_map.iter().find(..).unwrap(), states[from],
                                        end_states[state]
   The two `while` loops (closure worklist, BFS queue) are run with fuel; running out of fuel is
   reported as `Panic` as well. CompileProofs.v shows that neither a panic nor fuel exhaustion
   occurs for well-formed inputs (`compile_mp_total`, `compile_single_total`). *)
From Scnr Require Import Base Regex Automaton FindFrom Spec Nfa Minimizer.

Local Notation "'do' x <- r ; k" := (rbind r (fun x => k))
  (at level 200, x name, r at level 100, k at level 200).

(* ================= nfa.rs ================= *)
(* states.iter().find(|s| s.id() == state) / states.iter().any(|s| s.id() == state) *)
Definition find_state (n:nfa) (q:nat) : option nstate := find (fun s => sid s =? q) (nstates n).
Definition contains_state (n:nfa) (q:nat) : bool := existsb (fun s => sid s =? q) (nstates n).

(* let mut closure = vec![state]; let mut i = 0;
   while i < closure.len() { find_state(closure[i]) .. push the epsilon targets that are not
   contained .. i += 1 }  — panics when a state is not found *)
Fixpoint closure_loop (fuel:nat) (n:nfa) (cl:list nat) (i:nat) : res (list nat) :=
  match fuel with
  | 0 => Panic
  | S f =>
      match nth_error cl i with
      | None => Ok cl
      | Some q =>
          match find_state n q with
          | None => Panic
          | Some s => closure_loop f n (fold_left push_new (seps s) cl) (S i)
          end
      end
  end.
(* .. closure.sort_unstable(); closure.dedup(); closure *)
Definition nfa_epsilon_closure (n:nfa) (q:nat) : res (list nat) :=
  do cl <- closure_loop (S (length (nstates n))) n [q] 0 ; Ok (norm cl).

(* derived Ord of (CharClassID, StateID): sort_unstable(); dedup() *)
Definition pair_ltb (x y:N * nat) : bool :=
  N.ltb (fst x) (fst y) || (N.eqb (fst x) (fst y) && (snd x <? snd y)).
Definition pair_eqb (x y:N * nat) : bool := N.eqb (fst x) (fst y) && (snd x =? snd y).
Fixpoint pinsert (x:N * nat) (l:list (N * nat)) : list (N * nat) :=
  match l with
  | [] => [x]
  | y :: l' => if pair_ltb x y then x :: l else if pair_eqb x y then l else y :: pinsert x l'
  end.
Definition pnorm (l:list (N * nat)) : list (N * nat) := fold_right pinsert [] l.

(* Nfa::get_match_transitions: self.states()[state] is an index access *)
Definition nfa_match_transitions (n:nfa) (X:list nat) : res (list (N * nat)) :=
  do l <- fold_left (fun acc q => do a <- acc ;
                       match nth_error (nstates n) q with
                       | Some s => Ok (a ++ strs s)
                       | None => Panic
                       end) X (Ok []) ;
  Ok (pnorm l).

(* Nfa::highest_state_number: the largest id, 0 without states *)
Definition highest_state_number (n:nfa) : nat := fold_left (fun m s => Nat.max m (sid s)) (nstates n) 0.

(* ================= multi_pattern_nfa.rs ================= *)
(* (terminal id of the pattern, NFA with shifted ids); start_transitions = the starts in order *)
Definition mp_nfa := list (N * nfa).

(* try_from_patterns: next_state = 1; shift_ids(next_state); next_state = highest + 1 *)
Fixpoint mp_build_from (next:nat) (l:list (N * nfa)) : mp_nfa :=
  match l with
  | [] => []
  | (t, n) :: l' =>
      let n' := nfa_shift_ids n next in
      (t, n') :: mp_build_from (highest_state_number n' + 1) l'
  end.
Definition mp_build (l:list (N * nfa)) : mp_nfa := mp_build_from 1 l.

Definition find_nfa (mp:mp_nfa) (q:nat) : option (N * nfa) :=
  find (fun tn => contains_state (snd tn) q) mp.
Definition is_accepting_state (mp:mp_nfa) (q:nat) : bool :=
  existsb (fun tn => nend (snd tn) =? q) mp.

(* sort_unstable() of a vector without duplicates *)
Fixpoint sort_ins (x:nat) (l:list nat) : list nat :=
  match l with [] => [x] | y :: l' => if x <=? y then x :: l else y :: sort_ins x l' end.
Definition sort_nat (l:list nat) : list nat := fold_right sort_ins [] l.

(* MultiPatternNfa::epsilon_closure *)
Definition mp_closure (mp:mp_nfa) (q:nat) : res (list nat) :=
  if q =? 0 then
    do r <- fold_left (fun acc tn => do a <- acc ;
                         do c <- nfa_epsilon_closure (snd tn) (nstart (snd tn)) ;
                         Ok (fold_left push_new c a)) mp (Ok [0]) ;
    Ok (sort_nat r)
  else
    match find_nfa mp q with
    | Some tn => nfa_epsilon_closure (snd tn) q
    | None => Ok []                                  (* unwrap_or_default *)
    end.

(* the transitions of one state; `strict`: a missing NFA is a panic (start transitions) or is
   silently skipped (members of the closure) *)
Definition state_trs (mp:mp_nfa) (q:nat) (strict:bool) : res (list (N * nat)) :=
  match find_nfa mp q with
  | Some tn => match find_state (snd tn) q with Some s => Ok (strs s) | None => Panic end
  | None => if strict then Panic else Ok []
  end.

(* target_states.sort_by_key(|t| t.1) (stable); target_states.dedup() (adjacent duplicates) *)
Fixpoint ins_by_target (x:N * nat) (l:list (N * nat)) : list (N * nat) :=
  match l with
  | [] => [x]
  | y :: l' => if snd x <=? snd y then x :: l else y :: ins_by_target x l'
  end.
Definition sort_by_target (l:list (N * nat)) : list (N * nat) := fold_right ins_by_target [] l.
Fixpoint dedup_adj (l:list (N * nat)) : list (N * nat) :=
  match l with
  | [] => []
  | x :: l' =>
      match l' with
      | [] => [x]
      | y :: _ => if pair_eqb x y then dedup_adj l' else x :: dedup_adj l'
      end
  end.

(* MultiPatternNfa::get_match_transitions: state 0 contributes the transitions of the start
   states themselves *)
Definition mp_match_transitions (mp:mp_nfa) (X:list nat) : res (list (N * nat)) :=
  do l <- fold_left (fun acc q => do a <- acc ;
             if q =? 0 then
               fold_left (fun acc2 tn => do a2 <- acc2 ;
                            do ts <- state_trs mp (nstart (snd tn)) true ; Ok (a2 ++ ts)) mp (Ok a)
             else do ts <- state_trs mp q false ; Ok (a ++ ts)) X (Ok []) ;
  Ok (dedup_adj (sort_by_target l)).

(* ================= compiled_dfa.rs: the two From impls share this loop ================= *)
Record bst := { smap : list (list nat);            (* state_map *)
                queue : list nat;
                edges : list (nat * N * nat);      (* transitions *)
                accs : list (nat * N) }.           (* accepting_states *)

Fixpoint set_index (X:list nat) (m:list (list nat)) : option nat :=
  match m with
  | [] => None
  | Y :: m' => if natlist_eqb X Y then Some 0 else option_map S (set_index X m')
  end.
Definition edge3_eqb (x y:nat * N * nat) : bool :=
  (fst (fst x) =? fst (fst y)) && N.eqb (snd (fst x)) (snd (fst y)) && (snd x =? snd y).
Definition add_edge (e:nat * N * nat) (es:list (nat * N * nat)) : list (nat * N * nat) :=
  if existsb (edge3_eqb e) es then es else es ++ [e].
Definition acc_eqb (x y:nat * N) : bool := (fst x =? fst y) && N.eqb (snd x) (snd y).

Section Bfs.
Variable cl : nat -> res (list nat).               (* epsilon_closure of one state (a Vec) *)
Variable mt : list nat -> res (list (N * nat)).    (* get_match_transitions of a closure set *)
Variable tokf : nat -> res N.                      (* terminal id for a target state *)
Variable accb : list nat -> bool.                  (* does the closure contain an end state? *)

(* the body of `for (cc, target_state) in target_states` *)
Definition visit (cur:nat) (ct:N * nat) (st:bst) : res bst :=
  do v <- cl (snd ct) ;
  let X := norm v in                               (* BTreeSet::from_iter *)
  let cand := length (smap st) in                  (* state_map.len() *)
  let '(sm, qu, j) :=
    match set_index X (smap st) with               (* entry(..).or_insert_with(..) *)
    | Some j => (smap st, queue st, j)
    | None => (smap st ++ [X], queue st ++ [cand], cand)
    end in
  do tk <- tokf (snd ct) ;
  let ac := if accb X && negb (existsb (acc_eqb (j, tk)) (accs st))
            then accs st ++ [(j, tk)] else accs st in
  Ok {| smap := sm; queue := qu; edges := add_edge (cur, fst ct, j) (edges st); accs := ac |}.

Fixpoint bfs_loop (fuel:nat) (st:bst) : res bst :=
  match fuel with
  | 0 => Panic
  | S f =>
      match queue st with
      | [] => Ok st
      | cur :: rest =>
          match nth_error (smap st) cur with       (* state_map.iter().find(|(_, v)| **v == cur).unwrap() *)
          | None => Panic
          | Some X =>
              do targets <- mt X ;
              do st' <- fold_left (fun acc ct => do s <- acc ; visit cur ct s) targets
                          (Ok {| smap := smap st; queue := rest; edges := edges st; accs := accs st |}) ;
              bfs_loop f st'
          end
      end
  end.

(* states[from].transitions.push((cc, to)); end_states[state] = (true, term) (later entries
   overwrite earlier ones) *)
Definition finish (ti:list N) (st:bst) : res dfa :=
  let len := length (smap st) in
  if forallb (fun e : nat * N * nat => fst (fst e) <? len) (edges st)
     && forallb (fun e : nat * N => fst e <? len) (accs st)
  then Ok {| trans := map (fun q => map (fun e : nat * N * nat => (snd (fst e), snd e))
                                      (filter (fun e : nat * N * nat => fst (fst e) =? q) (edges st)))
                          (seq 0 len);
             fin := fold_left (fun f (e:nat * N) => set_nth (fst e) (true, snd e) f) (accs st)
                              (repeat (false, 0%N) len);
             tids := ti |}
  else Panic.

Definition bfs (fuel:nat) (start:nat) (ti:list N) : res dfa :=
  do v0 <- cl start ;
  do st <- bfs_loop fuel {| smap := [norm v0]; queue := [0]; edges := []; accs := [] |} ;
  finish ti st.
End Bfs.

Definition total_states (mp:mp_nfa) : nat := fold_right (fun tn k => length (nstates (snd tn)) + k) 0 mp.

(* impl From<MultiPatternNfa> for CompiledDfa, before Minimizer::minimize *)
Definition mp_tok (mp:mp_nfa) (q:nat) : res N :=
  match find_nfa mp q with Some tn => Ok (fst tn) | None => Panic end.   (* .expect("NFA not found") *)
Definition compile_mp (mp:mp_nfa) : res dfa :=
  bfs (mp_closure mp) (mp_match_transitions mp) (mp_tok mp) (existsb (is_accepting_state mp))
      (total_states mp + 3) 0 (map fst mp).

(* impl From<Nfa> for CompiledDfa (lookaheads), before Minimizer::minimize; ids = indices *)
Definition compile_single (n:nfa) (tid:N) : res dfa :=
  bfs (nfa_epsilon_closure n) (nfa_match_transitions n) (fun _ => Ok tid) (natmem (nend n))
      (length (nstates n) + 3) (nstart n) [tid].

(* ================= a whole mode ================= *)
Inductive nfas_res := NBuilt (l:list (N * nfa)) | NUnsupported | NPanicked.
(* try_from_patterns stops at the first pattern that fails *)
Fixpoint nfas_of (pats:list (N * ast)) : nfas_res :=
  match pats with
  | [] => NBuilt []
  | (t, a) :: ps =>
      match try_from_ast a with
      | Built n => match nfas_of ps with NBuilt l => NBuilt ((t, n) :: l) | o => o end
      | Unsupported => NUnsupported
      | Panicked => NPanicked
      end
  end.

Inductive mode_res := Compiled (A:dfa) | ModeUnsupported | ModePanic.
Definition compile_mode_unmin (pats:list (N * ast)) : mode_res :=
  match nfas_of pats with
  | NBuilt l => match compile_mp (mp_build l) with Ok A => Compiled A | Panic => ModePanic end
  | NUnsupported => ModeUnsupported
  | NPanicked => ModePanic
  end.
(* .. followed by Minimizer::minimize (StateGroupIDBase = u32) *)
Definition compile_mode (pats:list (N * ast)) : mode_res :=
  match compile_mode_unmin pats with
  | Compiled A => match minimize 32 A with Some B => Compiled B | None => ModePanic end
  | o => o
  end.
(* a lookahead: Nfa::try_from_ast, then From<Nfa>; the terminal id of the default Pattern is 0 *)
Definition compile_la_unmin (a:ast) : mode_res :=
  match try_from_ast a with
  | Built n => match compile_single n 0%N with Ok A => Compiled A | Panic => ModePanic end
  | Unsupported => ModeUnsupported
  | Panicked => ModePanic
  end.
Definition compile_la (a:ast) : mode_res :=
  match compile_la_unmin a with
  | Compiled A => match minimize 32 A with Some B => Compiled B | None => ModePanic end
  | o => o
  end.

(* ================= interface for generated test files ================= *)
Definition enc_mode_res (r:mode_res) : list (list N) :=
  match r with
  | Compiled A => enc_dfa A
  | ModeUnsupported => [[0%N]]
  | ModePanic => [[999999%N]]
  end.
Definition compile_mode_unmin_enc (pats:list (N * ast)) : list (list N) := enc_mode_res (compile_mode_unmin pats).
Definition compile_mode_enc (pats:list (N * ast)) : list (list N) := enc_mode_res (compile_mode pats).
Definition compile_la_unmin_enc (a:ast) : list (list N) := enc_mode_res (compile_la_unmin a).
Definition compile_la_enc (a:ast) : list (list N) := enc_mode_res (compile_la a).
(* the terminal_ids vector *)
Definition compile_mode_tids (pats:list (N * ast)) : list N :=
  match compile_mode pats with Compiled A => tids A | _ => [] end.
