(* FindFrom.v — transcription of CompiledDfa::find_from (compiled_dfa.rs) and
   CompiledLookahead::satisfies_lookahead (compiled_lookahead.rs). Definitions only.

   Rust panic sites are explicit: priority_of(..).unwrap() is the only one that does not
   depend on the shape of the vectors; indexing is total here through `nth` and is justified by
   the well-formedness predicate `wf_dfa` (Automaton.v), which every theorem assumes. *)
From Scnr Require Import Base Automaton.

Inductive res (T:Type) : Type := Ok (x:T) | Panic.
Arguments Ok {T} x.
Arguments Panic {T}.

Definition cand3 := (nat * nat * N)%type.      (* end of match (bytes), lookahead length (bytes), token type *)
Definition ext (c:cand3) : nat := let '(e,l,_) := c in e + l.
Definition tk (c:cand3) : N := let '(_,_,t) := c in t.

Section FF.
Variable tbl : N -> N -> bool.
Variable A : dfa.
(* result of the lookahead of token type t on the rest of the haystack:
   Ok None = not satisfied, Ok (Some l) = satisfied and l bytes long (0 if there is none) *)
Variable la : N -> list N -> res (option nat).

(* CompiledDfa::priority_of: position in terminal_ids, unwrap *)
Definition prio (t:N) : option nat := nindex t (tids A).

(* does candidate c replace the best candidate b? *)
Definition better (c:cand3) (b:option cand3) : res bool :=
  match b with
  | None => Ok true
  | Some b0 =>
      if ext b0 <? ext c then Ok true
      else if ext c =? ext b0 then
        match prio (tk c), prio (tk b0) with
        | Some p, Some p0 => Ok (p <? p0)
        | _, _ => Panic
        end
      else Ok false
  end.

(* one transition into an accepting state of token type t, ending at byte e, rest of haystack *)
Definition consider (e:nat) (rest:list N) (b:res (option cand3)) (t:N) : res (option cand3) :=
  match b with
  | Panic => Panic
  | Ok b0 =>
      match la t rest with
      | Panic => Panic
      | Ok None => Ok b0
      | Ok (Some l) =>
          match better (e,l,t) b0 with
          | Panic => Panic
          | Ok true => Ok (Some (e,l,t))
          | Ok false => Ok b0
          end
      end
  end.

(* token types of the accepting targets, in the order the Rust loops visit them *)
Definition acc_targets (S:list nat) (c:N) : list N :=
  flat_map (fun q => flat_map (fun q' => match nth q' (fin A) (false,0%N) with (true,t) => [t] | _ => [] end)
                              (out tbl A q c)) S.

(* the loop over char_indices; i = byte index of the next character *)
Fixpoint sim (S:list nat) (i:nat) (s:list N) (b:option cand3) : res (option cand3) :=
  match s with
  | [] => Ok b
  | c :: s' =>
      let e := i + len_utf8 c in
      match fold_left (consider e s') (acc_targets S c) (Ok b) with
      | Panic => Panic
      | Ok b' => match step tbl A S c with [] => Ok b' | S' => sim S' e s' b' end
      end
  end.

(* result: token type and end of the match in bytes relative to the start of s *)
Definition find_from (s:list N) : res (option (N * nat)) :=
  match sim [0] 0 s None with
  | Panic => Panic
  | Ok None => Ok None
  | Ok (Some (e,_,t)) => Ok (Some (t,e))
  end.
End FF.

(* a lookahead automaton has no lookaheads of its own *)
Definition no_la : N -> list N -> res (option nat) := fun _ _ => Ok (Some 0).
Definition find_plain (tbl:N->N->bool) (D:dfa) (s:list N) : res (option (N * nat)) := find_from tbl D no_la s.

(* a scanner mode's automaton with its lookaheads: token type -> (is_positive, automaton) *)
Record mode_aut := { main : dfa; las : list (N * (bool * dfa)) }.

(* CompiledLookahead::satisfies_lookahead, and "no lookahead for this token type" *)
Definition la_of (tbl:N->N->bool) (L:list (N * (bool * dfa))) (t:N) (rest:list N) : res (option nat) :=
  match nassoc t L with
  | None => Ok (Some 0)
  | Some (pos, D) =>
      match find_plain tbl D rest with
      | Panic => Panic
      | Ok (Some (_, len)) => Ok (if pos then Some len else None)
      | Ok None => Ok (if pos then None else Some 0)
      end
  end.

Definition find_mode (tbl:N->N->bool) (M:mode_aut) (s:list N) : res (option (N * nat)) :=
  find_from tbl (main M) (la_of tbl (las M)) s.

(* every accepting token type is listed in terminal_ids (so priority_of never unwraps None) *)
Definition dfa_ok (D:dfa) : Prop := forall q t, acc D q t = true -> In t (tids D).
Definition dfa_okb (D:dfa) : bool :=
  forallb (fun e : bool * N => if fst e then nmem (snd e) (tids D) else true) (fin D).


Definition mode_ok (M:mode_aut) : Prop :=
  dfa_ok (main M) /\ forall t pos D, nassoc t (las M) = Some (pos, D) -> dfa_ok D.
Definition mode_okb (M:mode_aut) : bool :=
  dfa_okb (main M) && forallb (fun e : N * (bool * dfa) => dfa_okb (snd (snd e))) (las M).

